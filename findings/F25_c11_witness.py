"""Witness for F25 (C11): the report channel of the power manager was named by component ids and priority only.  A
regular actor and an operating-point actor with the same priority on the same components therefore shared ONE report
channel: each of them received both groups' reports, and the report "currently" seen by the operating-point actor was
the regular group's (sent last).  The request the manager sends (regular target + operating-point target) is then not
the sum of the two targets the actors were last told.
PYTHONPATH=<tree>/src /venv/bin/python findings/F25_c11_witness.py ; exit 0 = holds, 1 = violated."""
import asyncio, logging, sys, types
from datetime import datetime, timezone
from frequenz.channels import Broadcast
from frequenz.client.microgrid import ComponentCategory
from frequenz.quantities import Power
from frequenz.sdk._internal._channels import ChannelRegistry
from frequenz.sdk.microgrid import _data_pipeline, _power_distributing
from frequenz.sdk.microgrid._power_managing import Proposal, ReportRequest
from frequenz.sdk.microgrid._power_managing._base_classes import _Report
from frequenz.sdk.microgrid._power_managing._power_managing_actor import PowerManagingActor
from frequenz.sdk.timeseries import Bounds
from frequenz.sdk.timeseries._base_types import SystemBounds

IDS = frozenset({8, 18})

async def main() -> int:
    logging.disable(logging.CRITICAL)
    bounds_ch = Broadcast[SystemBounds](name="bounds")
    _data_pipeline.new_battery_pool = lambda *, priority, component_ids, **_: types.SimpleNamespace(  # type: ignore
        _system_power_bounds=bounds_ch)
    proposals, subs = Broadcast[Proposal](name="p"), Broadcast[ReportRequest](name="s")
    requests, results = Broadcast[_power_distributing.Request](name="rq"), Broadcast[_power_distributing.Result](name="rs")
    registry = ChannelRegistry(name="reg")
    req_rx = requests.new_receiver(limit=100)
    actor = PowerManagingActor(
        proposals_receiver=proposals.new_receiver(limit=100), bounds_subscription_receiver=subs.new_receiver(limit=100),
        power_distributing_requests_sender=requests.new_sender(), power_distributing_results_receiver=results.new_receiver(limit=100),
        channel_registry=registry, component_category=ComponentCategory.BATTERY)
    actor.start()
    async def settle() -> None:
        for _ in range(40):
            await asyncio.sleep(0)
    await settle()
    rx = {}
    for op in (False, True):
        r = ReportRequest(source_id="op" if op else "reg", component_ids=IDS, priority=5, set_operating_point=op)
        rx[op] = registry.get_or_create(_Report, r.get_channel_name()).new_receiver(limit=100)
        await subs.new_sender().send(r)
        await settle()
    await bounds_ch.new_sender().send(SystemBounds(
        timestamp=datetime.now(tz=timezone.utc), inclusion_bounds=Bounds(Power.from_watts(-1000), Power.from_watts(1000)),
        exclusion_bounds=Bounds(Power.zero(), Power.zero())))
    await settle()
    now = asyncio.get_running_loop().time()
    for op, watts in ((False, 100.0), (True, 30.0)):
        await proposals.new_sender().send(Proposal(
            source_id="op" if op else "reg", preferred_power=Power.from_watts(watts), bounds=Bounds(None, None),
            component_ids=IDS, priority=5, creation_time=now, set_operating_point=op))
        await settle()
    last_request = None
    while True:
        try:
            last_request = await asyncio.wait_for(req_rx.receive(), 0.05)
        except asyncio.TimeoutError:
            break
    told = {}
    for op in (False, True):
        last = None
        while True:
            try:
                last = await asyncio.wait_for(rx[op].receive(), 0.05)
            except asyncio.TimeoutError:
                break
        told[op] = None if last is None or last.target_power is None else last.target_power.as_watts()
    await actor.stop()
    sent = None if last_request is None else last_request.power.as_watts()
    ok = sent is not None and None not in told.values() and abs(sent - (told[False] + told[True])) < 1e-9
    print(f"request sent: {sent} W; regular actor last told {told[False]} W, operating-point actor last told {told[True]} W")
    print("F25 witness:", "holds" if ok else "violated")
    return 0 if ok else 1

sys.exit(asyncio.run(main()))
