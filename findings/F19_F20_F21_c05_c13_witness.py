"""Witness for F19, F20 (C05) and F21 (C13): three ways in which a composed formula did not evaluate to its expression.
F19  the higher-order builders' operators extended the builder in place: `s = a + b; x = s * 2.0; (s - c)` evaluated
     ((a + b) * 2.0) - c  (1, 2, 3 -> 3.0 instead of 0.0).
F20  input streams of a composition are shared by engine *name*: two different engines called "#4" (what
     FormulaEnginePool.from_string gives for the same text and two metrics) divided to a constant 1.0.
F21  HigherOrderFormulaBuilder3Phase.build() dropped CONSTANT tokens: `engine_3ph * 2.0` never emitted a sample
     (C13: a sample is emitted for every input timestamp).
PYTHONPATH=<tree>/src /venv/bin/python findings/F19_F20_F21_c05_c13_witness.py ; exit 0 = holds, 1 = violated."""
import asyncio, logging, sys
from datetime import datetime, timedelta, timezone
from frequenz.channels import Broadcast
from frequenz.quantities import Quantity
from frequenz.sdk.timeseries import Sample, Sample3Phase
from frequenz.sdk.timeseries.formula_engine._formula_engine import FormulaBuilder, FormulaEngine3Phase

T0 = datetime(2024, 1, 1, tzinfo=timezone.utc)

def leaf(name, chan_name=None):
    ch = Broadcast[Sample[Quantity]](name=chan_name or name)
    b = FormulaBuilder(name, Quantity)
    b.push_metric(name, ch.new_receiver(), nones_are_zeros=False)
    return ch, b.build()

async def value_of(engine, chans, vals):
    rx = engine.new_receiver()
    await asyncio.sleep(0.01)
    for ch, v in zip(chans, vals):
        await ch.new_sender().send(Sample(T0, Quantity(v)))
    try:
        m = await asyncio.wait_for(rx.receive(), 0.5)
    except asyncio.TimeoutError:
        return "no sample"
    return None if m.value is None else m.value.base_value

async def alias():
    (ca, a), (cb, b), (cc, c) = leaf("a"), leaf("b"), leaf("c")
    s = a + b
    x = s * 2.0          # a second expression that uses s
    e = (s - c).build("s-c")
    got = await value_of(e, [ca, cb, cc], [1.0, 2.0, 3.0])
    return got, 0.0

async def samename():
    (c1, e1) = leaf("#4", "p")
    (c2, e2) = leaf("#4", "v")
    e = (e1 / e2).build("p/v")
    got = await value_of(e, [c1, c2], [2300.0, 230.0])
    return got, 10.0

async def three_phase_const():
    chans, engs = [], []
    for p in range(3):
        ch, e = leaf(f"l{p}")
        chans.append(ch); engs.append(e)
    e3 = FormulaEngine3Phase("cur", Quantity, tuple(engs))
    try:
        out = (e3 * 2.0).build("twice")
    except Exception as exc:
        return f"build raised {exc!r}", (2.0, 4.0, 6.0)
    rx = out.new_receiver()
    await asyncio.sleep(0.01)
    for ch, v in zip(chans, (1.0, 2.0, 3.0)):
        await ch.new_sender().send(Sample(T0, Quantity(v)))
    try:
        m = await asyncio.wait_for(rx.receive(), 0.5)
    except asyncio.TimeoutError:
        return "no sample", (2.0, 4.0, 6.0)
    return tuple(None if v is None else v.base_value for v in (m.value_p1, m.value_p2, m.value_p3)), (2.0, 4.0, 6.0)

async def main():
    logging.disable(logging.CRITICAL)
    bad = 0
    for f in (alias, samename, three_phase_const):
        got, want = await f()
        print(f.__name__, "got", got, "want", want)
        bad += got != want
    return 1 if bad else 0
sys.exit(asyncio.run(main()))
