"""Witness for F10 (C02 and C01): the battery manager admits a request that is smaller than the sum of
the group minimum powers when the exclusion zone sits on the battery in some groups and on the
inverter in others; the algorithm then over-commits and takes the difference back from the first
group, which ends inside its exclusion zone (C02) or is commanded against the sign of the request (C01).
    cd <tree> && PYTHONPATH=<tree>/src:<tree> /venv/bin/python /verif/findings/F10_c01_c02_witness.py
Exit 0 = every admitted request is distributed outside all exclusion zones with the request's sign, 1 = violated."""
import sys
from datetime import datetime, timezone
from frequenz.sdk.microgrid._power_distributing._component_managers._battery_manager import BatteryManager
from frequenz.sdk.microgrid._power_distributing._distribution_algorithm import (
    AggregatedBatteryData, BatteryDistributionAlgorithm, InvBatPair)
from tests.utils.component_data_wrapper import BatteryDataWrapper, InverterDataWrapper

NOW = datetime.now(tz=timezone.utc)

def bat(cid, excl):
    return BatteryDataWrapper(component_id=cid, timestamp=NOW, soc=50.0, soc_lower_bound=20.0,
                              soc_upper_bound=80.0, capacity=1000.0, power_inclusion_lower_bound=-1000.0,
                              power_inclusion_upper_bound=1000.0, power_exclusion_lower_bound=-excl,
                              power_exclusion_upper_bound=excl)

def inv(cid, excl):
    return InverterDataWrapper(component_id=cid, timestamp=NOW, active_power_inclusion_lower_bound=-1000.0,
                               active_power_inclusion_upper_bound=1000.0, active_power_exclusion_lower_bound=-excl,
                               active_power_exclusion_upper_bound=excl)

def group(k, on_battery):
    return InvBatPair(AggregatedBatteryData([bat(k, 100.0 if on_battery else 0.0)]),
                      [inv(10 + k, 0.0 if on_battery else 100.0)])

bad = []
for n, requests in ((2, (100.0, 120.0, 199.0, -150.0)), (4, (200.0, 250.0, 399.0, -200.0))):
    pairs = [group(k + 1, k % 2 == 0) for k in range(n)]
    bounds = BatteryManager._get_bounds(None, pairs)  # type: ignore[arg-type]  # does not use self
    for power in requests:
        admitted = (bounds.inclusion_lower <= power <= bounds.exclusion_lower
                    or bounds.exclusion_upper <= power <= bounds.inclusion_upper)
        if not admitted:
            continue  # rejected as out of bounds: nothing is distributed
        res = BatteryDistributionAlgorithm(1).distribute_power(power, pairs)
        for k in range(n):
            w = res.distribution[11 + k]
            if w != 0.0 and -100.0 < w < 100.0:
                bad.append(f"{n} groups, admitted request {power} W (advertised exclusion zone "
                           f"({bounds.exclusion_lower}, {bounds.exclusion_upper})): inverter {11 + k} gets {w} W, "
                           f"inside the group's exclusion zone (-100, 100)  {res.distribution}")
            if w * power < 0:
                bad.append(f"{n} groups, admitted request {power} W: inverter {11 + k} is commanded {w} W, "
                           f"against the sign of the request  {res.distribution}")
print("\n".join(bad) or "ok")
sys.exit(1 if bad else 0)
