"""Witness for F1/F2 (C01) and F3 (C02):
    cd <tree> && PYTHONPATH=<tree>/src:<tree> /venv/bin/python /verif/findings/F1_F2_F3_c01_c02_witness.py
Exit 0 = conservation / no-headroom rules observed to hold, 1 = violated."""
import math, sys
from datetime import datetime, timezone
from frequenz.sdk.microgrid._power_distributing._distribution_algorithm import (
    AggregatedBatteryData, BatteryDistributionAlgorithm, InvBatPair)
from tests.utils.component_data_wrapper import BatteryDataWrapper, InverterDataWrapper

NOW = datetime.now(tz=timezone.utc)

def bat(cid, soc, incl, excl=0.0, cap=1000.0, lo=20.0, hi=80.0):
    return BatteryDataWrapper(component_id=cid, timestamp=NOW, soc=soc, soc_lower_bound=lo,
                              soc_upper_bound=hi, capacity=cap, power_inclusion_lower_bound=-incl,
                              power_inclusion_upper_bound=incl, power_exclusion_lower_bound=-excl,
                              power_exclusion_upper_bound=excl)

def inv(cid, incl, excl=0.0):
    return InverterDataWrapper(component_id=cid, timestamp=NOW, active_power_inclusion_lower_bound=-incl,
                               active_power_inclusion_upper_bound=incl, active_power_exclusion_lower_bound=-excl,
                               active_power_exclusion_upper_bound=excl)

bad = []
def conserve(tag, power, comps):
    res = BatteryDistributionAlgorithm(1).distribute_power(power, comps)
    total = sum(res.distribution.values()) + res.remaining_power
    if not math.isclose(total, power, abs_tol=1e-6):
        bad.append(f"{tag}: request {power} W -> set-points {res.distribution} remainder "
                   f"{res.remaining_power}: sum {total:.3f} != request")
    return res

# F1: unpaired mirror-ledger adjustment in the deficit block
A = InvBatPair(AggregatedBatteryData([bat(1, 79.9, 1000.0, excl=100.0)]), [inv(11, 1000.0)])
B = InvBatPair(AggregatedBatteryData([bat(2, 20.0, 50.0)]), [inv(12, 50.0)])
conserve("F1a", 200.0, [A, B])
conserve("F1b", 120.0, [A, B])
# F2: residual of the per-inverter split dropped
C = InvBatPair(AggregatedBatteryData([bat(3, 50.0, 1000.0)]), [inv(13, 70.0, excl=50.0), inv(14, 70.0, excl=50.0)])
conserve("F2", 100.0, [C])
# F3: a full battery (no SoC headroom) must get zero
for req in (150.0, 400.0, 1500.0):
    full = InvBatPair(AggregatedBatteryData([bat(5, 80.0, 1000.0, excl=100.0)]), [inv(15, 1000.0)])
    half = InvBatPair(AggregatedBatteryData([bat(6, 50.0, 1000.0, excl=50.0)]), [inv(16, 1000.0)])
    res = BatteryDistributionAlgorithm(1).distribute_power(req, [full, half])
    if not math.isclose(res.distribution[15], 0.0, abs_tol=1e-9):
        bad.append(f"F3: request {req} W: battery at soc == soc_upper_bound is charged with "
                   f"{res.distribution[15]} W ({res.distribution})")
print("\n".join(bad) or "ok"); sys.exit(1 if bad else 0)
