"""Witness for F23 (C09): a MovingWindow fed directly (no resampler) stopped updating for good after one sample that was
older than its window: OrderedRingBuffer.update() rejects such a sample with IndexError (as the property demands), but
MovingWindow._run_impl let the exception end its update task, so every later sample was lost.
PYTHONPATH=<tree>/src /venv/bin/python findings/F23_c09_witness.py ; exit 0 = holds, 1 = violated."""
import asyncio, logging, sys
from datetime import datetime, timedelta, timezone
from frequenz.channels import Broadcast
from frequenz.quantities import Quantity
from frequenz.sdk.timeseries import MovingWindow, Sample

T0 = datetime(2024, 1, 1, tzinfo=timezone.utc)

async def main() -> int:
    logging.disable(logging.CRITICAL)
    ch = Broadcast[Sample[Quantity]](name="src")
    tx = ch.new_sender()
    bad = []
    w = MovingWindow(size=timedelta(seconds=5), resampled_data_recv=ch.new_receiver(),
                     input_sampling_period=timedelta(seconds=1))
    w.start()
    if True:
        async def put(sec: int, v: float) -> None:
            await tx.send(Sample(T0 + timedelta(seconds=sec), Quantity(v)))
            await asyncio.sleep(0.01)
        for i in range(10, 16):
            await put(i, float(i))
        await put(2, 2.0)                 # older than the window [11, 15]: must be rejected, nothing else
        for i in range(16, 19):
            await put(i, float(i))        # ... and these must still be stored
        want = [14.0, 15.0, 16.0, 17.0, 18.0]
        got = [float(x) for x in w.window(T0 + timedelta(seconds=14), T0 + timedelta(seconds=19), force_copy=True)] \
            if w.newest_timestamp == T0 + timedelta(seconds=18) else None
        if got != want:
            bad.append(f"after a too-old sample the window stopped: newest={w.newest_timestamp}, window={got}, expected newest=+18 s, {want}")
    try:
        await w.stop()
    except BaseException as exc:  # the dead update task's error surfaces here
        bad.append(f"stop() surfaced {exc!r}")
    for b in bad:
        print("VIOLATED:", b)
    print("F23 witness:", "violated" if bad else "holds")
    return 1 if bad else 0

sys.exit(asyncio.run(main()))
