"""Witness for F22 (C07): a timeseries added (or removed) while a tick waits for a slow sink made Resampler.resample()
pair the tick's results with the *new* contents of the registry: IndexError out of resample() (the resampling task of a
MovingWindow / the resampling actor's run dies: no further ticks for any series), or an error blamed on the wrong source.
PYTHONPATH=<tree>/src /venv/bin/python findings/F22_c07_witness.py ; exit 0 = holds, 1 = violated."""
import asyncio, logging, sys
from datetime import datetime, timedelta, timezone
from frequenz.channels import Broadcast
from frequenz.quantities import Quantity
from frequenz.sdk.timeseries import Sample
from frequenz.sdk.timeseries._resampling import Resampler, ResamplerConfig, ResamplingError

async def main() -> int:
    logging.disable(logging.CRITICAL)
    period = 0.05
    res = Resampler(ResamplerConfig(resampling_period=timedelta(seconds=period)))
    got: dict[str, list[datetime]] = {"a": [], "b": []}
    ch = {n: Broadcast[Sample[Quantity]](name=n) for n in got}

    async def slow_sink_a(s: Sample[Quantity]) -> None:
        await asyncio.sleep(period * 1.5)          # sink latency of more than one period
        got["a"].append(s.timestamp)

    async def sink_b(s: Sample[Quantity]) -> None:
        got["b"].append(s.timestamp)

    res.add_timeseries("a", ch["a"].new_receiver(), slow_sink_a)

    async def add_later() -> None:
        await asyncio.sleep(period * 2.5)          # lands inside the first tick's wait for the sink
        res.add_timeseries("b", ch["b"].new_receiver(), sink_b)

    adder = asyncio.create_task(add_later())
    task = asyncio.create_task(res.resample())
    await asyncio.sleep(period * 12)
    await adder
    bad = []
    if task.done():
        bad.append(f"resample() ended with {task.exception()!r} after a series was added while a tick was in progress")
    else:
        task.cancel()
    for n, ts in got.items():
        steps = {(b - a) for a, b in zip(ts, ts[1:])}
        if len(ts) < 3 or steps != {timedelta(seconds=period)}:
            bad.append(f"series {n}: {len(ts)} samples, steps {sorted(s.total_seconds() for s in steps)}")
    for b in bad:
        print("VIOLATED:", b)
    print("F22 witness:", "violated" if bad else "holds")
    await res.stop()
    return 1 if bad else 0

sys.exit(asyncio.run(main()))
