"""Witness for F18 (C13): FormulaEnginePool.from_string cached string-formula engines under formula + metric only.
A second request for the same formula and metric with the *other* `nones_are_zeros` setting got the first engine, so
"on streams so configured a missing value behaves exactly like 0" failed for the second caller (and vice versa).
PYTHONPATH=<tree>/src /venv/bin/python findings/F18_c13_witness.py ; exit 0 = holds, 1 = violated."""
import asyncio, logging, sys
from datetime import datetime, timedelta, timezone

from frequenz.channels import Broadcast
from frequenz.client.microgrid import ComponentMetricId
from frequenz.quantities import Quantity
from frequenz.sdk._internal._channels import ChannelRegistry
from frequenz.sdk.microgrid._data_sourcing import ComponentMetricRequest
from frequenz.sdk.timeseries import Sample
from frequenz.sdk.timeseries.formula_engine._formula_engine_pool import FormulaEnginePool

T0 = datetime(2024, 1, 1, tzinfo=timezone.utc)


async def run(first: bool, second: bool) -> list[str]:
    reg = ChannelRegistry(name="w")
    req_ch = Broadcast[ComponentMetricRequest](name="req")
    req_rx = req_ch.new_receiver(limit=100)
    pool = FormulaEnginePool("ns", reg, req_ch.new_sender())
    e1 = pool.from_string("#1 + #2", ComponentMetricId.ACTIVE_POWER, nones_are_zeros=first)
    e2 = pool.from_string("#1 + #2", ComponentMetricId.ACTIVE_POWER, nones_are_zeros=second)
    rx1, rx2 = e1.new_receiver(max_size=50), e2.new_receiver(max_size=50)
    await asyncio.sleep(0.05)
    names = set()
    while True:
        try:
            names.add((await asyncio.wait_for(req_rx.receive(), 0.05)).get_channel_name())
        except asyncio.TimeoutError:
            break
    senders = {n: reg.get_or_create(Sample[Quantity], n).new_sender() for n in sorted(names)}
    ordered = sorted(senders)                       # component 1, component 2
    for i, (a, b) in enumerate([(1.0, 10.0), (None, 20.0), (3.0, None)]):
        ts = T0 + timedelta(seconds=i)
        await senders[ordered[0]].send(Sample(ts, None if a is None else Quantity(a)))
        await senders[ordered[1]].send(Sample(ts, None if b is None else Quantity(b)))
    bad = []
    for who, rx, zeros in (("first", rx1, first), ("second", rx2, second)):
        got = []
        for _ in range(3):
            m = await asyncio.wait_for(rx.receive(), 1.0)
            got.append(None if m.value is None else m.value.base_value)
        want = [11.0, 20.0, 3.0] if zeros else [11.0, None, None]
        if got != want:
            bad.append(f"requests (nones_are_zeros={first}, then {second}): the {who} caller (nones_are_zeros={zeros}) received {got}, expected {want}")
    await e1._stop(); await e2._stop()
    return bad


async def main() -> int:
    logging.disable(logging.CRITICAL)
    bad = []
    for first, second in ((False, False), (True, True), (False, True), (True, False)):
        bad += await run(first, second)
    for b in bad:
        print("VIOLATED:", b)
    print("F18 witness:", "violated" if bad else "holds")
    return 1 if bad else 0

sys.exit(asyncio.run(main()))
