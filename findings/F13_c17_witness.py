"""Witness for F13 (C17): the bounds a battery pool advertises (PowerBoundsCalculator.calculate, `+=` per group) and the
bounds the distributor enforces (BatteryManager._get_bounds, built-in sum(), compensated since CPython 3.12) can differ
in the last bit: a request of exactly the advertised inclusion bound (adjust_power=False) is answered OutOfBounds.
REPO_ROOT=<tree> PYTHONPATH=<tree>/src /venv/bin/python findings/F13_c17_witness.py ; exit 0 = holds, 1 = violated.
(harness by a seeding sub-agent, round 4)"""


from __future__ import annotations
import os
REPO_ROOT = os.environ.get("REPO_ROOT", "/repo")

import asyncio
import sys
from datetime import datetime, timedelta, timezone
from typing import Any
from unittest.mock import MagicMock, patch

sys.path.insert(0, REPO_ROOT)

from frequenz.client.microgrid import (  # noqa: E402
    BatteryData,
    ComponentCategory,
    InverterData,
)
from frequenz.quantities import Power  # noqa: E402

from frequenz.sdk.microgrid._data_sourcing.microgrid_api_source import (  # noqa: E402
    _BatteryDataMethods,
    _InverterDataMethods,
)
from frequenz.sdk.microgrid._power_distributing._component_managers import (  # noqa: E402
    _battery_manager as bm,
)
from frequenz.sdk.microgrid._power_distributing._component_pool_status_tracker import (  # noqa: E402
    ComponentPoolStatusTracker,
)
from frequenz.sdk.microgrid._power_distributing._distribution_algorithm import (  # noqa: E402
    DistributionResult,
)
from frequenz.sdk.microgrid._power_distributing.request import Request  # noqa: E402
from frequenz.sdk.microgrid._power_distributing.result import (  # noqa: E402
    OutOfBounds,
    PowerBounds,
)
from frequenz.sdk.timeseries._base_types import SystemBounds  # noqa: E402
from frequenz.sdk.timeseries.battery_pool._component_metrics import (  # noqa: E402
    ComponentMetricsData,
)
from frequenz.sdk.timeseries.battery_pool._metric_calculator import (  # noqa: E402
    PowerBoundsCalculator,
)
from tests.actor.power_distributing.test_battery_distribution_algorithm import (  # noqa: E402
    Bound,
    Metric,
    battery_msg,
    inverter_msg,
)
from tests.utils.graph_generator import GraphGenerator  # noqa: E402

NOW = datetime.now(timezone.utc)


class _Cache:
    """Stand-in for LatestValueCache holding one fixed message."""

    def __init__(self, value: Any) -> None:
        self._value = value

    def has_value(self) -> bool:
        return True

    def get(self) -> Any:
        return self._value


class Site:
    """One microgrid: graph + component data, seen by the pool and the distributor."""

    def __init__(
        self,
        graph: Any,
        batteries: dict[int, BatteryData],
        inverters: dict[int, InverterData],
    ) -> None:
        self.batteries = batteries
        self.inverters = inverters
        conn = MagicMock()
        conn.component_graph = graph
        tracker = MagicMock(spec=ComponentPoolStatusTracker)
        tracker.get_working_components.side_effect = set
        with patch.object(bm.connection_manager, "get", return_value=conn), patch.object(
            bm, "ComponentPoolStatusTracker", return_value=tracker
        ):
            self.manager = bm.BatteryManager(
                MagicMock(), MagicMock(), timedelta(seconds=1.0)
            )
            self.calculator = PowerBoundsCalculator(frozenset(batteries))
        # pylint: disable=protected-access
        self.manager._battery_caches = {k: _Cache(v) for k, v in batteries.items()}  # type: ignore
        self.manager._inverter_caches = {k: _Cache(v) for k, v in inverters.items()}  # type: ignore

    def advertised(self) -> SystemBounds:
        """Bounds the battery pool streams for this data."""
        metrics: dict[int, ComponentMetricsData] = {}
        for cid, mids in self.calculator.battery_metrics.items():
            msg = self.batteries[cid]
            metrics[cid] = ComponentMetricsData(
                cid, NOW, {m: _BatteryDataMethods[m](msg) for m in mids}
            )
        for cid, mids in self.calculator.inverter_metrics.items():
            imsg = self.inverters[cid]
            metrics[cid] = ComponentMetricsData(
                cid, NOW, {m: _InverterDataMethods[m](imsg) for m in mids}
            )
        return self.calculator.calculate(metrics, set(self.batteries))

    def request(self, watts: float, adjust_power: bool) -> Any:
        """Ask the distributor (without touching the API) what it does with `watts`."""
        req = Request(
            power=Power.from_watts(watts),
            component_ids=set(self.batteries),
            adjust_power=adjust_power,
        )
        # pylint: disable=protected-access
        return asyncio.run(self.manager._get_distribution(req))


def probe_powers(adv: SystemBounds) -> list[float]:
    """Powers on / just inside each advertised bound that the pool says are allowed."""
    assert adv.inclusion_bounds is not None and adv.exclusion_bounds is not None
    il = adv.inclusion_bounds.lower.as_watts()
    iu = adv.inclusion_bounds.upper.as_watts()
    el = adv.exclusion_bounds.lower.as_watts()
    eu = adv.exclusion_bounds.upper.as_watts()
    cands = [il, il + 1e-6, il + 1.0, el - 1.0, el - 1e-6, (il + el) / 2]
    cands += [iu, iu - 1e-6, iu - 1.0, eu + 1.0, eu + 1e-6, (iu + eu) / 2]
    return [p for p in cands if abs(p) > 1e-9 and Power.from_watts(p) in adv]


def check_site(name: str, site: Site) -> list[str]:
    """Return the list of violations of C17 found for this site."""
    problems: list[str] = []
    adv = site.advertised()
    print(f"[{name}] advertised: incl={adv.inclusion_bounds} excl={adv.exclusion_bounds}")
    for adjust in (False, True):
        for p in probe_powers(adv):
            res = site.request(p, adjust)
            if isinstance(res, OutOfBounds):
                problems.append(
                    f"[{name}] {p} W (adjust_power={adjust}) is inside the advertised "
                    f"bounds but was rejected: OutOfBounds(bounds={res.bounds})"
                )
            elif not isinstance(res, DistributionResult):
                problems.append(f"[{name}] {p} W: unexpected result {res}")
    return problems



SOC = Metric(50, Bound(10, 90))
CAP = Metric(10_000)


def site_fractional(vals: list[float]) -> Site:
    gen = GraphGenerator()
    bats_c = gen.components(*[ComponentCategory.BATTERY] * len(vals))
    invs_c = [gen.component(ComponentCategory.INVERTER) for _ in vals]
    graph = gen.to_graph((ComponentCategory.METER, [(i, [b]) for i, b in zip(invs_c, bats_c)]))
    bats = {b.component_id: battery_msg(b.component_id, CAP, SOC, PowerBounds(-v, -v / 10, v / 10, v)) for b, v in zip(bats_c, vals)}
    invs = {i.component_id: inverter_msg(i.component_id, PowerBounds(-v, -v / 10, v / 10, v)) for i, v in zip(invs_c, vals)}
    return Site(graph, bats, invs)


def main() -> int:
    import random
    problems: list[str] = []
    problems += check_site("3 pairs 536.8/1941.1/2617.3", site_fractional([536.8, 1941.1, 2617.3]))
    rnd = random.Random(7)
    n_bad = 0
    for k in range(60):
        vals = [round(rnd.uniform(100, 3000), 1) for _ in range(rnd.randint(3, 6))]
        import io, contextlib
        with contextlib.redirect_stdout(io.StringIO()):
            p = check_site(f"random {vals}", site_fractional(vals))
        n_bad += bool(p)
        problems += p[:1]
    for line in problems[:6]:
        print("VIOLATION:", line)
    print(f"{n_bad} of 60 random 3..6-group sites have a probe on/inside the advertised bounds that is rejected")
    print("F13 witness:", "violated" if problems else "holds")
    return 1 if problems else 0


if __name__ == "__main__":
    sys.exit(main())
