"""Witness for F6 (C13): run with PYTHONPATH=<tree>/src /venv/bin/python findings/F6_c13_witness.py
Exit 0 = property observed to hold, 1 = violated."""
import math, sys
from frequenz.sdk.timeseries.formula_engine._formula_steps import Maximizer, Minimizer, Divider
bad = []
for step in (Maximizer(), Minimizer()):
    for a, b in ((1.0, math.nan), (math.nan, 1.0)):
        st = [a, b]; step.apply(st)
        if not math.isnan(st[0]): bad.append(f"{step!r}({a},{b}) -> {st[0]} (missing input lost)")
try:
    st = [1.0, 0.0]; Divider().apply(st)
    if math.isfinite(st[0]): bad.append(f"1/0 -> {st[0]}")
except ZeroDivisionError as e:
    bad.append(f"Divider raises {e!r}: FormulaEngine._run drops the round")
print("\n".join(bad) or "ok"); sys.exit(1 if bad else 0)
