"""Witness for F14 (C09): OrderedRingBuffer.count_covered() divides float seconds with `//`:
0.3 // 0.1 == 2.0, so with a 100 ms sampling period three consecutive valid samples are reported as 2 covered
slots, and the index queries that rely on it (window(None, None), window(0, 3), MovingWindow[...]) drop the newest value.
PYTHONPATH=<tree>/src /venv/bin/python findings/F14_c09_witness.py ; exit 0 = holds, 1 = violated."""
import sys
from datetime import datetime, timedelta, timezone

import numpy as np
from frequenz.quantities import Quantity
from frequenz.sdk.timeseries import Sample
from frequenz.sdk.timeseries._ringbuffer import OrderedRingBuffer

T0 = datetime(2024, 1, 1, tzinfo=timezone.utc)
bad = []
for period_ms in (100, 200, 300, 700, 1000, 1100, 60000):
    period = timedelta(milliseconds=period_ms)
    for n in range(1, 12):
        for container in (lambda c: [0.0] * c, lambda c: np.empty(shape=(c,), dtype=float)):
            buf = OrderedRingBuffer(container(16), period, T0)
            for i in range(n):
                buf.update(Sample(T0 + i * period, Quantity(float(i + 1))))
            got = buf.count_covered()
            win = list(buf.window(0, n))
            if got != n or len(win) != n or [float(x) for x in win] != [float(i + 1) for i in range(n)]:
                bad.append(f"period {period_ms} ms, {n} consecutive samples: count_covered() = {got}, window(0, {n}) = {[float(x) for x in win]}")
for b in bad[:8]:
    print("VIOLATED:", b)
print(f"{len(bad)} failing (period, n, container) cases")
print("F14 witness:", "violated" if bad else "holds")
sys.exit(1 if bad else 0)
