"""Witness for F16 (C10, open -- recorded, not repaired): a task added to a BackgroundService while it is being stopped
is neither cancelled nor awaited.  stop() = cancel(); await wait(); wait() raises the group of CancelledErrors after the
first batch of finished tasks, stop() filters it and returns -- without looking at self._tasks again.
PYTHONPATH=<tree>/src /venv/bin/python findings/F16_c10_witness.py ; exit 0 = holds, 1 = violated."""
import asyncio, sys
from frequenz.sdk.actor import BackgroundService


class Svc(BackgroundService):
    def __init__(self) -> None:
        super().__init__(name="svc")
        self.late_finished = False
        self.late_cancelled = False

    def start(self) -> None:
        self._tasks.add(asyncio.create_task(self._main()))

    async def _main(self) -> None:
        try:
            await asyncio.sleep(1000)
        except asyncio.CancelledError:
            self._tasks.add(asyncio.create_task(self._late()))   # clean-up work registered while being stopped
            raise

    async def _late(self) -> None:
        try:
            await asyncio.sleep(0.2)
            self.late_finished = True
        except asyncio.CancelledError:
            self.late_cancelled = True
            raise


async def main() -> int:
    svc = Svc()
    svc.start()
    await asyncio.sleep(0.01)
    await svc.stop()
    bad = svc.is_running or not (svc.late_finished or svc.late_cancelled)
    print(f"after stop(): is_running={svc.is_running}, late task finished={svc.late_finished} cancelled={svc.late_cancelled}, "
          f"tasks left in the service={len(svc.tasks)}")
    print("F16 witness:", "violated" if bad else "holds")
    await asyncio.sleep(0.3)
    return 1 if bad else 0

sys.exit(asyncio.run(main()))
