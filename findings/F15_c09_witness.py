"""Witness for F15 (C09): MovingWindow.at() / window[i] read the raw ring storage without consulting the gap list.
Slots skipped by a jump ahead are recorded as a gap but keep the value that was evicted from them: capacity 5,
valid samples at slots 0..4, then a valid sample at slot 7 -> at(slot 5) returned slot 0's value (window() returns NaN).
PYTHONPATH=<tree>/src /venv/bin/python findings/F15_c09_witness.py ; exit 0 = holds, 1 = violated."""
import asyncio, math, sys
from datetime import datetime, timedelta, timezone
from frequenz.channels import Broadcast
from frequenz.quantities import Quantity
from frequenz.sdk.timeseries import MovingWindow, Sample

T0 = datetime(2024, 1, 1, tzinfo=timezone.utc)


async def scenario(cap: int, written: list[int]) -> list[str]:
    ch = Broadcast[Sample[Quantity]](name="x")
    tx = ch.new_sender()
    bad = []
    async with MovingWindow(size=timedelta(seconds=cap), resampled_data_recv=ch.new_receiver(),
                            input_sampling_period=timedelta(seconds=1)) as w:
        for i in written:
            await tx.send(Sample(T0 + timedelta(seconds=i), Quantity(float(100 + i))))
        await asyncio.sleep(0.02)
        ref = [float(x) for x in w.window(None, None)]          # the window query is the reference (fill = NaN)
        newest = max(written)
        first = newest - len(ref) + 1
        for k, want in enumerate(ref):
            for how, got in (("index", w.at(k)), ("negative index", w.at(k - len(ref))),
                             ("datetime", w.at(T0 + timedelta(seconds=first + k))), ("getitem", w[k])):
                same = (math.isnan(got) and math.isnan(want)) or got == want
                if not same:
                    bad.append(f"capacity {cap}, slots written {written}: at({how} of slot {first + k}) = {got}, window() has {want}")
    return bad


async def main() -> int:
    bad = []
    for cap, written in ((5, [0, 1, 2, 3, 4, 7]), (5, [0, 1, 2, 3, 4, 6]), (4, [0, 1, 2, 3, 5, 8]), (6, [0, 1, 2, 3, 4, 5, 6, 9, 10]),
                         (5, [0, 1, 2, 3, 4, 5, 6]), (3, [0, 2])):
        bad += await scenario(cap, written)
    for b in bad[:8]:
        print("VIOLATED:", b)
    print(f"{len(bad)} wrong single-slot reads")
    print("F15 witness:", "violated" if bad else "holds")
    return 1 if bad else 0

sys.exit(asyncio.run(main()))
