"""Witness for F9 (C19): `except ReceiverError[Any]` is not a catchable class.
PYTHONPATH=<tree>/src /venv/bin/python findings/F9_c19_witness.py ; exit 0 = holds, 1 = violated.
A primary stream that fails (closed channel) must make the fetcher switch to the fallback; on the
unrepaired tree the handler itself raises TypeError instead."""
import asyncio, sys
from datetime import datetime, timezone
from frequenz.channels import Broadcast
from frequenz.quantities import Power
from frequenz.sdk.timeseries import Sample
from frequenz.sdk.timeseries.formula_engine._formula_steps import FallbackMetricFetcher, MetricFetcher

T0 = datetime(2024, 1, 1, tzinfo=timezone.utc)

class Fallback(FallbackMetricFetcher[Power]):
    def __init__(self):
        self._ch = Broadcast[Sample[Power]](name="fb"); self._rx = self._ch.new_receiver(); self._running = False
        super().__init__()
    @property
    def name(self): return "fb"
    @property
    def is_running(self): return self._running
    def start(self): self._running = True
    async def ready(self): return await self._rx.ready()
    def consume(self): return self._rx.consume()

async def main():
    bad = []
    prim = Broadcast[Sample[Power]](name="prim")
    fb = Fallback()
    f = MetricFetcher("m", prim.new_receiver(), nones_are_zeros=False, fallback=fb)
    await prim.close()                       # primary stream fails from the start
    try:
        got = await f.fetch_next()           # must not blow up: logs, starts the fallback
        if not fb.is_running:
            bad.append("fallback not started after primary failure")
    except TypeError as e:
        bad.append(f"handler for the failing primary raised TypeError: {e}")
    except Exception as e:  # noqa
        bad.append(f"unexpected {type(e).__name__}: {e}")
    print("\n".join(bad) or "ok"); return 1 if bad else 0
sys.exit(asyncio.run(main()))
