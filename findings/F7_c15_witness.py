"""Witness for F7 (C15): PYTHONPATH=<tree>/src /venv/bin/python findings/F7_c15_witness.py
PVManager result accounting: succeeded + failed + excess must equal the requested power.
Exit 0 = holds, 1 = violated."""
import asyncio, sys
from datetime import timedelta
from unittest.mock import AsyncMock, MagicMock, patch
from frequenz.quantities import Power
from frequenz.sdk.microgrid._power_distributing._component_managers._pv_inverter_manager import (
    _pv_inverter_manager as mod)
from frequenz.sdk.microgrid._power_distributing.request import Request
from frequenz.sdk.microgrid._power_distributing.result import PartialFailure, Success

W = Power.from_watts
bad = []

async def main():
    sent = []
    results = MagicMock(); results.send = AsyncMock(side_effect=sent.append)
    conn = MagicMock()
    conn.component_graph.components.return_value = set()       # no tracker needed for this path
    outcomes = {}
    async def set_power(cid, power):
        if outcomes[cid] == "fail":
            raise RuntimeError("boom")
    conn.api_client.set_power = set_power
    with patch.object(mod.connection_manager, "get", return_value=conn):
        mgr = mod.PVManager(MagicMock(), results, timedelta(seconds=1))
        req = Request(power=W(-1000.0), component_ids={8, 18}, adjust_power=True)
        for scenario in ({8: "ok", 18: "ok"}, {8: "ok", 18: "fail"}):
            outcomes.clear(); outcomes.update(scenario); sent.clear()
            await mgr._set_api_power(req, {8: W(-400.0), 18: W(-500.0)}, W(-100.0))
            res = sent[0]
            failed = res.failed_power if isinstance(res, PartialFailure) else W(0.0)
            total = res.succeeded_power + failed + res.excess_power
            if not total.isclose(req.power):
                bad.append(f"{scenario}: {type(res).__name__} succeeded={res.succeeded_power} "
                           f"failed={failed} excess={res.excess_power} sum={total} != request {req.power}")

asyncio.run(main())
print("\n".join(bad) or "ok"); sys.exit(1 if bad else 0)
