"""Witness for F11 (C06): FormulaEngine3Phase zipped its three per-phase engines by arrival order.
PYTHONPATH=<tree>/src /venv/bin/python findings/F11_c06_witness.py ; exit 0 = holds, 1 = violated.

Each per-phase engine synchronises its *own* inputs, so the three engines can start at different
timestamps (here phase 2's only input starts two steps later).  Every emitted three-phase sample
stamped T must carry, for each phase, the value computed from the inputs stamped T; on the unrepaired
tree the sample stamped step 0 carried phase 2's value of step 2, and so on for ever."""
import asyncio, logging, sys
from datetime import datetime, timedelta, timezone
from frequenz.channels import Broadcast
from frequenz.quantities import Quantity
from frequenz.sdk.timeseries import Sample
from frequenz.sdk.timeseries.formula_engine._formula_engine import FormulaBuilder, FormulaEngine3Phase

T0 = datetime(2024, 1, 1, tzinfo=timezone.utc)


async def scenario(first: list[int], n: int = 8) -> list[str]:
    chans = [Broadcast[Sample[Quantity]](name=f"p{k}") for k in range(3)]
    engines = []
    for k, c in enumerate(chans):
        b = FormulaBuilder(f"p{k}", Quantity)
        b.push_metric(f"p{k}", c.new_receiver(), nones_are_zeros=False)
        engines.append(b.build())
    for k, c in enumerate(chans):
        s = c.new_sender()
        for i in range(first[k], n):   # the value of step i is i + 100 * phase: it names its own timestamp
            await s.send(Sample(T0 + timedelta(seconds=i), Quantity(float(i + 100 * k))))
    e3 = FormulaEngine3Phase("x", Quantity, tuple(engines))
    rx = e3.new_receiver()
    bad, prev = [], None
    for _ in range(n - max(first) - 1):
        m = await asyncio.wait_for(rx.receive(), 2)
        step = int((m.timestamp - T0).total_seconds())
        got = [m.value_p1, m.value_p2, m.value_p3]
        want = [float(step + 100 * k) for k in range(3)]
        if [None if g is None else g.base_value for g in got] != want:
            bad.append(f"first={first}: sample stamped step {step} carries {got}, expected {want}")
        if prev is not None and step != prev + 1:
            bad.append(f"first={first}: step {prev} followed by {step}")
        prev = step
    return bad


async def main() -> int:
    logging.disable(logging.CRITICAL)
    bad: list[str] = []
    for first in ([0, 0, 0], [0, 2, 0], [3, 0, 1], [0, 0, 4], [2, 2, 0]):
        bad += await scenario(first)
    for b in bad[:10]:
        print("VIOLATED:", b)
    print("F11 witness:", "violated" if bad else "holds")
    return 1 if bad else 0

sys.exit(asyncio.run(main()))
