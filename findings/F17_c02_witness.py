"""Witness for F17 (C02, open -- recorded, not repaired): the greedy split of a group's power over its inverters can
strand a rest that is smaller than the next inverter's exclusion bound; the group is then commanded a total *inside the
battery's own exclusion zone*.  One battery (-1000, -250, 250, 1000) behind inverters 2 (-200, -100, 100, 200) and
3 (-1000, -100, 100, 1000): the pool's bounds are (-1000, -250, 250, 1000); a request of exactly the advertised exclusion
bound, 250 W, gives {2: 200, 3: 0}, remainder 50 -- group total 200 W inside (-250, 250) although {3: 250} is valid.
REPO_ROOT=<tree> PYTHONPATH=<tree>/src /venv/bin/python findings/F17_c02_witness.py ; exit 0 = holds, 1 = violated."""
import logging, os, sys
from datetime import datetime, timezone

sys.path.insert(0, os.environ.get("REPO_ROOT", "/repo"))
from frequenz.sdk.microgrid._power_distributing._distribution_algorithm import (  # noqa: E402
    AggregatedBatteryData, BatteryDistributionAlgorithm, InvBatPair)
from tests.utils.component_data_wrapper import BatteryDataWrapper, InverterDataWrapper  # noqa: E402

logging.disable(logging.CRITICAL)
NOW = datetime.now(timezone.utc)


def bat(cid, bounds, soc=50.0):
    return BatteryDataWrapper(component_id=cid, timestamp=NOW, capacity=10_000.0, soc=soc, soc_lower_bound=10.0, soc_upper_bound=90.0,
                              power_inclusion_lower_bound=bounds[0], power_exclusion_lower_bound=bounds[1],
                              power_exclusion_upper_bound=bounds[2], power_inclusion_upper_bound=bounds[3])


def inv(cid, bounds):
    return InverterDataWrapper(component_id=cid, timestamp=NOW, active_power_inclusion_lower_bound=bounds[0],
                               active_power_exclusion_lower_bound=bounds[1], active_power_exclusion_upper_bound=bounds[2],
                               active_power_inclusion_upper_bound=bounds[3])


bad = []
for bat_b, invs in (((-1000, -250, 250, 1000), {2: (-200, -100, 100, 200), 3: (-1000, -100, 100, 1000)}),
                    ((-1000, -250, 250, 1000), {3: (-200, -100, 100, 200), 2: (-1000, -100, 100, 1000)}),
                    ((-900, -450, 450, 900), {2: (-300, -200, 200, 300), 3: (-300, -200, 200, 300), 4: (-300, -200, 200, 300)})):
    pair = InvBatPair(AggregatedBatteryData([bat(1, bat_b)]), [inv(i, b) for i, b in invs.items()])
    for req in (bat_b[2], bat_b[1], bat_b[2] + 30.0, bat_b[1] - 30.0):
        res = BatteryDistributionAlgorithm(1).distribute_power(req, [pair])
        total = sum(res.distribution.values())
        if total != 0 and bat_b[1] < total < bat_b[2]:
            bad.append(f"battery {bat_b}, inverters {invs}: request {req} W -> {res.distribution}, remainder {res.remaining_power}: "
                       f"group total {total} W inside the battery exclusion zone ({bat_b[1]}, {bat_b[2]})")
for b in bad[:6]:
    print("VIOLATED:", b)
print("F17 witness:", "violated" if bad else "holds")
sys.exit(1 if bad else 0)
