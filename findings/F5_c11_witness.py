"""Witness for F5 (C11): PYTHONPATH=<tree>/src /venv/bin/python findings/F5_c11_witness.py
regular proposal 100 W, operating-point proposal -50 W, then the system bounds shrink to
[-1000, 80].  Exit 0 = request == regular target + op target and within bounds; 1 = violated."""
import sys
from datetime import datetime, timezone
from unittest.mock import MagicMock
from frequenz.client.microgrid import ComponentCategory
from frequenz.quantities import Power
from frequenz.sdk.microgrid._power_managing._base_classes import Proposal
from frequenz.sdk.microgrid._power_managing._power_managing_actor import PowerManagingActor
from frequenz.sdk.timeseries import Bounds
from frequenz.sdk.timeseries._base_types import SystemBounds

W = Power.from_watts
ids = frozenset({1, 2})
a = PowerManagingActor(MagicMock(), MagicMock(), MagicMock(), MagicMock(), MagicMock(),
                       component_category=ComponentCategory.BATTERY)

def sb(lo, hi):
    return SystemBounds(timestamp=datetime.now(tz=timezone.utc),
                        inclusion_bounds=Bounds(W(lo), W(hi)), exclusion_bounds=Bounds(W(0), W(0)))

def prop(src, power, op):
    return Proposal(source_id=src, preferred_power=W(power), bounds=Bounds(None, None),
                    component_ids=ids, priority=1, creation_time=0.0, set_operating_point=op)

bad = []
def observe(step, req):
    reg = a._set_power_group.get_target_power(ids) or W(0)
    op = a._set_op_power_group.get_target_power(ids) or W(0)
    b = a._system_bounds[ids].inclusion_bounds
    if req is None:
        return
    if req != reg + op:
        bad.append(f"{step}: request {req} != regular target {reg} + operating-point target {op}")
    if not (b.lower <= req <= b.upper):
        bad.append(f"{step}: request {req} outside system bounds [{b.lower}, {b.upper}]")

a._system_bounds[ids] = sb(-1000, 1000)
observe("regular proposal 100 W", a._calculate_target_power(ids, prop("reg", 100, False), True))
observe("op proposal -50 W", a._calculate_target_power(ids, prop("op", -50, True), True))
a._system_bounds[ids] = sb(-1000, 80)
observe("bounds shrink to [-1000, 80]", a._calculate_target_power(ids, None, False))
a._system_bounds[ids] = sb(-1000, 1000)
observe("bounds widen again", a._calculate_target_power(ids, None, False))
observe("regular proposal 200 W (no must_send)", a._calculate_target_power(ids, prop("reg", 200, False), False))
print("\n".join(bad) or "ok"); sys.exit(1 if bad else 0)
