"""Witness for F4/F8 (C09): PYTHONPATH=<tree>/src /venv/bin/python findings/F4_F8_c09_witness.py
Exit 0 = property observed to hold, 1 = violated."""
import sys
from datetime import datetime, timedelta, timezone
import numpy as np
from frequenz.quantities import Quantity
from frequenz.sdk.timeseries import Sample
from frequenz.sdk.timeseries._ringbuffer import OrderedRingBuffer

T0 = datetime(2024, 1, 1, tzinfo=timezone.utc)
bad = []
buf = OrderedRingBuffer([0.0] * 5, timedelta(seconds=1), T0)
for i in range(5):
    buf.update(Sample(T0 + timedelta(seconds=i), Quantity(float(i + 1))))
# F4a: a query narrower than one slot must not return more slots than it spans
w = buf.window(T0 + timedelta(seconds=2.1), T0 + timedelta(seconds=2.4))
if len(w) > 1:
    bad.append(f"F4a: 0.3 s query inside one slot returned {len(w)} slots: {list(w)}")
# F4b: fill must land on the gap slot for an unaligned start
buf2 = OrderedRingBuffer([0.0] * 5, timedelta(seconds=1), T0)
for i in (0, 1, 3, 4):
    buf2.update(Sample(T0 + timedelta(seconds=i), Quantity(float(i + 1))))
w = buf2.window(T0 + timedelta(seconds=0.4), T0 + timedelta(seconds=5), fill_value=-1.0)
want = [1.0, 2.0, -1.0, 4.0, 5.0]
if list(w) != want:
    bad.append(f"F4b: unaligned start: got {list(w)}, want {want}")
# F8: MovingWindow.at(int) out of range
import asyncio
from frequenz.channels import Broadcast
from frequenz.sdk.timeseries import MovingWindow

async def f8():
    ch = Broadcast[Sample[Quantity]](name="x")
    async with MovingWindow(size=timedelta(seconds=5), resampled_data_recv=ch.new_receiver(),
                            input_sampling_period=timedelta(seconds=1)) as mw:
        s = ch.new_sender()
        for i in range(3):
            await s.send(Sample(T0 + timedelta(seconds=i), Quantity(float(i + 1))))
        await asyncio.sleep(0.05)
        for k in (3, -4, 7):
            try:
                v = mw.at(k)
                bad.append(f"F8: at({k}) with 3 of 5 slots written returned {v!r} instead of IndexError")
            except IndexError:
                pass
        assert mw.at(0) == 1.0 and mw.at(-1) == 3.0 and mw.at(2) == 3.0
asyncio.run(f8())
print("\n".join(bad) or "ok"); sys.exit(1 if bad else 0)
