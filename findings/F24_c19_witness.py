"""Witness for F24 (C19): a formula term over a strict subset of the devices behind a dedicated meter took the *whole
meter* as its primary source: pv pool over inverter A, meter M in front of inverters A and B -> while M is valid the
term reports A + B, when M fails it reports A (the fallback): primary and fallback of one term measure different things.
PYTHONPATH=<tree>/src /venv/bin/python findings/F24_c19_witness.py ; exit 0 = holds, 1 = violated."""
import sys
from unittest.mock import MagicMock, patch
from frequenz.client.microgrid import Component, ComponentCategory, Connection, InverterType
from frequenz.sdk.microgrid.component_graph import _MicrogridComponentGraph
from frequenz.sdk.timeseries.formula_engine._formula_generators import _formula_generator as fg

def comp(cid, cat, typ=None):
    return Component(cid, cat, typ)

GRID, MAIN, M, A, B = (comp(1, ComponentCategory.GRID), comp(2, ComponentCategory.METER), comp(3, ComponentCategory.METER),
                       comp(4, ComponentCategory.INVERTER, InverterType.SOLAR), comp(5, ComponentCategory.INVERTER, InverterType.SOLAR))
graph = _MicrogridComponentGraph(
    components={GRID, MAIN, M, A, B},
    connections={Connection(1, 2), Connection(2, 3), Connection(3, 4), Connection(3, 5)},
)

class Gen(fg.FormulaGenerator):  # type: ignore[type-arg]
    def generate(self):  # pragma: no cover
        raise NotImplementedError

def pairs(asked):
    conn = MagicMock(); conn.component_graph = graph
    with patch.object(fg.connection_manager, "get", return_value=conn):
        gen = Gen.__new__(Gen)
        return gen._get_metric_fallback_components(set(asked))  # pylint: disable=protected-access

bad = []
for asked in ({A}, {B}, {A, B}):
    got = pairs(asked)
    for primary, fallbacks in got.items():
        measured = graph.successors(primary.component_id) if primary.category == ComponentCategory.METER else {primary}
        wanted = {c for c in asked}
        if primary.category == ComponentCategory.METER and not measured <= wanted:
            bad.append(f"asked for {sorted(c.component_id for c in asked)}: primary is meter {primary.component_id} which measures "
                       f"{sorted(c.component_id for c in measured)}, fallback {sorted(c.component_id for c in fallbacks)}")
for b in bad:
    print("VIOLATED:", b)
print("F24 witness:", "violated" if bad else "holds")
sys.exit(1 if bad else 0)
