"""Witness for F12 (C19, open): when the primary stream of a term *fails* (closes) while its fallback has not been
synchronised yet, `MetricFetcher.fetch_next_with_fallback` returns `await fallback_fetcher.receive()` -- whatever
sample the fallback delivers first -- with no synchronisation.  The round in which the failure is discovered is
dropped (the other inputs were consumed), and from the next round on the term's value belongs to another timestamp
than the other terms' values: the shift never heals (one receive per round).
PYTHONPATH=<tree>/src /venv/bin/python findings/F12_c19_witness.py ; exit 0 = holds, 1 = violated.

Formula `#a + #b`, a(i) = i with fallback f(i) = i, b(i) = 1000 i: the true value at step i is 1001 i whenever a
source of `a` is valid.  `a` closes after step 2; the fallback's first sample is step `fb_first`.  The control
scenario (the primary delivers None instead of closing) holds on the same tree: the defect is the error path only."""
import asyncio, logging, sys
from datetime import datetime, timedelta, timezone
from frequenz.channels import Broadcast
from frequenz.quantities import Quantity
from frequenz.sdk.timeseries import Sample
from frequenz.sdk.timeseries.formula_engine._formula_engine import FormulaBuilder
from frequenz.sdk.timeseries.formula_engine._formula_steps import FallbackMetricFetcher

T0 = datetime(2024, 1, 1, tzinfo=timezone.utc)


def S(i, v):
    return Sample(T0 + timedelta(seconds=i), None if v is None else Quantity(float(v)))


class Fallback(FallbackMetricFetcher[Quantity]):
    def __init__(self):
        self._ch = Broadcast[Sample[Quantity]](name="fb"); self._rx = self._ch.new_receiver(limit=100)
        self._running = False; self.tx = self._ch.new_sender()
        super().__init__()
    @property
    def name(self): return "fb"
    @property
    def is_running(self): return self._running
    def start(self): self._running = True
    async def ready(self): return await self._rx.ready()
    def consume(self): return self._rx.consume()


async def scenario(fb_first: int, fail_at: int, mode: str, n: int = 12):
    a = Broadcast[Sample[Quantity]](name="a"); b = Broadcast[Sample[Quantity]](name="b")
    fb = Fallback()
    bld = FormulaBuilder("f", Quantity)
    bld.push_metric("a", a.new_receiver(limit=100), nones_are_zeros=False, fallback=fb)
    bld.push_oper("+")
    bld.push_metric("b", b.new_receiver(limit=100), nones_are_zeros=False)
    eng = bld.build()
    rx = eng.new_receiver(max_size=100)
    ta, tb = a.new_sender(), b.new_sender()
    for i in range(n):
        await tb.send(S(i, 1000 * i))
    for i in range(fail_at):
        await ta.send(S(i, i))
    if mode == "close":
        await a.aclose()
    else:
        for i in range(fail_at, n):
            await ta.send(S(i, None))
    for i in range(fb_first, n):
        await fb.tx.send(S(i, i))
    out = []
    try:
        while True:
            m = await asyncio.wait_for(rx.receive(), 0.3)
            out.append((int((m.timestamp - T0).total_seconds()), None if m.value is None else m.value.base_value))
    except (asyncio.TimeoutError, Exception):  # noqa
        pass
    return out


async def main() -> int:
    logging.disable(logging.CRITICAL)
    bad = []
    for mode in ("none", "close"):
        for fb_first in (0, 2, 3, 4, 5, 6):
            out = await scenario(fb_first, 3, mode)
            wrong = [(t, v) for t, v in out if v is not None and v != 1001.0 * t]
            if wrong:
                bad.append(f"primary {'closes' if mode == 'close' else 'turns None'} at step 3, fallback's first sample is step "
                           f"{fb_first}: samples (step, value) {wrong[:3]} ... -- expected 1001*step")
    for b in bad[:8]:
        print("VIOLATED:", b)
    print("F12 witness:", "violated" if bad else "holds")
    return 1 if bad else 0

sys.exit(asyncio.run(main()))
