"""Static-analysis verification machinery for frequenz-sdk-python (see /verif/DESIGN.md)."""
