"""C07  Resampled timeline is aligned, gap-free and shared by all series.

  C07.ALIGN  per return path of Resampler._calculate_window_end: window_end - align_to is a multiple
             of the period (linear forms modulo the period, with the path facts on `elapsed`),
             now < window_end <= now + 2*period, and the hand-aligned first timer tick coincides
             with window_end.
  C07.STEP   _window_end has exactly two writers; in the resampling loop it advances by exactly one
             period exactly once per tick, before any raise/break of that tick; the timer never
             skips missed ticks.
  C07.SAME   every series of a tick is resampled with the same self._window_end and emits a sample
             carrying that timestamp unchanged.
"""
from __future__ import annotations

import ast
from fractions import Fraction

from ..engine.cfg import CFG
from ..engine.report import AnalysisError, Run
from ..engine.resolver import Program, body_walk
from ..engine.terms import Poly, TermEval
from ..engine.util import canon, find_calls, method_call, node_calls, node_writes, nodes_with_call, u

MOD = "timeseries._resampling"
RES = f"{MOD}:Resampler"


def check_align(run: Run, prog: Program) -> None:
    fn = prog.func(f"{RES}._calculate_window_end")
    run.analysed(fn.qual)
    cfg = CFG(fn.node, fn.file)
    # local single definitions
    defs = {}
    for s in body_walk(fn.node):
        if isinstance(s, ast.Assign) and isinstance(s.targets[0], ast.Name):
            defs[s.targets[0].id] = s.value
    need = {"now", "period", "align_to", "elapsed"}
    roles = {}
    for name, val in defs.items():
        t = u(val).replace(" ", "")
        if t.startswith("datetime.now("):
            roles["now"] = name
        elif t == "self._config.resampling_period":
            roles["period"] = name
        elif t == "self._config.align_to":
            roles["align_to"] = name
    for name, val in defs.items():
        if isinstance(val, ast.BinOp) and isinstance(val.op, ast.Mod) and all(k in roles for k in ("now", "period", "align_to")):
            te0 = TermEval()
            if te0.ev(val.left) == Poly.atom(roles["now"]) - Poly.atom(roles["align_to"]) \
                    and u(val.right) == roles["period"]:
                roles["elapsed"] = name
    if set(roles) != need:
        raise AnalysisError(f"{fn.qual}: could not bind the roles {sorted(need - set(roles))} "
                            "(now / period / align_to / elapsed = (now - align_to) % period)")
    now, per, al, el = (Poly.atom(roles[k]) for k in ("now", "period", "align_to", "elapsed"))

    def hook(e: ast.AST, te: TermEval) -> Poly | None:
        if isinstance(e, ast.Call) and u(e.func) == "timedelta" and (
                not e.args and not e.keywords or (len(e.args) == 1 and u(e.args[0]) in ("0", "0.0"))):
            return Poly()
        return None

    te = TermEval(atom_hook=hook)
    rets = [n for n in cfg.nodes if isinstance(n.ast, ast.Return)]
    if len(rets) < 3:
        raise AnalysisError(f"{fn.qual}: expected 3 return paths, found {len(rets)}")
    for r in rets:
        val = r.ast.value  # type: ignore[union-attr]
        if not (isinstance(val, ast.Tuple) and len(val.elts) == 2):
            raise AnalysisError(f"{fn.qual}: return value is not (window_end, start_delay)")
        # path facts: which tests dominate this return, on which side
        facts_zero_elapsed = False
        facts_no_align = False
        path = cfg.path(cfg.entry, [r.id])
        assert path is not None
        for (nid, _), (nxt, lab) in zip(path, path[1:]):
            n = cfg.nodes[nid]
            if n.kind == "test" and n.ast is not None:
                c = canon(n.ast)
                if c == ("is", frozenset({roles["align_to"], "None"})) and lab == "true":
                    facts_no_align = True
                if (c == ("not", ("truthy", roles["elapsed"])) and lab == "true") or (
                        c == ("truthy", roles["elapsed"]) and lab == "false") or (
                        c in (("==", frozenset({roles["elapsed"], "timedelta(0)"})),
                              ("==", frozenset({roles["elapsed"], "timedelta()"}))) and lab == "true"):
                    facts_zero_elapsed = True
        W = te.ev(val.elts[0])
        D = te.ev(val.elts[1]) if not isinstance(val.elts[1], ast.IfExp) else None
        if D is None:
            # `period - elapsed if elapsed else timedelta(0)` on the non-zero path: take the branch
            ife = val.elts[1]
            if u(ife.test) == roles["elapsed"]:  # type: ignore[union-attr]
                D = te.ev(ife.orelse if facts_zero_elapsed else ife.body)  # type: ignore[union-attr]
            else:
                raise AnalysisError(f"{fn.qual}: start-delay expression not recognised: {u(ife)}")
        if facts_zero_elapsed:
            W = _subst_zero(W, roles["elapsed"])
            D = _subst_zero(D, roles["elapsed"])
        inst = f"{fn.qual}: return path `{r.text(60)}`"
        # interval: window_end - now = a*period + b*elapsed with 0 < elapsed < period
        diff = W - now
        a = diff.coeff_of(roles["period"])
        b = diff.coeff_of(roles["elapsed"])
        rest = diff - per.scale(a) - el.scale(b)
        lo, hi = a + min(Fraction(0), b), a + max(Fraction(0), b)
        ok_int = rest.is_zero() and lo >= 0 and hi <= 2 and (a + b > 0 or (a > 0 and b >= 0) or lo > 0 or b > 0)
        if b == 0:
            ok_int = rest.is_zero() and 0 < a <= 2
        run.check(ok_int, "C07.ALIGN", fn.qual, r.ast,
                  f"first window end is `now + {diff!r}`: not within (now, now + 2 periods]",
                  node=r.ast, file=fn.file, instance=inst + " within (now, now+2p]")
        # timer consistency: first tick at now + period + delay must be the window end
        run.check((W - now - per - D).is_zero(), "C07.ALIGN", fn.qual, r.ast,
                  f"the timer's first tick (now + period + {D!r}) does not coincide with the first "
                  f"window end (now + {diff!r}): the tick times and the emitted timestamps drift apart",
                  node=r.ast, file=fn.file, instance=inst + " tick == window end")
        if facts_no_align:
            run.ok("C07.ALIGN", inst + " (align_to is None: nothing to align to)")
            continue
        # alignment: W - align_to ≡ 0 (mod period) given now - align_to - elapsed ≡ 0
        P = W - al
        k = P.coeff_of(roles["now"])
        base = now - al - (Poly() if facts_zero_elapsed else el)
        R = P - base.scale(k)
        pc = R.coeff_of(roles["period"])
        left = R - per.scale(pc)
        ok = k.denominator == 1 and pc.denominator == 1 and left.is_zero()
        run.check(ok, "C07.ALIGN", fn.qual, r.ast,
                  f"window_end - align_to = {P!r} is not a whole number of periods on this path "
                  f"(residual `{left!r}` after using elapsed ≡ (now - align_to) mod period"
                  + (" and elapsed = 0" if facts_zero_elapsed else "")
                  + "): every timestamp of every series is then off the align_to + k*period grid",
                  node=r.ast, file=fn.file, instance=inst + " aligned")
    # constructor: both results are used as computed
    init = prog.func(f"{RES}.__init__")
    run.analysed(init.qual)
    txt = u(init.node).replace(" ", "")
    ok = "window_end,start_delay_time=self._calculate_window_end()" in txt and \
        "self._window_end:datetime=window_end" in txt
    run.check(ok, "C07.ALIGN", init.qual, "self._window_end = first result of _calculate_window_end()",
              "the initial window end is not the computed aligned one", node=init.node, file=init.file)
    tick = [s for s in body_walk(init.node) if isinstance(s, ast.Assign) and u(s.targets[0]) == "self._timer._next_tick_time"]
    ok = False
    if len(tick) == 1 and isinstance(tick[0].value, ast.Call) and u(tick[0].value.func) == "_to_microseconds":
        p = TermEval().ev(tick[0].value.args[0])
        want = Poly.atom("timedelta(seconds=asyncio.get_running_loop().time())") + \
            Poly.atom("config.resampling_period") + Poly.atom("start_delay_time")
        ok = p == want
    run.check(ok, "C07.ALIGN", init.qual, "_next_tick_time = loop.time() + period + start_delay",
              "the timer's first tick is not loop-now + one period + the computed start delay",
              node=init.node, file=init.file)
    timers = find_calls(init.node, lambda c: u(c.func) == "Timer")
    ok = len(timers) == 1 and [u(a) for a in timers[0].args] == ["config.resampling_period", "TriggerAllMissed()"]
    run.check(ok, "C07.STEP", init.qual, "Timer(config.resampling_period, TriggerAllMissed())",
              "the resampling timer does not fire once per period for every missed tick: late ticks "
              "would be skipped while _window_end advances one period per tick", node=init.node,
              file=init.file)


def _subst_zero(p: Poly, atom: str) -> Poly:
    out = {}
    for m, c in p.terms.items():
        if any(a == atom for a, _ in m):
            continue
        out[m] = c
    return Poly(out)


def check_step(run: Run, prog: Program) -> None:
    cls = prog.cls(RES)
    writers = []
    for m in cls.methods.values():
        for s in body_walk(m.node):
            if isinstance(s, (ast.Assign, ast.AugAssign, ast.AnnAssign)):
                tg = s.targets[0] if isinstance(s, ast.Assign) else s.target
                if u(tg) == "self._window_end":
                    writers.append((m, s))
    names = sorted(m.name for m, _ in writers)
    run.check(names == ["__init__", "resample"], "C07.STEP", cls.qual, f"writers of _window_end: {names}",
              "self._window_end is written somewhere else than the constructor and the per-tick advance",
              node=cls.node, file=cls.module.rel)
    fn = prog.func(f"{RES}.resample")
    run.analysed(fn.qual)
    cfg = CFG(fn.node, fn.file)
    incs = [n for n in cfg.nodes if n.kind == "stmt" and any(u(w) == "self._window_end" for w in node_writes(cfg, n.id))]
    if len(incs) != 1:
        run.violation("C07.STEP", fn.qual, "advance of _window_end",
                      f"expected one advance of the window end per tick, found {len(incs)}",
                      node=fn.node, file=fn.file)
        return
    inc = incs[0]
    s = inc.ast
    ok = isinstance(s, ast.AugAssign) and isinstance(s.op, ast.Add) and u(s.value) == "self._config.resampling_period"
    if not ok and isinstance(s, ast.Assign):
        ok = TermEval().ev(s.value) == Poly.atom("self._window_end") + Poly.atom("self._config.resampling_period")
    run.check(ok, "C07.STEP", fn.qual, s,
              "the window end does not advance by exactly one resampling period per tick (the timer "
              "still fires once per period, so timestamps would skip or repeat)", node=s, file=fn.file)
    loops = [n for n in cfg.nodes if n.kind == "for" and u(n.ast.iter) == "self._timer"]  # type: ignore[union-attr]
    gathers = [x for x in nodes_with_call(cfg, lambda c: u(c.func) == "asyncio.gather") if cfg.is_await(x)]
    if len(loops) != 1 or len(gathers) != 1:
        raise AnalysisError(f"{fn.qual}: timer loop / gather not found")
    h, g = loops[0], gathers[0]
    normal = lambda a, b, lab: not lab.startswith("exc:")  # noqa: E731
    after = [m for m, lab in cfg.succ[g] if not lab.startswith("exc:")]
    stops = [h.id, cfg.exit] + [n.id for n in cfg.nodes if isinstance(n.ast, (ast.Raise, ast.Break, ast.Return))]
    wit = None if after and after[0] == inc.id else cfg.path(after[0], stops, avoid=[inc.id], edge_ok=normal)
    run.check(wit is None, "C07.STEP", fn.qual, "advance before any raise/break of the tick",
              "after the tick's gather completes there is a path to the next tick / raise / break that "
              "skips the advance of _window_end: when a sink fails and resample() is called again the "
              "same timestamp is emitted twice", node=inc.ast, file=fn.file, path=cfg.describe_path(wit))
    twice = cfg.path(inc.id, [inc.id], avoid=[h.id], include_src=False, edge_ok=normal)
    run.check(twice is None, "C07.STEP", fn.qual, "advance at most once per tick",
              "the window end can advance twice within one tick", node=inc.ast, file=fn.file,
              path=cfg.describe_path(twice))
    # the advance is not conditional on the outcome of the sinks
    first = [m for m, lab in cfg.succ[h.id] if lab == "iter"]
    wit = cfg.path(first[0], [h.id], avoid=[inc.id, g], edge_ok=normal)
    run.check(wit is None, "C07.STEP", fn.qual, "every tick gathers and advances",
              "a tick can be consumed without resampling/advancing", node=fn.node, file=fn.file,
              path=cfg.describe_path(wit))
    wit = cfg.path(first[0], [g], avoid=[], edge_ok=normal)
    between = cfg.reachable(first, avoid=[g, h.id], edge_ok=normal)
    run.check(inc.id not in between, "C07.STEP", fn.qual, "advance after the gather",
              "the window end is advanced before the series are resampled with it", node=inc.ast, file=fn.file)


def check_same(run: Run, prog: Program) -> None:
    fn = prog.func(f"{RES}.resample")
    g = find_calls(fn.node, lambda c: u(c.func) == "asyncio.gather")
    ok = False
    if len(g) == 1 and g[0].args and isinstance(g[0].args[0], ast.Starred) and isinstance(
            g[0].args[0].value, (ast.ListComp, ast.GeneratorExp)):
        comp = g[0].args[0].value
        gen = comp.generators[0]
        ok = len(comp.generators) == 1 and not gen.ifs and u(gen.iter) == "self._resamplers.values()" \
            and isinstance(comp.elt, ast.Call) and method_call(comp.elt, u(gen.target), "resample") \
            and [u(a) for a in comp.elt.args] == ["self._window_end"]
    run.check(ok, "C07.SAME", fn.qual, g[0] if g else "gather",
              "not every registered series is resampled in the tick with the same self._window_end",
              node=fn.node, file=fn.file)
    sh = prog.func(f"{MOD}:_StreamingHelper.resample")
    run.analysed(sh.qual)
    p = sh.params[1]
    calls = find_calls(sh.node, lambda c: method_call(c, "self._helper", "resample"))
    ok = len(calls) == 1 and [u(a) for a in calls[0].args] == [p]
    sinks = find_calls(sh.node, lambda c: u(c.func) == "self._sink")
    ok = ok and len(sinks) == 1 and sinks[0].args and sinks[0].args[0] is calls[0]
    run.check(ok, "C07.SAME", sh.qual, "await self._sink(self._helper.resample(timestamp))",
              "the tick's timestamp is not passed unchanged to the helper and its sample to the sink",
              node=sh.node, file=sh.file)
    rh = prog.func(f"{MOD}:_ResamplingHelper.resample")
    run.analysed(rh.qual)
    p = rh.params[1]
    rebinds = [s for s in body_walk(rh.node) if isinstance(s, (ast.Assign, ast.AugAssign))
               and any(u(t) == p for t in (s.targets if isinstance(s, ast.Assign) else [s.target]))]
    rets = [n for n in body_walk(rh.node) if isinstance(n, ast.Return)]
    ok = bool(rets) and not rebinds and all(
        isinstance(r.value, ast.Call) and u(r.value.func) == "Sample" and u(r.value.args[0]) == p for r in rets)
    run.check(ok, "C07.SAME", rh.qual, f"return Sample({p}, ...)",
              "the emitted sample does not carry the tick's timestamp unchanged", node=rh.node, file=rh.file)
    at = prog.func(f"{RES}.add_timeseries")
    run.analysed(at.qual)
    txt = u(at.node).replace(" ", "")
    ok = "ifsourceinself._resamplers:returnFalse" in txt.replace("\n", "") and "self._resamplers[source]=resampler" in txt
    run.check(ok, "C07.SAME", at.qual, "series registered once per source",
              "a series can be registered twice / is not registered in the shared map", node=at.node, file=at.file)


CONTROLS = [
    ("alignment sign flipped", MOD, "now + period * 2 - elapsed", "now + period * 2 + elapsed", "C07.ALIGN"),
    ("advance moved after the raise", MOD,
     "            self._window_end += self._config.resampling_period\n", "", "C07.STEP"),
    ("now instead of the window end", MOD, "r.resample(self._window_end)", "r.resample(now)", "C07.SAME"),
    ("weakened in-sync test", MOD, "        if not elapsed:\n", "        if elapsed < timedelta(milliseconds=1):\n", "C07.ALIGN"),
    ("skip missed ticks", MOD, "Timer(config.resampling_period, TriggerAllMissed())",
     "Timer(config.resampling_period, SkipMissedAndDrift())", "C07.STEP"),
    ("delay not matching the window end", MOD, "            period - elapsed if elapsed else timedelta(0),",
     "            period if elapsed else timedelta(0),", "C07.ALIGN"),
]


def run_rules(run: Run, prog: Program) -> None:
    check_align(run, prog)
    check_step(run, prog)
    check_same(run, prog)


def check(run: Run, prog: Program, tier: str) -> str:
    run.rule("C07.ALIGN", "per return path: window_end ≡ align_to (mod period), now < window_end <= now + "
             "2*period, first timer tick == window_end")
    run.rule("C07.STEP", "_window_end written only by constructor and the per-tick `+= period`; the "
             "advance happens exactly once per tick after the gather and before any raise/break; "
             "the timer triggers all missed ticks")
    run.rule("C07.SAME", "all series of a tick get self._window_end and emit it unchanged")
    run_rules(run, prog)
    run.floor("C07.ALIGN", 9)
    run.floor("C07.STEP", 7)
    run.floor("C07.SAME", 4)
    from ..engine.controls import run_controls

    run_controls(run, CONTROLS, run_rules, tier)
    run.assume("`x % period` lies in [0, period) for positive period; datetime/timedelta arithmetic exact")
    run.undecided("timer lateness and real-time behaviour; 'no later than two periods' in wall-clock "
                  "terms beyond the arithmetic of the first window end")
    return ("Linear forms over {now, period, align_to, elapsed} per return path of "
            "_calculate_window_end decide alignment modulo the period, the (now, now+2p] interval and "
            "tick/window-end coincidence; CFG path rules decide the exactly-once advance; provenance "
            "rules decide that all series share the tick timestamp.")
