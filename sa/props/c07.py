"""C07  Resampled timeline is aligned, gap-free and shared by all series.

  C07.ALIGN  per return path of Resampler._calculate_window_end: window_end - align_to is a multiple
             of the period (linear forms modulo the period, with the path facts on `elapsed`),
             now < window_end <= now + 2*period, and the hand-aligned first timer tick coincides
             with window_end.
  C07.STEP   _window_end has exactly two writers: the constructor and the one `+= period` inside the tick loop of
             resample().  Any other (re)binding - in another method (tuple target, setattr, __dict__ included), in
             resample() outside its tick loop, or from another class - re-bases the timeline while the timer keeps the
             phase and backlog it got at construction.  In the resampling loop it advances by exactly one period
             exactly once per tick, before any raise/break of that tick, and never inside a loop nested in the tick
             (per series / per batch: the series of one tick would get different timestamps and one tick would move
             the timeline by several periods); the timer never skips missed ticks.
  C07.SAME   every series of a tick is resampled with the same self._window_end and emits a sample
             carrying that timestamp unchanged.  The per-tick sweep is one gather over all helpers
             (return_exceptions=True) or its sequential spelling: a loop over all of self._resamplers whose
             every iteration awaits `<helper>.resample(self._window_end)` inside `try/except Exception` and
             that no path leaves early (break / return / raise => C07.STEP: the later series miss the tick).
             A batched sweep (bounded concurrency) is read likewise: the batches are the slices [i:i+n] for
             i in range(0, len(S), n) of ONE snapshot S = list(self._resamplers.values()) taken in the tick
             (itertools.batched(S, n), an eager list of those slices, or `while work: batch, work = work[:n], work[n:]`),
             n a positive integer constant; every iteration gathers exactly its batch with self._window_end and
             return_exceptions=True, and no path leaves the loop.
  C07.ONE    the shared resampler's resample() loop is started only from the actor's supervising loop,
             only when the previous task is absent or finished, and the task variable is only reset
             when the task is known finished (two loops on one resampler repeat/skip timestamps).  The
             start is bound by role: `create_task(<coroutine of self._resampler.resample>)` as evaluated on the
             paths of the loop body - in place, through a local, in a private helper executed on the path, or
             with the bound method (or a zero-argument lambda) handed uncalled to a helper that calls it; every
             other mention of `self._resampler.resample` in the actor is a start from somewhere else.
  C07.ONCE   a series is handed to Resampler.add_timeseries at most once while it is registered (the
             resampler only de-duplicates by source object): a call site that can run repeatedly (it is
             reachable from a loop) is dominated by `name not in REG`, records `name` in REG on the same
             path, and REG is only ever grown after the constructor (no clear / discard / re-creation
             while the resampler keeps its series) - else every tick is delivered twice on that series.
  C07.PAIR   add_timeseries() / remove_timeseries() are synchronous writers of the registry and run while a tick is
             suspended in its sweep, so after the sweep's await the registry is not the collection the sweep iterated:
             nothing the tick (or a helper that is handed the results) executes after the await combines the results
             with a read of self._resamplers (enumerate / zip / len / lookup, an alias of it or of a view, a snapshot
             taken after the await) - else IndexError out of resample() ends the loop for all series, or positions
             shift.  Results are paired with the snapshot the sweep iterated, or not at all.  A sequential sweep does
             not iterate the live registry across its awaits either.
  C07.CONF   every construction site of Resampler in the package passes the configuration its owner
             was handed (a parameter, or an attribute only ever assigned from a constructor
             parameter): the grid is the caller's align_to + k * period.
"""
from __future__ import annotations

import ast
from typing import Any
from fractions import Fraction

from ..engine.normalize import inline_helpers, positional
from ..engine.report import AnalysisError, Run
from ..engine.resolver import Program, body_walk
from ..engine.sympath import follower, sym_block, sym_paths
from ..engine.terms import Poly, TermEval
from ..engine.util import method_call, u

MOD = "timeseries._resampling"
RES = f"{MOD}:Resampler"


PER = "self._config.resampling_period"
AL = "self._config.align_to"
CWE = "self._calculate_window_end()"


def _is_zero_td(e: ast.AST) -> bool:
    return isinstance(e, ast.Call) and u(e.func) == "timedelta" and (
        (not e.args and not e.keywords) or (len(e.args) == 1 and not e.keywords and u(e.args[0]) in ("0", "0.0")))


def check_align(run: Run, prog: Program) -> None:  # noqa: C901
    fn = prog.func(f"{RES}._calculate_window_end")
    run.analysed(fn.qual)
    paths = sym_paths(inline_helpers(prog, fn), follow=follower(prog, fn))
    rets = [p for p in paths if p.exit == "return"]
    if len(rets) < 2:
        raise AnalysisError(f"{fn.qual}: expected several return paths, found {len(rets)}")
    for p in paths:
        where = dict(node=fn.node, file=fn.file, path=p.describe())
        val = p.ret
        if p.exit != "return" or not (isinstance(val, ast.Tuple) and len(val.elts) == 2):
            run.violation("C07.ALIGN", fn.qual, f"{p.exit} {u(val)[:80]}",
                          "this path does not return (window_end, start_delay)", **where)
            continue
        clocks = [k for k, n in p.fresh.items() for _ in range(n)]
        if len(clocks) != 1 or not clocks[0].endswith("datetime.now"):
            run.violation("C07.ALIGN", fn.qual, "one reading of the clock",
                          f"the clock is read {len(clocks)} times on this path: window end and start delay "
                          "are not computed from the same instant", **where)
            continue
        NOW = f"<{clocks[0]}#1>"
        te0 = TermEval()
        clock = [e.node for e in p.calls(lambda c: u(c.func).endswith("datetime.now"))]
        tz = positional(clock[0], ["tz"]).get("tz") if clock else None  # type: ignore[arg-type]
        run.check(u(tz) in ("timezone.utc", "datetime.timezone.utc", "UTC", "datetime.UTC"), "C07.ALIGN", fn.qual,
                  "now = datetime.now(timezone.utc)",
                  "the clock is not read in UTC: with `now` in the zone of align_to (same tzinfo) the "
                  "subtraction and every later `+ period` are wall-clock arithmetic, so across a DST change "
                  "the emitted instants repeat or skip an hour and leave the align_to + k*period grid",
                  instance=f"{fn.qual}: clock read in UTC", **where)

        def is_elapsed(e: ast.AST) -> bool:
            return isinstance(e, ast.BinOp) and isinstance(e.op, ast.Mod) and u(e.right) == PER \
                and te0.ev(e.left) == Poly.atom(NOW) - Poly.atom(AL)

        def hook(e: ast.AST, te: TermEval) -> Poly | None:
            if _is_zero_td(e):
                return Poly()
            if is_elapsed(e):
                return Poly.atom("elapsed")
            return None

        te = TermEval(atom_hook=hook)
        now, per, al, el = (Poly.atom(x) for x in (NOW, PER, AL, "elapsed"))
        facts_no_align = p.outcome(("is", frozenset({AL, "None"}))) is True
        facts_zero_elapsed = False
        for _key, _ko, test, _ln, raw in p.conds:
            if is_elapsed(test):
                facts_zero_elapsed = facts_zero_elapsed or raw is False
            elif isinstance(test, ast.Compare) and len(test.ops) == 1:
                l, op, r = test.left, test.ops[0], test.comparators[0]
                if is_elapsed(r) and _is_zero_td(l):
                    l, r = r, l
                    op = {ast.Lt: ast.Gt, ast.Gt: ast.Lt, ast.LtE: ast.GtE, ast.GtE: ast.LtE}.get(type(op), type(op))()
                if is_elapsed(l) and _is_zero_td(r):
                    # elapsed = x % period >= 0, so `elapsed <= 0`, `elapsed == 0`, `not elapsed > 0` all say zero
                    if isinstance(op, (ast.Eq, ast.LtE)) and raw:
                        facts_zero_elapsed = True
                    if isinstance(op, (ast.NotEq, ast.Gt)) and not raw:
                        facts_zero_elapsed = True
        W, D = te.ev(val.elts[0]), te.ev(val.elts[1])
        if facts_zero_elapsed:
            W, D = _subst_zero(W, "elapsed"), _subst_zero(D, "elapsed")
        inst = f"{fn.qual}: return path [{'; '.join(d.split(': ', 1)[1] for d in p.describe()[:-1])}]"
        # interval: window_end - now = a*period + b*elapsed with 0 < elapsed < period
        diff = W - now
        a_ = diff.coeff_of(PER)
        b_ = diff.coeff_of("elapsed")
        rest = diff - per.scale(a_) - el.scale(b_)
        lo, hi = a_ + min(Fraction(0), b_), a_ + max(Fraction(0), b_)
        ok_int = rest.is_zero() and lo >= 0 and hi <= 2 and (a_ + b_ > 0 or (a_ > 0 and b_ >= 0) or lo > 0 or b_ > 0)
        if b_ == 0:
            ok_int = rest.is_zero() and 0 < a_ <= 2
        run.check(ok_int, "C07.ALIGN", fn.qual, f"return {u(val)[:100]}",
                  f"first window end is `now + {diff!r}`: not within (now, now + 2 periods]",
                  instance=inst + " within (now, now+2p]", **where)
        # timer consistency: first tick at now + period + delay must be the window end
        run.check((W - now - per - D).is_zero(), "C07.ALIGN", fn.qual, f"return {u(val)[:100]}",
                  f"the timer's first tick (now + period + {D!r}) does not coincide with the first "
                  f"window end (now + {diff!r}): the tick times and the emitted timestamps drift apart",
                  instance=inst + " tick == window end", **where)
        if facts_no_align:
            run.ok("C07.ALIGN", inst + " (align_to is None: nothing to align to)")
            continue
        # alignment: W - align_to ≡ 0 (mod period) given now - align_to - elapsed ≡ 0
        P = W - al
        k = P.coeff_of(NOW)
        base = now - al - (Poly() if facts_zero_elapsed else el)
        R = P - base.scale(k)
        pc = R.coeff_of(PER)
        left = R - per.scale(pc)
        ok = k.denominator == 1 and pc.denominator == 1 and left.is_zero()
        run.check(ok, "C07.ALIGN", fn.qual, f"return {u(val)[:100]}",
                  f"window_end - align_to = {P!r} is not a whole number of periods on this path "
                  f"(residual `{left!r}` after using elapsed ≡ (now - align_to) mod period"
                  + (" and elapsed = 0" if facts_zero_elapsed else "")
                  + "): every timestamp of every series is then off the align_to + k*period grid",
                  instance=inst + " aligned", **where)
    # constructor: both results are used as computed
    init = prog.func(f"{RES}.__init__")
    run.analysed(init.qual)
    cfgname = init.params[1]
    periods = (PER, f"{cfgname}.resampling_period")
    for p in sym_paths(inline_helpers(prog, init), follow=follower(prog, init)):
        if p.exit == "raise":
            continue
        where = dict(node=init.node, file=init.file, path=p.describe())
        wr = {u(e.node.elts[0]): e.node.elts[1] for e in p.effects if e.kind == "write"}  # type: ignore[attr-defined]
        ncalls = len(p.calls(lambda c: u(c) == CWE))
        ok = ncalls == 1 and u(wr.get("self._window_end")) == f"{CWE}[0]" and u(wr.get("self._config")) == cfgname
        run.check(ok, "C07.ALIGN", init.qual, "self._window_end = first result of _calculate_window_end()",
                  "the initial window end is not the computed aligned one", **where)
        # the timer object may be built and aligned before it is stored: `X._next_tick_time = …` counts when X
        # denotes what `self._timer` receives
        timer_val = u(wr.get("self._timer"))
        tick = wr.get("self._timer._next_tick_time") or (wr.get(f"{timer_val}._next_tick_time") if timer_val else None)
        ok = isinstance(tick, ast.Call) and u(tick.func) == "_to_microseconds" and len(tick.args) == 1 and not tick.keywords
        if ok:
            x = TermEval().ev(tick.args[0])  # type: ignore[union-attr]
            ok = False
            for per_t in periods:
                rest = x - Poly.atom(per_t) - Poly.atom(f"{CWE}[1]")
                at = rest.as_atom()
                if at is not None and at.startswith("timedelta(seconds=<") and at.endswith(".time#1>)") \
                        and rest.coeff_of(at) == 1:
                    ok = True
        run.check(ok, "C07.ALIGN", init.qual, "_next_tick_time = loop.time() + period + start_delay",
                  "the timer's first tick is not loop-now + one period + the computed start delay", **where)
        timers = p.calls(lambda c: u(c.func) == "Timer")
        ok = len(timers) == 1 and u(wr.get("self._timer")) == u(timers[0].node)
        if ok:
            ta = positional(timers[0].node, ["interval", "missed_tick_policy"])  # type: ignore[arg-type]
            ok = u(ta.get("interval")) in periods and u(ta.get("missed_tick_policy")) == "TriggerAllMissed()" \
                and set(ta) <= {"interval", "missed_tick_policy"}
        run.check(ok, "C07.STEP", init.qual, "Timer(config.resampling_period, TriggerAllMissed())",
                  "the resampling timer does not fire once per period for every missed tick: late ticks "
                  "would be skipped while _window_end advances one period per tick", **where)


def _subst_zero(p: Poly, atom: str) -> Poly:
    out = {}
    for m, c in p.terms.items():
        if any(a == atom for a, _ in m):
            continue
        out[m] = c
    return Poly(out)


def check_conf(run: Run, prog: Program) -> None:
    """Every Resampler in the package is built from the configuration its owner was handed, unchanged:
    the grid a series lands on is the caller's align_to + k * period, not one the owner substitutes."""
    from ..engine.resolver import ClassInfo
    from ..engine.terms import single_defs

    n = 0
    for fn in prog.all_functions():
        if "Resampler" not in fn.module.source and "_resampling" not in fn.module.source:
            continue    # the class cannot be named in a module that mentions neither it nor its module
        for call in ast.walk(fn.node):
            if not isinstance(call, ast.Call):
                continue
            if not any(isinstance(t, ClassInfo) and t.qual == RES for t in prog.resolve_call(fn, call)):
                continue
            n += 1
            run.analysed(fn.qual)
            arg = positional(call, ["config"]).get("config")
            defs = single_defs(fn.node)
            seen = 0
            while isinstance(arg, ast.Name) and arg.id in defs and arg.id not in fn.params and seen < 5:
                arg, seen = defs[arg.id], seen + 1
            stores = sum(1 for x in ast.walk(fn.node) if isinstance(x, ast.Name) and isinstance(x.ctx, ast.Store)
                         and isinstance(arg, ast.Name) and x.id == arg.id)
            ok = isinstance(arg, ast.Name) and arg.id in fn.params and stores == 0
            if not ok and arg is not None and fn.cls is not None and u(arg).startswith("self.") and u(arg).count(".") == 1:
                # an attribute that only ever holds a constructor parameter
                writes = [s for m in fn.cls.methods.values() for s in body_walk(m.node)
                          if isinstance(s, (ast.Assign, ast.AnnAssign)) and s.value is not None
                          and u(s.targets[0] if isinstance(s, ast.Assign) else s.target) == u(arg)]
                ctor = fn.cls.methods.get("__init__")
                ok = bool(writes) and ctor is not None and all(
                    isinstance(w.value, ast.Name) and w.value.id in ctor.params for w in writes) and all(
                    w in list(body_walk(ctor.node)) for w in writes)
            run.check(ok, "C07.CONF", fn.qual, call,
                      "the resampler is not built from the configuration its owner was given "
                      f"(found {u(arg)[:100] if arg is not None else 'no argument'}): the emitted timestamps can lie on "
                      "another grid than the caller's align_to + k * period",
                      node=call, file=fn.file, instance=f"{fn.qual}: Resampler(<configuration parameter>)")
    if not n:
        raise AnalysisError("no construction site of Resampler found")


def _timer_loops(node: ast.AST) -> list[Any]:
    """The per-tick loop: `async for ... in self._timer`, or `while True:` whose first statement awaits
    `self._timer.receive()` (the same loop written by hand; one tick per iteration either way)."""
    out: list[Any] = []
    for s in body_walk(node):
        if isinstance(s, (ast.AsyncFor, ast.For)) and u(s.iter) == "self._timer":
            out.append(s)
        elif isinstance(s, ast.While) and isinstance(s.test, ast.Constant) and s.test.value is True and s.body:
            first = s.body[0]
            val = getattr(first, "value", None)
            if isinstance(first, (ast.Assign, ast.AnnAssign, ast.Expr)) and isinstance(val, ast.Await) \
                    and u(val.value) == "self._timer.receive()":
                out.append(s)
    return out


def _is_gather(n: ast.AST) -> bool:
    return isinstance(n, ast.Call) and u(n.func) in ("asyncio.gather", "gather")


def _batch_loop(e: Any) -> Any:
    """A loop of the tick that resamples the series batch by batch: its body gathers (`asyncio.gather`) instead of
    awaiting one series.  The batched spelling of the per-tick gather (bounded concurrency)."""
    s = getattr(e, "orig", None)
    if getattr(e, "kind", "") != "loop" or not isinstance(s, (ast.For, ast.AsyncFor, ast.While)):
        return None
    return s if any(_is_gather(n) for n in ast.walk(s)) else None


def _series_loop(e: Any) -> Any:
    """A `for` statement of the tick that hands the tick to series one by one (its body calls some
    `<x>.resample(...)`): the sequential spelling of the per-tick gather."""
    s = getattr(e, "orig", None)
    if getattr(e, "kind", "") != "loop" or not isinstance(s, (ast.For, ast.AsyncFor)) or _batch_loop(e) is not None:
        return None
    for n in ast.walk(s):
        if isinstance(n, ast.Call) and isinstance(n.func, ast.Attribute) and n.func.attr == "resample":
            return s
    return None


def _sweeps(p: Any) -> list[tuple[int, str, Any]]:
    """(position in the effect log, 'gather' | 'loop' | 'batches', effect) for every construct of a tick path that
    resamples the registered series."""
    out: list[tuple[int, str, Any]] = []
    for i, e in enumerate(p.effects):
        if e.kind == "call" and u(e.node.func) == "asyncio.gather":
            out.append((i, "gather", e))
        elif _batch_loop(e) is not None:
            out.append((i, "batches", e))
        elif _series_loop(e) is not None:
            out.append((i, "loop", e))
    return out


_ALL_SERIES = {"self._resamplers.values()": "values", "self._resamplers.copy().values()": "values",
               "dict(self._resamplers).values()": "values", "self._resamplers.items()": "items",
               "self._resamplers.copy().items()": "items", "dict(self._resamplers).items()": "items"}


def _loop_receiver(loop: Any, it: ast.AST) -> str | None:
    """Name the loop binds to each registered helper when it ranges over ALL of self._resamplers
    (directly or over a snapshot taken in the tick); None otherwise."""
    while isinstance(it, ast.Call) and u(it.func) in ("list", "tuple") and len(it.args) == 1 and not it.keywords:
        it = it.args[0]
    kind = _ALL_SERIES.get(u(it))
    tg = loop.target
    if kind == "values" and isinstance(tg, ast.Name):
        return tg.id
    if kind == "items" and isinstance(tg, ast.Tuple) and len(tg.elts) == 2 and isinstance(tg.elts[1], ast.Name):
        return tg.elts[1].id
    return None


def _covers_exception(type_text: str) -> bool:
    import re as _re

    return any(n.split(".")[-1] in ("Exception", "BaseException") for n in _re.findall(r"[\w.]+", type_text))


def _check_series_loop(run: Run, fn: Any, eff: Any) -> None:
    """The sequential form of the per-tick sweep must be as total as the gather it replaces: it ranges
    over every registered series, every iteration hands `self._window_end` to its series inside a
    handler for Exception, and no path of the body leaves the loop or touches `_window_end`."""
    loop = _series_loop(eff)
    head = f"for {u(loop.target)} in {u(eff.node)[:80]}"
    recv = _loop_receiver(loop, eff.node)
    run.check(recv is not None, "C07.SAME", fn.qual, head,
              "the sequential sweep of a tick does not range over all of self._resamplers (values()/items(), "
              "possibly a snapshot): some registered series are not handed this tick's timestamp",
              node=loop, file=fn.file, instance=f"{fn.qual}: sequential sweep ranges over every registered series")
    if recv is None:
        return
    protected = False
    for p, st in sym_block(loop.body):
        where = dict(node=loop, file=fn.file, path=p.describe() + [f"iteration ends with: {st}"])
        handlers = [k[1] for k, *_ in p.conds if isinstance(k, tuple) and k and k[0] == "except"]
        run.check(st in ("next", "continue"), "C07.STEP", fn.qual, f"{head}: ... {st}",
                  f"the per-tick sweep over the series is left with `{st}` on this path"
                  + (f" (handler for {handlers[0]})" if handlers else "") +
                  ": the series after this one in insertion order are never handed this tick while "
                  "`_window_end` still advances, so they have a hole of one period and series resampled "
                  "together no longer receive the same timestamps (the same holds for `return`/`raise` inside "
                  "the sweep and for stopping at the first failure in any other spelling; the gather form "
                  "serves every series with return_exceptions=True)",
                  instance=f"{fn.qual}: no path of the sequential sweep leaves it early", **where)
        adv = [e for e in p.effects if e.kind == "write" and u(e.node.elts[0]) == "self._window_end"]  # type: ignore[attr-defined]
        run.check(not adv, "C07.STEP", fn.qual, f"{head}: no write of _window_end inside the sweep",
                  "the window end is written inside the per-series sweep: it advances once per series instead "
                  "of once per tick and the series of one tick get different timestamps", **where)
        if handlers:
            protected = protected or any(_covers_exception(h) for h in handlers)
            continue
        calls = p.calls(lambda c: method_call(c, recv, "resample"))
        ok = len(calls) == 1 and u(positional(calls[0].node, ["timestamp"]).get("timestamp")) == "self._window_end" \
            and len(calls[0].node.args) + len(calls[0].node.keywords) == 1  # type: ignore[attr-defined]
        run.check(ok, "C07.SAME", fn.qual, f"{head}: await {recv}.resample(self._window_end)",
                  "an iteration of the sequential sweep does not hand `self._window_end` to its series exactly "
                  "once (skipped, repeated, or another timestamp): series of one tick no longer share it", **where)
    run.check(protected, "C07.STEP", fn.qual, f"{head}: each series resampled inside `try ... except Exception`",
              "a failing series makes the sequential sweep raise: the tick is left before `_window_end` "
              "advances and before the later series are served, so the next call of resample() emits the same "
              "timestamp again to the series that were already served",
              node=loop, file=fn.file, instance=f"{fn.qual}: a failing series cannot make the sweep raise before the advance")



_SETATTRS = ("setattr", "delattr", "object.__setattr__", "object.__delattr__")


def _window_end_writes(root: ast.AST) -> list[tuple[ast.AST, str]]:
    """Every construct under `root` that (re)binds an attribute called `_window_end` - whatever the statement
    form: plain / augmented / annotated assignment, an element of a tuple target (`x._window_end, _ = ...`), a
    `for` / `with ... as` target, `del`, `setattr(x, "_window_end", ...)`, `x.__dict__["_window_end"] = ...` -
    also inside nested functions and lambdas.  (node, text of the written place)."""
    from ..engine.resolver import parent_map

    out: list[tuple[ast.AST, str]] = []
    pm = parent_map(root)

    def stmt_of(n: ast.AST) -> str:
        """`<written place>  in  <head of the statement that writes it>`"""
        s: ast.AST | None = n
        while s is not None and not isinstance(s, ast.stmt):
            s = pm.get(s)
        if s is None or isinstance(s, (ast.FunctionDef, ast.AsyncFunctionDef, ast.ClassDef)):
            return u(n)
        return f"{u(n)}  in  `{ast.unparse(s).splitlines()[0][:110]}`"

    for n in ast.walk(root):
        if isinstance(n, ast.Attribute) and n.attr == "_window_end" and isinstance(n.ctx, (ast.Store, ast.Del)):
            out.append((n, stmt_of(n)))
        elif isinstance(n, ast.Call) and u(n.func) in _SETATTRS and any(
                isinstance(a, ast.Constant) and a.value == "_window_end" for a in n.args[:3]):
            out.append((n, u(n)[:100]))
        elif isinstance(n, ast.Subscript) and isinstance(n.ctx, (ast.Store, ast.Del)) \
                and isinstance(n.slice, ast.Constant) and n.slice.value == "_window_end":
            out.append((n, u(n)))
        elif isinstance(n, ast.Call) and isinstance(n.func, ast.Attribute) and n.func.attr in ("update", "__setitem__") \
                and ("__dict__" in u(n.func.value) or u(n.func.value).startswith("vars(")) \
                and "_window_end" in u(n):
            out.append((n, u(n)[:100]))
    return out


def check_step(run: Run, prog: Program) -> None:
    cls = prog.cls(RES)
    fn = prog.func(f"{RES}.resample")
    run.analysed(fn.qual)
    node = inline_helpers(prog, fn)
    absorbed = set(getattr(node, "_spliced", ()))
    # a helper read into resample() counts as part of it only if nobody else calls it
    for h in sorted(absorbed):
        hq = f"{RES}.{h}"
        others = [c for c, _ in prog.callers(hq) if c.qual != fn.qual and c.name not in absorbed] \
            if h in cls.methods else []
        if others:
            absorbed.discard(h)
    # helpers read into the constructor count as part of it, again only if nobody else can run them
    init = prog.func(f"{RES}.__init__")
    ctor_parts = set(getattr(inline_helpers(prog, init), "_spliced", ()))
    for h in sorted(ctor_parts):
        if h not in cls.methods or [c for c, _ in prog.callers(f"{RES}.{h}")
                                    if c.qual != init.qual and c.name not in ctor_parts]:
            ctor_parts.discard(h)
    writers = []
    for m in cls.methods.values():
        for w, text in _window_end_writes(m.node):
            writers.append(m.name)
            if m.name in ("__init__", "resample") or m.name in absorbed or m.name in ctor_parts:
                continue
            run.violation(
                "C07.STEP", m.qual, text,
                f"`_window_end` gets a second writer in {m.name}() - besides the constructor (which aligns the window "
                "end and the timer's first tick together) and the one `+= period` of each tick.  The timer keeps the "
                "phase and the backlog of ticks it was given at construction (TriggerAllMissed delivers one tick per "
                "period since then), so a window end that is re-derived, reset or shifted anywhere else no longer "
                "matches the ticks: the first timestamp can lie later than creation + 2 periods, a burst of pending "
                "ticks is stamped with window ends in the future, or timestamps repeat / are skipped.  Excluded alike: "
                "re-running _calculate_window_end() when a series is added or removed, a re-sync before the tick loop "
                "of resample(), a reset in stop(), a write through a tuple target / setattr / __dict__, and a write "
                "from another class", node=w, file=m.file)
    run.check("__init__" in writers, "C07.STEP", cls.qual, "writers of _window_end: constructor and the per-tick advance",
              "the constructor does not set self._window_end", node=cls.node, file=cls.module.rel,
              instance=f"{cls.qual}: _window_end written only by the constructor and the per-tick advance "
                       f"(writers: {sorted(set(writers))})")
    # the attribute is private to the Resampler: nobody outside the class re-bases the timeline either
    for g in prog.all_functions():
        if "_window_end" not in g.module.source or (g.cls is not None and g.cls.qual == cls.qual):
            continue
        sub = g.cls is not None and any(b.split(".")[-1].split("[")[0] == cls.name for b in g.cls.base_exprs)
        for w, text in _window_end_writes(g.node):
            if isinstance(w, ast.Attribute) and u(w.value) == "self" and not sub:
                continue    # another class's own attribute of that name
            run.violation("C07.STEP", g.qual, text,
                          f"the Resampler's `_window_end` is written from outside the class, in {g.qual}: a second writer "
                          "besides the constructor and the per-tick `+= period`; the timer aligned at construction is not "
                          "re-aligned with it, so ticks and window ends no longer match (timestamps off the "
                          "creation-anchored timeline, repeated or skipped)", node=w, file=g.file)
    loops = _timer_loops(node)
    if len(loops) != 1:
        raise AnalysisError(f"{fn.qual}: timer loop not found")
    # inside resample() itself the only write is the advance of a tick: nothing re-bases the window end before or
    # after the tick loop (a `resample()` that is called again after a ResamplingError must continue the timeline)
    in_loop = {id(w) for w, _t in _window_end_writes(loops[0])}
    for w, text in _window_end_writes(node):
        run.check(id(w) in in_loop, "C07.STEP", fn.qual, text,
                  "resample() writes `_window_end` outside its tick loop: the window end is re-based when the loop is "
                  "(re)started while the timer keeps the phase and the pending ticks it got at construction - after a "
                  "ResamplingError the next call would repeat or skip timestamps, and a late first call would start "
                  "later than creation + 2 periods", node=w, file=fn.file,
                  instance=f"{fn.qual}: `_window_end` written only inside the tick loop")
    # loops are opaque to the path walker: an advance hidden in a loop nested in the tick is not "once per tick"
    any_hidden = False
    for inner in body_walk(loops[0]):
        if inner is loops[0] or not isinstance(inner, (ast.For, ast.AsyncFor, ast.While)):
            continue
        hidden = [w for st in inner.body + inner.orelse for w, _t in _window_end_writes(st)]
        any_hidden = any_hidden or bool(hidden)
        head = (f"for {u(inner.target)} in {u(inner.iter)}" if not isinstance(inner, ast.While) else f"while {u(inner.test)}")[:110]
        what = ("the loop that resamples the series batch by batch" if any(_is_gather(n) for n in ast.walk(inner))
                else "the loop that resamples the series one by one" if any(
                    isinstance(n, ast.Call) and isinstance(n.func, ast.Attribute) and n.func.attr == "resample"
                    for n in ast.walk(inner)) else "a loop nested in the tick")
        run.check(not hidden, "C07.STEP", fn.qual, f"`{head}:` ... {u(hidden[0]) if hidden else ''} (no advance inside a loop of the tick)",
                  f"the window end is advanced inside {what} (`{head}`, line {inner.lineno}): it moves once per "
                  "iteration - per batch / per series - instead of exactly once per tick.  As soon as the loop runs more "
                  "than once in a tick (more series than one batch holds) the later batches / series of the SAME tick "
                  "are handed a window end that is one, two, ... periods ahead of the first one, so series resampled "
                  "together get different timestamps, and one timer tick moves the timeline by several periods: grid "
                  "points are skipped and the timestamps run away into the future.  With zero iterations the tick is "
                  "consumed without any advance.  (Excluded alike: an advance in a per-series `for`, in a `while` "
                  "draining a work list, or in a retry loop of the tick; the advance belongs after the whole sweep, "
                  "once.)", node=hidden[0] if hidden else inner, file=fn.file,
                  instance=f"{fn.qual}: no advance hidden in a nested loop (line {inner.lineno})")
    if any_hidden:
        return      # where the advance sits is reported; counting advances per tick path has no meaning then
    te = TermEval()
    n_adv = 0
    for p, st in sym_block(loops[0].body, env=_pre_loop_env(node, loops[0])):
        where = dict(node=fn.node, file=fn.file, path=p.describe() + [f"tick ends with: {st}"])
        order = [(i, e) for i, e in enumerate(p.effects)]
        gathers = [i for i, _k, _e in _sweeps(p)]   # the gather over all series, or its sequential spelling
        advances = [(i, e) for i, e in order if e.kind == "write" and u(e.node.elts[0]) == "self._window_end"]  # type: ignore[attr-defined]
        ok = len(gathers) == 1
        run.check(ok, "C07.STEP", fn.qual, "every tick gathers and advances",
                  "a tick can be consumed without resampling the series exactly once", **where)
        if not ok:
            continue
        ok = len(advances) == 1
        run.check(ok, "C07.STEP", fn.qual, "advance exactly once per tick, before any raise/break of the tick",
                  f"the window end is advanced {len(advances)} times on this path of a tick: when a sink fails and "
                  "resample() is called again the same timestamp is emitted twice (or one is skipped)", **where)
        if not ok:
            continue
        n_adv += 1
        i_adv, adv = advances[0]
        run.check(i_adv > gathers[0], "C07.STEP", fn.qual, "advance after the gather",
                  "the window end is advanced before the series are resampled with it", **where)
        val = adv.node.elts[1]  # type: ignore[attr-defined]
        ok = te.ev(val) == Poly.atom("self._window_end") + Poly.atom(PER)
        run.check(ok, "C07.STEP", fn.qual, "self._window_end += self._config.resampling_period",
                  "the window end does not advance by exactly one resampling period per tick (the timer "
                  f"still fires once per period, so timestamps would skip or repeat); found {u(val)[:100]}", **where)
    if not n_adv and not any(v.rule == "C07.STEP" and v.function == fn.qual for v in run.violations):
        raise AnalysisError(f"{fn.qual}: no tick path advances the window end")


def _pre_loop_env(fn_node: ast.AST, loop: ast.AST) -> dict[str, ast.AST]:
    """Locals bound (once, purely) before the loop, so that the loop body sees through them."""
    env: dict[str, ast.AST] = {}
    for s in getattr(fn_node, "body", []):
        if s is loop:
            break
        if isinstance(s, (ast.Assign, ast.AnnAssign)) and s.value is not None:
            tg = s.targets[0] if isinstance(s, ast.Assign) and len(s.targets) == 1 else getattr(s, "target", None)
            if isinstance(tg, ast.Name):
                rebound = sum(1 for n in ast.walk(fn_node) if isinstance(n, ast.Name) and n.id == tg.id
                              and isinstance(n.ctx, ast.Store))
                if rebound == 1 and not any(isinstance(n, ast.Await) for n in ast.walk(s.value)):
                    class S(ast.NodeTransformer):
                        def visit_Name(self, n: ast.Name) -> ast.AST:  # noqa: N802
                            return env.get(n.id, n) if isinstance(n.ctx, ast.Load) else n
                    import copy as _copy
                    env[tg.id] = S().visit(_copy.deepcopy(s.value))
    return env


ACTOR = "microgrid._resampling:ComponentMetricsResamplingActor"


_ACTOR_RESAMPLE = "self._resampler.resample"


def _starts_resampler(arg: ast.AST) -> bool:
    """`arg` evaluates to the coroutine of the actor's resampler loop: `self._resampler.resample()`, also when the
    bound method went through a zero-argument lambda (`(lambda: self._resampler.resample())()`)."""
    if not (isinstance(arg, ast.Call) and not arg.args and not arg.keywords):
        return False
    f = arg.func
    if isinstance(f, ast.Lambda):
        a = f.args
        return not (a.args or a.posonlyargs or a.kwonlyargs or a.vararg or a.kwarg) and _starts_resampler(f.body)
    return u(f) == _ACTOR_RESAMPLE


def _bindings_before(fn_node: ast.AST, loop: ast.AST) -> dict[str, ast.AST]:
    """Locals bound exactly once in the function, purely, by a statement that precedes `loop` in program order
    (also when the loop sits in a `try` / `with` / `if`): the loop body sees through them (`start =
    self._resampler.resample` before the supervising loop)."""
    stores: dict[str, int] = {}
    for n in ast.walk(fn_node):
        if isinstance(n, ast.Name) and isinstance(n.ctx, (ast.Store, ast.Del)):
            stores[n.id] = stores.get(n.id, 0) + 1
    env: dict[str, ast.AST] = {}

    class S(ast.NodeTransformer):
        def visit_Name(self, n: ast.Name) -> ast.AST:  # noqa: N802
            return env.get(n.id, n) if isinstance(n.ctx, ast.Load) else n

    def scan(suite: list[ast.stmt]) -> bool:
        import copy as _copy

        for s in suite:
            if s is loop:
                return True
            if any(n is loop for n in ast.walk(s)):
                for field in ("body", "orelse", "finalbody"):
                    if scan(getattr(s, field, []) or []):
                        return True
                return True
            if isinstance(s, (ast.Assign, ast.AnnAssign)) and s.value is not None:
                tg = s.targets[0] if isinstance(s, ast.Assign) and len(s.targets) == 1 else getattr(s, "target", None)
                if isinstance(tg, ast.Name) and stores.get(tg.id) == 1 and not any(
                        isinstance(n, (ast.Await, ast.Call, ast.NamedExpr)) for n in ast.walk(s.value)):
                    env[tg.id] = S().visit(_copy.deepcopy(s.value))
        return False

    scan(list(getattr(fn_node, "body", [])))
    return env


def check_one(run: Run, prog: Program) -> None:  # noqa: C901
    """Only one Resampler.resample() loop is ever alive on a resampler (two loops share the timer and
    _window_end: a late burst of ticks makes them emit one timestamp twice and skip another).

    The start is bound by role: `asyncio.create_task(<coroutine of self._resampler.resample>)` as it is evaluated
    on the paths of the supervising loop's body - in place, through a local, inside a private helper of the
    actor / its module (executed on the path with its arguments), or with the bound method handed uncalled to
    such a helper that calls it (`_ensure_running(task, self._resampler.resample, ...)`)."""
    from ..engine.sympath import Path as SymPath, SymExec

    fn = prog.func(f"{ACTOR}._run")
    run.analysed(fn.qual)
    actor = prog.cls(ACTOR)
    # private helpers are executed on the paths with their arguments (any number of returns, parameters
    # re-bound inside); only a loop that moved into a helper as a whole is read into _run first
    node: Any = fn.node
    if not any(isinstance(s, ast.While) for s in body_walk(node)):
        node = inline_helpers(prog, fn)
    loops = [s for s in body_walk(node) if isinstance(s, ast.While)]
    if len(loops) != 1:
        raise AnalysisError(f"{fn.qual}: supervising loop not found")

    def is_start(c: ast.Call) -> bool:
        return u(c.func).endswith("create_task") and len(c.args) >= 1 and _starts_resampler(c.args[0])

    bound_to_start: set[str] = set()

    class Walker(SymExec):
        """Records which local of the supervising loop itself (not of a helper executed on the path) a start
        is bound to, also when a later statement of the iteration re-binds it."""

        def _bind(self, p: Any, target: ast.AST, value: ast.AST, lineno: int) -> None:
            if not self.stack and isinstance(target, ast.Name) and isinstance(value, ast.Call) and is_start(value):
                bound_to_start.add(target.id)
            super()._bind(p, target, value, lineno)

    se = Walker(follow=follower(prog, fn))
    p0 = SymPath()
    p0.env = _bindings_before(node, loops[0])
    paths = se.block(p0, list(loops[0].body))
    reached = {fn.name} | set(getattr(node, "_spliced", ())) | set(se.followed)

    # every mention of the resampler's loop (called or handed on as a bound method) belongs to the supervising loop
    mentions = [(m, n) for m in actor.methods.values() for n in ast.walk(m.node)
                if isinstance(n, ast.Attribute) and u(n) == _ACTOR_RESAMPLE]
    for m, n in mentions:
        ok = m.qual == fn.qual
        if not ok and m.name in reached:
            # a private helper read into the supervising loop: nobody else may run it
            ok = not [c for c, _ in prog.callers(m.qual) if c.qual != fn.qual and c.name not in reached]
        run.check(ok, "C07.ONE", m.qual, n,
                  "the resampling loop of the actor's resampler is started from somewhere else than the "
                  "supervising loop", node=n, file=m.file)
    if not any(m.name in reached for m, _ in mentions):
        raise AnalysisError(f"{fn.qual}: self._resampler.resample() not found")

    # the variable that holds the running task: what the start is bound to when an iteration ends
    holders = bound_to_start | {k for p, _st in paths for k, v in p.env.items() if isinstance(v, ast.Call) and is_start(v)}
    if len(holders) > 1:
        # a helper's own local read into the loop: the holder is the one the guard of the start looks at
        import re as _re

        tested = {h for h in holders for p, _st in paths if p.calls(is_start)
                  for k, *_ in p.conds if _re.search(rf"(?<![\w.]){_re.escape(h)}(?!\w)", repr(k))}
        holders = tested or holders
    if len(holders) != 1:
        raise AnalysisError(f"{fn.qual}: variable holding the resampling task not identified ({sorted(holders)})")
    V = next(iter(holders))
    n = 0
    for p, _st in paths:
        where = dict(node=fn.node, file=fn.file, path=p.describe())
        starts = p.calls(is_start)
        absent = p.outcome(("is", frozenset({V, "None"}))) is True or p.outcome(("truthy", V)) is False
        finished = p.outcome(("truthy", f"{V}.done()")) is True
        if starts:
            n += 1
            run.check(len(starts) == 1 and (absent or finished), "C07.ONE", fn.qual,
                      f"start resample() only if {V} is None or {V}.done()",
                      "a second resampling loop can be started on the same resampler while the previous one "
                      "is still running", instance=f"{fn.qual}: start guarded by absent/finished "
                      f"[{'absent' if absent else 'finished'}]", **where)
        final = p.env.get(V)
        if isinstance(final, ast.Name) and final.id == V:
            final = None    # handed through a helper and back unchanged
        if final is not None and not (isinstance(final, ast.Call) and is_start(final)):
            # the task is forgotten (or replaced by something else): only allowed once it is known finished
            was = {V} | {u(s.node) for s in starts}
            known_done = finished or any(
                isinstance(k, tuple) and k[0] == "in" and k[1] in was and o for k, o, *_ in p.conds)
            run.check(known_done and isinstance(final, ast.Constant) and final.value is None, "C07.ONE", fn.qual,
                      f"{V} forgotten only when finished",
                      f"the variable holding the running resampling task is reset ({u(final)[:60]}) on a path "
                      "where that task is not known to be finished: the loop head then starts a second "
                      "resample() loop on the same resampler", **where)
    if not n:
        raise AnalysisError(f"{fn.qual}: no path starts the resampling task")


# ---------------------------------------------------------------------------------------------- C07.ONCE
_SET_GROW = {"add", "update", "setdefault"}
_SET_READ = {"copy", "issubset", "issuperset", "isdisjoint", "union", "intersection", "difference",
             "symmetric_difference", "keys", "values", "items", "get", "__contains__", "__len__"}
_SET_SHRINK = {"clear", "discard", "remove", "pop", "popitem", "difference_update", "intersection_update",
               "symmetric_difference_update", "__delitem__"}
_READ_FUNCS = {"len", "sorted", "list", "set", "frozenset", "tuple", "bool", "str", "repr", "iter", "any", "all",
               "min", "max", "sum", "enumerate"}


def _in_loop(fn_node: ast.AST, inner: ast.AST) -> bool:
    """`inner` lies in the body of a loop of `fn_node` (so it can run any number of times per call)."""
    for loop in ast.walk(fn_node):
        if isinstance(loop, (ast.For, ast.AsyncFor, ast.While)):
            if any(n is inner for part in (loop.body, loop.orelse) for st in part for n in ast.walk(st)):
                return True
    return False


def _local_callers(f: Any) -> list[tuple[Any, ast.Call]]:
    """Call sites of the method / module function `f` in its own class (`self.f(...)`, subclasses are not
    looked at) or module (`f(...)`): who can run a private registration step again."""
    out: list[tuple[Any, ast.Call]] = []
    if f.cls is not None:
        for g in f.cls.methods.values():
            out.extend((g, c) for c in ast.walk(g.node) if isinstance(c, ast.Call) and method_call(c, "self", f.name))
    else:
        for g in list(f.module.functions.values()) + [m for k in f.module.classes.values() for m in k.methods.values()]:
            out.extend((g, c) for c in ast.walk(g.node) if isinstance(c, ast.Call) and isinstance(c.func, ast.Name)
                       and c.func.id == f.name)
    return out


def _repeatable(prog: Program, f: Any, call: ast.AST, seen: frozenset[str] = frozenset()) -> list[str] | None:
    """A chain `caller <- ... <- loop` showing that `call` in `f` can execute repeatedly on one owner: it sits
    in a loop, or `f` is (transitively, inside the package) called from a loop.  None: one-shot as far as the
    package is concerned."""
    if _in_loop(f.node, call):
        return [f"{f.qual} (in a loop)"]
    if f.qual in seen or f.name == "__init__" or len(seen) > 5:
        return None
    for g, c in _local_callers(f):
        chain = _repeatable(prog, g, c, seen | {f.qual})
        if chain is not None:
            return [f.qual] + chain
    return None


def _registry_uses(cls: Any, S: str) -> list[tuple[Any, ast.AST, str, str]]:
    """Every use of the attribute chain `S` (or of a local alias of it) in the methods of `cls`, classified:
    (method, node, 'grow' | 'read' | 'init' | 'shrink' | 'unknown', text)."""
    from ..engine.resolver import parent_map
    from ..engine.util import is_logging_call

    out: list[tuple[Any, ast.AST, str, str]] = []
    for m in cls.methods.values():
        pm = parent_map(m.node)
        aliases = set()
        for st in ast.walk(m.node):
            if isinstance(st, (ast.Assign, ast.AnnAssign)) and st.value is not None and u(st.value) == S:
                for t in (st.targets if isinstance(st, ast.Assign) else [st.target]):
                    if isinstance(t, ast.Name):
                        aliases.add(t.id)
        for n in ast.walk(m.node):
            if not ((isinstance(n, ast.Attribute) and u(n) == S)
                    or (isinstance(n, ast.Name) and n.id in aliases and isinstance(n.ctx, ast.Load))):
                continue
            par = pm.get(n)
            gp = pm.get(par) if par is not None else None
            kind, text = "unknown", u(par)[:100]
            if isinstance(getattr(n, "ctx", None), ast.Store):
                if isinstance(par, ast.AugAssign):
                    kind = "grow" if isinstance(par.op, ast.BitOr) else "shrink"
                else:
                    kind = "init" if m.name == "__init__" else "shrink"
            elif isinstance(getattr(n, "ctx", None), ast.Del):
                kind = "shrink"
            elif isinstance(par, ast.Attribute) and par.value is n:
                kind = ("grow" if par.attr in _SET_GROW else "read" if par.attr in _SET_READ
                        else "shrink" if par.attr in _SET_SHRINK else "unknown")
                text = u(gp)[:100] if isinstance(gp, ast.Call) and gp.func is par else u(par)
            elif isinstance(par, ast.Subscript) and par.value is n:
                kind = "grow" if isinstance(par.ctx, ast.Store) else "shrink" if isinstance(par.ctx, ast.Del) else "read"
                text = u(gp)[:100] if gp is not None else text
            elif isinstance(par, ast.Compare) or isinstance(par, (ast.BoolOp, ast.UnaryOp, ast.If, ast.While, ast.IfExp,
                                                                 ast.Assert, ast.FormattedValue, ast.comprehension,
                                                                 ast.For, ast.AsyncFor)):
                kind = "read"
            elif isinstance(par, (ast.Assign, ast.AnnAssign)) and par.value is n:
                tg = par.targets if isinstance(par, ast.Assign) else [par.target]
                kind = "read" if all(isinstance(t, ast.Name) for t in tg) else "unknown"
            elif isinstance(par, ast.Call) and n in par.args:
                kind = "read" if (u(par.func) in _READ_FUNCS or is_logging_call(par)) else "unknown"
            out.append((m, n, kind, text))
    return out


def check_once(run: Run, prog: Program) -> None:  # noqa: C901
    """A series is handed to Resampler.add_timeseries at most once while it is registered.  The resampler
    itself only de-duplicates by source object; an owner that creates a fresh receiver per request and can be
    asked repeatedly must de-duplicate by name: the call is dominated by `name not in REG`, the same path
    records `name` in REG, and REG never forgets a name while the resampler keeps its series (REG is only
    ever grown after the constructor)."""
    from ..engine.resolver import FuncInfo

    sites = []
    for f, c in prog.attr_call_sites("add_timeseries"):
        if f.cls is not None and f.cls.qual == RES:
            continue
        tgts = prog.resolve_call(f, c)
        if tgts and not any(isinstance(t, FuncInfo) and t.qual == f"{RES}.add_timeseries" for t in tgts):
            continue
        sites.append((f, c))
    if not sites:
        raise AnalysisError("C07.ONCE: no call site of Resampler.add_timeseries found in the package")
    guarded = 0
    for f, c in sites:
        run.analysed(f.qual)
        chain = _repeatable(prog, f, c)
        if chain is None:
            run.ok("C07.ONCE", f"{f.qual}: add_timeseries not reachable from a loop in the package (one registration per owner)")
            continue
        if f.cls is None:
            raise AnalysisError(f"{f.qual}: repeatable add_timeseries outside a class")
        regs: set[str] = set()
        n_paths = 0
        for p in sym_paths(inline_helpers(prog, f), follow=follower(prog, f)):
            adds = [(i, e) for i, e in enumerate(p.effects) if e.kind == "call" and method_call(e.node, None, "add_timeseries")]  # type: ignore[arg-type]
            for i, e in adds:
                n_paths += 1
                name = positional(e.node, ["name", "source", "sink"]).get("name")  # type: ignore[arg-type]
                N = u(name)
                tested = [k[2] for k, o, *_ in p.conds if isinstance(k, tuple) and len(k) == 3 and k[0] == "in"
                          and k[1] == N and o is False and k[2].startswith("self.")]
                ok = False
                for S in tested:
                    grown = any(
                        (x.kind == "call" and method_call(x.node, S, "add") and [u(a) for a in x.node.args] == [N])  # type: ignore[arg-type,attr-defined]
                        or (x.kind == "write" and u(x.node.elts[0]) == f"{S}[{N}]")  # type: ignore[attr-defined]
                        for x in p.effects[:i])
                    if grown:
                        ok = True
                        regs.add(S)
                run.check(len(adds) == 1 and ok, "C07.ONCE", f.qual, e.node,
                          f"add_timeseries can run repeatedly on one resampler ({' <- '.join(chain)}) with a fresh source "
                          f"per call, but on this path it is not dominated by `{N} not in <registry>` together with "
                          f"recording `{N}` in that registry: a repeated request registers a second series that feeds "
                          "the same channel, and every tick is then delivered twice on it (t, t, t+p, t+p, ...)",
                          node=c, file=f.file, path=p.describe(),
                          instance=f"{f.qual}: add_timeseries dominated by `name not in registry` + registry.add(name)")
        if not n_paths:
            raise AnalysisError(f"{f.qual}: no path reaches add_timeseries")
        for S in sorted(regs):
            guarded += 1
            uses = _registry_uses(f.cls, S)
            if not any(k == "init" for _m, _n, k, _t in uses):
                raise AnalysisError(f"{f.cls.qual}: constructor assignment of {S} not found")
            bad = [(m, n, k, t) for m, n, k, t in uses if k in ("shrink", "unknown")]
            for m, n, k, t in bad:
                if k == "unknown":
                    raise AnalysisError(f"{m.qual}: use of the de-duplication registry {S} not understood: {t}")
                run.violation("C07.ONCE", m.qual, t,
                              f"`{S}` is what keeps add_timeseries from registering a series twice, and here it forgets "
                              "names (cleared / shrunk / re-created) while the resampler keeps the series registered "
                              "under them: the next request for such a still-registered metric passes the `in` test, a "
                              "second series with a fresh source is added for the same channel and every tick is "
                              "delivered twice on it (t, t, t+p, t+p, ...).  Excluded alike: clear(), discard/remove/pop, "
                              "`-=`/`&=`, del, re-assignment outside the constructor.  (Forgetting exactly the names whose "
                              "series were removed is not expressible between these two registries: remove_timeseries "
                              "is keyed by the source, this registry by the name.)", node=n, file=m.file)
            if not bad:
                run.ok("C07.ONCE", f"{f.cls.qual}: {S} only grows after the constructor "
                       f"({sum(1 for u_ in uses if u_[2] == 'grow')} growing, {sum(1 for u_ in uses if u_[2] == 'read')} reading use(s))")
    if not guarded and not run.violations:
        raise AnalysisError("C07.ONCE: no repeatable add_timeseries site with a de-duplication registry found")



def _gather_domain(g: ast.Call) -> tuple[ast.AST, str] | None:
    """(iterable, 'values' | 'items') when `g` is `gather(*[<x>.resample(self._window_end) for <x> in iterable], ...)`
    (`for _, <x> in iterable` is the 'items' form): every element of the iterable is handed the window end once."""
    if not (g.args and isinstance(g.args[0], ast.Starred) and isinstance(g.args[0].value, (ast.ListComp, ast.GeneratorExp))):
        return None
    if any(not isinstance(a, ast.Starred) for a in g.args[1:]) and len(g.args) > 1:
        return None
    comp = g.args[0].value
    if len(comp.generators) != 1 or comp.generators[0].ifs or comp.generators[0].is_async:
        return None
    gen = comp.generators[0]
    if isinstance(gen.target, ast.Name):
        recv, kind = gen.target.id, "values"
    elif isinstance(gen.target, ast.Tuple) and len(gen.target.elts) == 2 and isinstance(gen.target.elts[1], ast.Name):
        recv, kind = gen.target.elts[1].id, "items"
    else:
        return None
    ok = isinstance(comp.elt, ast.Call) and method_call(comp.elt, recv, "resample") \
        and u(positional(comp.elt, ["timestamp"]).get("timestamp")) == "self._window_end" \
        and len(comp.elt.args) + len(comp.elt.keywords) == 1
    return (gen.iter, kind) if ok else None


def _gather_ok(g: ast.Call) -> bool:
    """The one gather of a tick ranges over every registered series: over the live view `self._resamplers.values()` /
    `.items()` (read at one instant, when the argument list is built) or over a snapshot (list / tuple) of it taken
    in the tick - the path walker has substituted the tick's own bindings, a snapshot taken before the tick loop
    stays a bare name and is not accepted (series added later would never be served)."""
    d = _gather_domain(g)
    if d is None or len(g.args) != 1:
        return False
    return u(d[0]) == f"self._resamplers.{d[1]}()" or _snapshot_kind(d[0]) == d[1]


# ------------------------------------------------------------------------------ the batched sweep of a tick
def _snapshot_kind(v: ast.AST | None) -> str | None:
    """'values' | 'items' when `v` is a snapshot (list / tuple) of ALL registered series."""
    if isinstance(v, ast.Call) and u(v.func) in ("list", "tuple") and len(v.args) == 1 and not v.keywords:
        return _ALL_SERIES.get(u(v.args[0]))
    return None


def _positive_int(fn: Any, e: ast.AST | None) -> bool:
    """`e` is a positive integer constant: a literal, or a module-level NAME bound to one."""
    for _ in range(3):
        if isinstance(e, ast.Name) and e.id in fn.module.assigns:
            e = fn.module.assigns[e.id]
    return isinstance(e, ast.Constant) and type(e.value) is int and e.value > 0


def _range_over(it: ast.AST, snap: str) -> tuple[str, str] | None:
    """(start, step) texts when `it` is `range(<0>, len(snap) | max(len(snap), 1), step)`: the multiples of `step`
    below the length of the snapshot."""
    if not (isinstance(it, ast.Call) and u(it.func) == "range" and len(it.args) == 3 and not it.keywords):
        return None
    lo, hi, step = it.args
    n = f"len({snap})"
    if u(lo) == "0" and u(hi) in (n, f"max({n}, 1)", f"max(1, {n})"):
        return "0", u(step)
    return None


def _slice_texts(snap: str, i: str, n: str) -> set[str]:
    return {f"{snap}[{i}:{i} + {n}]", f"{snap}[{i}:{n} + {i}]", f"{snap}[{i}:min({i} + {n}, len({snap}))]",
            f"{snap}[{i}:min(len({snap}), {i} + {n})]", f"{snap}[slice({i}, {i} + {n})]"}


def _check_batch_loop(run: Run, fn: Any, eff: Any, entry_env: dict[str, ast.AST]) -> None:  # noqa: C901
    """The batched form of the per-tick sweep (bounded concurrency) must be as total as the one gather it
    replaces: the batches partition ONE snapshot of all registered series taken in the tick, every iteration gathers
    exactly its batch with `self._window_end` (return_exceptions=True), and no path of the body leaves the loop or
    writes `_window_end` (the advance comes once, after the last batch: decided by C07.STEP on the tick paths)."""
    from ..engine.sympath import _Subst
    import copy as _copy

    loop = _batch_loop(eff)
    is_for = isinstance(loop, (ast.For, ast.AsyncFor))
    head = (f"for {u(loop.target)} in {u(loop.iter)}" if is_for else f"while {u(loop.test)}")[:110]
    stored = {n.id for n in ast.walk(loop) if isinstance(n, ast.Name) and isinstance(n.ctx, (ast.Store, ast.Del))}
    mutated = {n.func.value.id for n in ast.walk(loop) if isinstance(n, ast.Call) and isinstance(n.func, ast.Attribute)
               and isinstance(n.func.value, ast.Name)}
    # snapshots of all series taken in the tick before the loop keep a symbolic name; everything the loop itself
    # binds has no pre-loop value inside the body
    env: dict[str, ast.AST] = {}
    kinds: dict[str, str] = {}
    for k, v in entry_env.items():
        sk = _snapshot_kind(v)
        if sk is not None and k not in mutated and (k not in stored or not is_for):
            env[k] = ast.Name(id=f"ALL[{k}]", ctx=ast.Load())
            kinds[f"ALL[{k}]"] = sk
        elif k not in stored:
            env[k] = v
    where0 = dict(node=loop, file=fn.file)
    inst = f"{fn.qual}: batched sweep (line {loop.lineno})"

    def sub(e: ast.AST) -> ast.AST:
        return _Subst(env).visit(_copy.deepcopy(e))

    expect: set[str] = set()      # texts the gather of an iteration may range over
    size: ast.AST | None = None
    snap = ""
    why = ""
    if is_for and isinstance(loop.target, ast.Name):
        T = loop.target.id
        it = sub(loop.iter)
        chunk_src: ast.AST | None = None
        if isinstance(it, ast.Call) and u(it.func) in ("itertools.batched", "batched") and len(it.args) == 2 and not it.keywords:
            chunk_src, size = it.args
            if isinstance(chunk_src, ast.Name) and chunk_src.id in kinds:
                snap, expect = chunk_src.id, {T}
            elif _snapshot_kind(chunk_src) is not None:
                snap, expect = u(chunk_src), {T}
                kinds[snap] = _snapshot_kind(chunk_src) or ""
            else:
                why = f"`{u(loop.iter)[:80]}` does not cut a snapshot (list / tuple) of all of self._resamplers taken in this tick"
        elif isinstance(it, (ast.ListComp, ast.GeneratorExp)) and len(it.generators) == 1 and not it.generators[0].ifs \
                and isinstance(it.generators[0].target, ast.Name):
            g0 = it.generators[0]
            if isinstance(it, ast.ListComp) and not any(isinstance(n, (ast.Await, ast.NamedExpr)) for n in ast.walk(it)):
                # built eagerly, without a suspension point: equal snapshot expressions denote the same series
                for n in ast.walk(it):
                    if _snapshot_kind(n) is not None:
                        kinds.setdefault(u(n), _snapshot_kind(n) or "")
            for s_ in list(kinds):
                r = _range_over(g0.iter, s_)
                if r is not None and u(it.elt) in _slice_texts(s_, g0.target.id, r[1]):
                    snap, expect, size = s_, {T}, g0.iter.args[2]  # type: ignore[attr-defined]
            if not snap:
                why = "the batches are not the slices [i:i+n] of one snapshot of all series for i in range(0, len, n)"
        else:
            for s_ in kinds:
                r = _range_over(it, s_)
                if r is not None:
                    snap, size = s_, it.args[2]  # type: ignore[attr-defined]
                    expect = _slice_texts(s_, T, r[1])
            if not snap:
                why = (f"`{u(loop.iter)[:80]}` is not range(0, len(S), n) over a snapshot S = list(self._resamplers.values()) "
                       "taken once in this tick (nor itertools.batched(S, n), nor a list of its slices)")
    elif isinstance(loop, ast.While):
        t = loop.test
        # `kinds` holds the symbolic names; the test is written with the local
        names = [k for k in kinds for loc in [k[4:-1]] if u(t) in (loc, f"len({loc})", f"len({loc}) > 0", f"len({loc}) != 0",
                                                                    f"{loc} != []", f"0 < len({loc})")] if not loop.orelse else []
        if len(names) == 1:
            snap = names[0]
        else:
            why = f"`while {u(t)[:60]}` does not drain a work list that starts as a snapshot of all of self._resamplers"
    else:
        why = "the loop target is not a single name"
    run.check(bool(snap), "C07.SAME", fn.qual, f"{head}: batches of one snapshot of all series",
              f"the batched sweep of a tick is not read as a partition of all registered series: {why}.  Then some series "
              "may get no sample for this tick (a hole of one period) or two, while the others get one - series resampled "
              "together no longer share the timestamps", instance=inst + " cuts one snapshot of every registered series", **where0)
    if not snap:
        return
    kind = kinds[snap]
    n_g = 0
    for p, st in sym_block(loop.body, env=env):
        where = dict(node=loop, file=fn.file, path=p.describe() + [f"iteration ends with: {st}"])
        handlers = [k[1] for k, *_ in p.conds if isinstance(k, tuple) and k and k[0] == "except"]
        run.check(st in ("next", "continue"), "C07.STEP", fn.qual, f"{head}: ... {st}",
                  f"the batched sweep of a tick is left with `{st}` on this path: the batches after this one are never "
                  "handed this tick while `_window_end` still advances (or the tick is left before the advance), so "
                  "their series have a hole of one period / the served ones get the timestamp again",
                  instance=inst + " no path leaves the loop early", **where)
        # (a write of `_window_end` inside the loop is reported by C07.STEP: advance hidden in a nested loop)
        if handlers:
            continue
        gs = p.calls(_is_gather)
        dom = _gather_domain(gs[0].node) if len(gs) == 1 else None  # type: ignore[arg-type]
        this = set(expect)
        if isinstance(loop, ast.While):
            # `batch = work[:n]` ... `work = work[n:]` (or `del work[:n]`): the gathered prefix is what is dropped
            d_txt = u(dom[0]) if dom else ""
            pre = f"{snap}[:"
            n_txt = d_txt[len(pre):-1] if d_txt.startswith(pre) and d_txt.endswith("]") else None
            local = snap[4:-1]
            dropped = u(p.env.get(local)) == f"{snap}[{n_txt}:]" or any(
                e.kind == "del" and u(e.node) == f"{snap}[:{n_txt}]" for e in p.effects)
            try:
                size = ast.parse(n_txt, mode="eval").body if n_txt else None
            except SyntaxError:
                size = None
            this = {d_txt} if n_txt and dropped else set()
        ok = dom is not None and u(dom[0]) in this and dom[1] == kind and _positive_int(fn, size)
        n_g += 1 if ok else 0
        run.check(ok, "C07.SAME", fn.qual, f"{head}: gather(*[r.resample(self._window_end) for r in <this batch>])",
                  "an iteration of the batched sweep does not gather exactly its own batch (the slice [i:i+n] of the "
                  "snapshot with the loop's own positive constant step n / the chunk the loop yields) with "
                  f"`self._window_end`; found {u(gs[0].node)[:120] if gs else 'no gather'}"
                  f"{'' if _positive_int(fn, size) else ' (batch size is not a positive integer constant)'}: series are "
                  "skipped or served twice in the tick, or get another timestamp than the rest",
                  instance=inst + " every iteration gathers its batch with self._window_end", **where)
        if gs and len(gs) == 1:
            kw = {k.arg: k.value for k in gs[0].node.keywords}  # type: ignore[attr-defined]
            rx = kw.get("return_exceptions")
            run.check(isinstance(rx, ast.Constant) and rx.value is True, "C07.STEP", fn.qual,
                      f"{head}: gather(..., return_exceptions=True)",
                      "the gather of a batch can raise as soon as one series fails: the tick is left before the later "
                      "batches are served and before `_window_end` advances, so the next call of resample() emits the "
                      "same timestamp again to the series that were already served",
                      instance=inst + " a failing series cannot make a batch raise", **where)
    if not n_g and not run.violations:
        raise AnalysisError(f"{fn.qual}: batched sweep at line {loop.lineno}: no iteration path gathers")


class _TickWalker:
    """Paths through the tick that also remember the bindings in force where each nested loop starts (loops are
    opaque to the path walker; the batched sweep is decided on the paths of its own body from there)."""

    def __init__(self, stmts: list[ast.stmt], env: dict[str, ast.AST] | None = None) -> None:
        from ..engine.sympath import Path as SymPath, SymExec

        outer = self
        self.loop_env: dict[int, dict[str, ast.AST]] = {}

        class W(SymExec):
            def stmt(self, p: Any, s: ast.stmt) -> Any:
                if isinstance(s, (ast.For, ast.AsyncFor, ast.While)) and not self.stack:
                    outer.loop_env.setdefault(id(s), dict(p.env))
                return super().stmt(p, s)

        p0 = SymPath()
        p0.env = dict(env or {})
        self.paths = W().block(p0, list(stmts))


def _returned_bool(p: Any) -> bool | None:
    """The truth value a path returns when it is decided on that path: a literal, or an expression the path has
    already tested (`is_new = source not in self._resamplers ... if is_new: ... return is_new`: on the path where the
    membership test came out one way, the returned flag - the same test, seen through the local - has that value)."""
    from ..engine.sympath import cond_key

    r = p.ret
    if isinstance(r, ast.Constant) and isinstance(r.value, bool):
        return r.value
    if r is None:
        return None
    key, pol = cond_key(r)
    o = p.outcome(key)
    return None if o is None else (o == pol)


def check_same(run: Run, prog: Program) -> None:
    fn = prog.func(f"{RES}.resample")
    node = inline_helpers(prog, fn)
    loops = _timer_loops(node)
    if len(loops) != 1:
        raise AnalysisError(f"{fn.qual}: timer loop not found")
    n = 0
    seen_loops: set[int] = set()
    walker = _TickWalker(loops[0].body)
    for p, _st in walker.paths:
        sweeps = _sweeps(p)
        gs = [e for _i, k, e in sweeps if k == "gather"]
        n += len(sweeps)
        for _i, k, e in sweeps:
            if k == "loop" and id(e.orig) not in seen_loops:
                seen_loops.add(id(e.orig))
                _check_series_loop(run, fn, e)      # the sequential spelling: decided on the paths of its body
            if k == "batches" and id(e.orig) not in seen_loops:
                seen_loops.add(id(e.orig))
                _check_batch_loop(run, fn, e, walker.loop_env.get(id(e.orig), {}))   # the batched spelling, likewise
        ok = len(sweeps) == 1 and (not gs or _gather_ok(gs[0].node))  # type: ignore[arg-type]
        run.check(ok, "C07.SAME", fn.qual, "gather(*[r.resample(self._window_end) for r in self._resamplers.values()])",
                  "not every registered series is resampled in the tick with the same self._window_end",
                  node=fn.node, file=fn.file, path=p.describe())
        if gs:
            kw = {k.arg: k.value for k in gs[0].node.keywords}  # type: ignore[attr-defined]
            rx = kw.get("return_exceptions")
            run.check(isinstance(rx, ast.Constant) and rx.value is True, "C07.STEP", fn.qual,
                      "gather(..., return_exceptions=True)",
                      "the per-tick gather can raise as soon as one series fails: the tick is left before "
                      "`_window_end` advances (and while other series are still being resampled), so the "
                      "next call of resample() emits the same timestamp again",
                      node=fn.node, file=fn.file, path=p.describe(),
                      instance=f"{fn.qual}: a failing series cannot make the gather raise before the advance")
    if not n:
        raise AnalysisError(f"{fn.qual}: per-tick gather not found")
    sh = prog.func(f"{MOD}:_StreamingHelper.resample")
    run.analysed(sh.qual)
    T = sh.params[1]
    n = 0
    for p in sym_paths(inline_helpers(prog, sh)):
        if p.exit == "raise":
            continue
        n += 1
        calls = p.calls(lambda c: method_call(c, "self._helper", "resample"))
        sinks = p.calls(lambda c: u(c.func) == "self._sink")
        ok = len(calls) == 1 and u(positional(calls[0].node, ["timestamp"]).get("timestamp")) == T \
            and len(calls[0].node.args) + len(calls[0].node.keywords) == 1  # type: ignore[attr-defined]
        ok = ok and len(sinks) == 1 and [u(a) for a in sinks[0].node.args] == [u(calls[0].node)] \
            and not sinks[0].node.keywords  # type: ignore[attr-defined]
        run.check(ok, "C07.SAME", sh.qual, "await self._sink(self._helper.resample(timestamp))",
                  "the tick's timestamp is not passed unchanged to the helper and its sample to the sink",
                  node=sh.node, file=sh.file, path=p.describe())
    if not n:
        raise AnalysisError(f"{sh.qual}: no normal path")
    rh = prog.func(f"{MOD}:_ResamplingHelper.resample")
    run.analysed(rh.qual)
    T = rh.params[1]
    bad = None
    for p in sym_paths(inline_helpers(prog, rh)):
        r = p.ret
        if not (p.exit == "return" and isinstance(r, ast.Call) and u(r.func) == "Sample"
                and u(positional(r, ["timestamp", "value"]).get("timestamp")) == T):
            bad = p
    run.check(bad is None, "C07.SAME", rh.qual, f"return Sample({T}, ...)",
              "the emitted sample does not carry the tick's timestamp unchanged", node=rh.node, file=rh.file,
              path=bad.describe() if bad else None)
    at = prog.func(f"{RES}.add_timeseries")
    run.analysed(at.qual)
    src = at.params[2]
    bad = None
    for p in sym_paths(inline_helpers(prog, at)):
        known = p.outcome(("in", src, "self._resamplers"))
        writes = [e for e in p.effects if e.kind == "write" and u(e.node.elts[0]).startswith("self._resamplers")]  # type: ignore[attr-defined]
        if known is True:
            ok = not writes and p.exit == "return" and _returned_bool(p) is False
        elif known is False:
            ok = len(writes) == 1 and u(writes[0].node.elts[0]) == f"self._resamplers[{src}]" \
                and isinstance(writes[0].node.elts[1], ast.Call) and u(writes[0].node.elts[1].func) == "_StreamingHelper"  # type: ignore[attr-defined]
        else:
            ok = False
        if not ok:
            bad = p
    run.check(bad is None, "C07.SAME", at.qual, "series registered once per source",
              "a series can be registered twice / is not registered in the shared map", node=at.node, file=at.file,
              path=bad.describe() if bad else None)


# ---------------------------------------------------------------------------------------------- C07.PAIR
REG = "self._resamplers"
_LIVE_VIEWS = (REG, f"{REG}.values()", f"{REG}.items()", f"{REG}.keys()")


def _loaded_names(n: ast.AST) -> set[str]:
    return {x.id for x in ast.walk(n) if isinstance(x, ast.Name) and isinstance(x.ctx, ast.Load)}


def _stored_names(n: ast.AST) -> set[str]:
    out = {x.id for x in ast.walk(n) if isinstance(x, ast.Name) and isinstance(x.ctx, (ast.Store, ast.Del))}
    # a local container filled in place (`results.append(...)`, `results += ...`) is written as well
    out |= {x.func.value.id for x in ast.walk(n) if isinstance(x, ast.Call) and isinstance(x.func, ast.Attribute)
            and isinstance(x.func.value, ast.Name) and x.func.attr in ("append", "extend", "add", "update", "insert",
                                                                       "setdefault", "appendleft")}
    return out


class _PairScan:
    """Taint scan of the statements a tick executes after the sweep's await.

    R = names that hold (something computed from) the results of the sweep; L = the live registry as it is AFTER
    the await: every read of `self._resamplers`, of a name bound to it or to one of its views (an alias, not a
    copy), or of a name computed from such a read after the await.  add_timeseries() / remove_timeseries() are
    synchronous writers of the registry and run while the tick is suspended in the sweep, so L is not the
    collection the sweep iterated: a construct that reads L and R together pairs the results with other series."""

    def __init__(self, run: Run, prog: Program, fn: Any, live_alias: set[str]) -> None:
        self.run, self.prog, self.fn = run, prog, fn
        self.follow = follower(prog, fn)
        self.alias = live_alias
        self.found = 0
        self.seen_helpers: set[int] = set()

    # -- sources
    def live_reads(self, n: ast.AST, L: set[str]) -> list[ast.AST]:
        out: list[ast.AST] = []
        for x in ast.walk(n):
            if isinstance(x, ast.Attribute) and isinstance(x.ctx, ast.Load) and u(x) == REG:
                out.append(x)
            elif isinstance(x, ast.Name) and isinstance(x.ctx, ast.Load) and (x.id in L or x.id in self.alias):
                out.append(x)
        return out

    def report(self, where: Any, root: ast.AST, reads: list[ast.AST], R: set[str], how: str) -> None:
        from ..engine.resolver import parent_map

        pm = parent_map(root)
        x = reads[0]
        # name the construct that walks / measures / indexes the live registry: enumerate(self._resamplers), ...
        top: ast.AST = x
        while True:
            par = pm.get(top)
            if isinstance(par, ast.Attribute) and par.value is top:
                top = par
            elif isinstance(par, ast.Call) and (par.func is top or top in par.args) and not (_loaded_names(par) & R):
                top = par
            elif isinstance(par, ast.Subscript) and par.value is top:
                top = par
            else:
                break
        used = sorted(_loaded_names(root) & R)
        self.found += 1
        self.run.violation(
            "C07.PAIR", where.qual, f"{u(top)[:90]}  paired with  {', '.join(used)[:40]}",
            f"after the await of the tick's sweep, `{u(top)[:90]}` reads the live registry of series and {how} the results "
            f"of that sweep (`{', '.join(used)}`).  The registry is not the collection the sweep iterated any more: "
            "add_timeseries() / remove_timeseries() are synchronous and run while the tick is suspended waiting for a slow "
            "sink.  With a series added meanwhile, positional pairing (`results[i]` with i from an enumeration of the "
            "registry) raises IndexError out of resample() - the resampling loop ends for ALL series, every later tick is "
            "skipped; with one removed, the positions shift and a failure is attributed to another source (the owner then "
            "removes a healthy series).  Pair the results with the SAME snapshot the sweep iterated (taken before the "
            "await; `zip(snapshot, results)` / `enumerate(snapshot)`), or collect errors inside the per-series coroutine.  "
            "Excluded alike: `zip(self._resamplers, results)`, `len(results) != len(self._resamplers)`, a snapshot taken "
            "only after the await, an alias (not a copy) of the registry or of one of its views, "
            "`self._resamplers[source]` looked up for a result after the await, the same inside a helper that is handed "
            "the results", node=x if hasattr(x, "lineno") else root, file=where.file)

    # -- statements
    def both(self, where: Any, s: ast.AST, parts: list[ast.AST], R: set[str], L: set[str], how: str) -> bool:
        reads = [r for part in parts for r in self.live_reads(part, L)]
        if reads and any(_loaded_names(part) & R for part in parts):
            self.report(where, s, reads, R, how)
            return True
        return False

    def calls_into(self, where: Any, s: ast.AST, R: set[str], L: set[str], depth: int) -> None:
        """A private helper that is handed the results: its body is part of the tick after the await."""
        for c in [x for x in ast.walk(s) if isinstance(x, ast.Call)]:
            tgt = self.follow(c)
            if tgt is None or id(tgt) in self.seen_helpers or depth >= 3:
                continue
            params = [a.arg for a in tgt.args.posonlyargs + tgt.args.args]
            if params and params[0] in ("self", "cls") and isinstance(c.func, ast.Attribute):
                params = params[1:]
            bind = dict(zip(params, c.args))
            bind.update({k.arg: k.value for k in c.keywords if k.arg})
            r2 = {p_ for p_, a in bind.items() if _loaded_names(a) & R}
            l2 = {p_ for p_, a in bind.items() if self.live_reads(a, L)}
            if not r2:
                continue
            self.seen_helpers.add(id(tgt))
            info = next((f for f in self.prog.all_functions() if f.node is tgt), where)
            self.block(info, list(tgt.body), r2, l2, depth + 1)

    def block(self, where: Any, stmts: list[ast.stmt], R: set[str], L: set[str], depth: int = 0) -> None:  # noqa: C901
        for s in stmts:
            if isinstance(s, (ast.FunctionDef, ast.AsyncFunctionDef, ast.ClassDef)):
                continue
            if isinstance(s, (ast.For, ast.AsyncFor)):
                hasR, hasL = bool(_loaded_names(s.iter) & R), bool(self.live_reads(s.iter, L))
                if not self.both(where, s, [s.iter], R, L, "walks it together with"):
                    body = ast.Module(body=s.body + s.orelse, type_ignores=[])
                    if hasL and _loaded_names(body) & R:
                        self.report(where, s, self.live_reads(s.iter, L), R, "walks it while the loop body picks from")
                    elif hasR and self.live_reads(body, L):
                        self.report(where, s, self.live_reads(body, L), R, "looks it up for each of")
                tg = _stored_names(s.target)
                R |= tg if hasR else set()
                L |= tg if hasL and not hasR else set()
                self.calls_into(where, s.iter, R, L, depth)
                self.block(where, s.body, R, L, depth)
                self.block(where, s.orelse, R, L, depth)
            elif isinstance(s, (ast.If, ast.While)):
                self.both(where, s, [s.test], R, L, "compares it with")
                self.calls_into(where, s.test, R, L, depth)
                self.block(where, s.body, R, L, depth)
                self.block(where, s.orelse, R, L, depth)
            elif isinstance(s, (ast.With, ast.AsyncWith)):
                for it in s.items:
                    self.both(where, s, [it.context_expr], R, L, "uses it together with")
                self.block(where, s.body, R, L, depth)
            elif isinstance(s, ast.Try):
                self.block(where, s.body, R, L, depth)
                for h in s.handlers:
                    self.block(where, h.body, R, L, depth)
                self.block(where, s.orelse, R, L, depth)
                self.block(where, s.finalbody, R, L, depth)
            elif isinstance(s, ast.Match):
                for c in s.cases:
                    self.block(where, c.body, R, L, depth)
            else:
                hasR, hasL = bool(_loaded_names(s) & R), bool(self.live_reads(s, L))
                self.both(where, s, [s], R, L, "pairs it with")
                self.calls_into(where, s, R, L, depth)
                st = _stored_names(s)
                if hasR:
                    R |= st
                elif hasL:
                    L |= st
                else:
                    R -= st     # re-bound to something unrelated
                    L -= st


def check_pair(run: Run, prog: Program) -> None:
    """Whatever pairs the results of a tick's sweep with the series they belong to uses the collection the sweep
    iterated (one snapshot taken before the await), never the registry as it is after the await."""
    fn = prog.func(f"{RES}.resample")
    node = inline_helpers(prog, fn)
    loops = _timer_loops(node)
    if len(loops) != 1:
        raise AnalysisError(f"{fn.qual}: timer loop not found")
    live_alias = {t.id for st in ast.walk(node) if isinstance(st, (ast.Assign, ast.AnnAssign)) and st.value is not None
                  and u(st.value) in _LIVE_VIEWS
                  for t in (st.targets if isinstance(st, ast.Assign) else [st.target]) if isinstance(t, ast.Name)}
    scan = _PairScan(run, prog, fn, live_alias)

    def resamples(n: ast.AST) -> bool:
        return any(isinstance(c, ast.Call) and isinstance(c.func, ast.Attribute) and c.func.attr == "resample"
                   for c in ast.walk(n))

    def domains(s: ast.AST) -> list[ast.AST]:
        """What the gathers of the sweep's statement range over (whatever they hand to the series: C07.SAME)."""
        return [gen.iter for g in ast.walk(s) if _is_gather(g) for a in g.args  # type: ignore[attr-defined]
                if isinstance(a, ast.Starred) and isinstance(a.value, (ast.ListComp, ast.GeneratorExp))
                for gen in a.value.generators]

    def is_sweep(s: ast.stmt) -> bool:
        if isinstance(s, (ast.For, ast.AsyncFor, ast.While)):
            return resamples(s)
        if isinstance(s, (ast.If, ast.With, ast.AsyncWith, ast.Try, ast.Match)):
            return False
        return any(_is_gather(n) for n in ast.walk(s))     # the gather of a tick is its sweep (as in _sweeps)

    state = {"after": False}

    def walk(stmts: list[ast.stmt], R: set[str], L: set[str]) -> None:
        """Program order: statements before the sweep are skipped, the sweep starts the scan, what follows it (in the
        same suite and in the suites around it) is scanned."""
        i = 0
        while i < len(stmts):
            s = stmts[i]
            if state["after"]:
                scan.block(fn, stmts[i:], R, L)
                return
            if is_sweep(s):
                state["after"] = True
                R |= _stored_names(s)
                # within the sweep's own statement the registry is read once, as the domain of the sweep
                doms = [id(x) for d in domains(s) for x in ast.walk(d)]
                if isinstance(s, (ast.For, ast.AsyncFor)):
                    doms += [id(x) for x in ast.walk(s.iter)]
                extra = [x for x in scan.live_reads(s, L) if id(x) not in doms]
                if extra and not isinstance(s, (ast.For, ast.AsyncFor, ast.While)):
                    scan.report(fn, s, extra, R | _loaded_names(s), "pairs it in the same statement with")
                if isinstance(s, (ast.For, ast.AsyncFor)) and any(isinstance(n, ast.Await) for b in s.body for n in ast.walk(b)) \
                        and u(s.iter) in _LIVE_VIEWS + tuple(live_alias):
                    scan.found += 1
                    run.violation("C07.PAIR", fn.qual, f"for {u(s.target)} in {u(s.iter)}: ... await ...",
                                  f"the sequential sweep of a tick iterates the live registry (`{u(s.iter)}`) across its awaits: "
                                  "add_timeseries() / remove_timeseries() run while an iteration waits for its sink, and the "
                                  "next step of the iteration raises RuntimeError (dictionary changed size during iteration) "
                                  "out of resample() before `_window_end` advances - the loop ends for all series.  Iterate a "
                                  "snapshot taken before the first await (`list(self._resamplers.values())`)",
                                  node=s, file=fn.file)
            else:
                suites = [getattr(s, f) for f in ("body", "orelse") if isinstance(getattr(s, f, None), list)]
                suites += [h.body for h in getattr(s, "handlers", []) or []] + [getattr(s, "finalbody", None) or []]
                for sub in suites:
                    if sub and isinstance(sub[0], ast.stmt):
                        if state["after"]:
                            scan.block(fn, sub, R, L)    # the rest of the statement that holds the sweep
                        else:
                            walk(sub, R, L)
            i += 1

    walk(list(loops[0].body), set(), set())
    if not state["after"]:
        if run.violations:
            return      # the shape of the sweep is already reported (C07.SAME / C07.STEP)
        raise AnalysisError(f"{fn.qual}: the sweep of a tick was not found (C07.PAIR)")
    if not scan.found:
        run.ok("C07.PAIR", f"{fn.qual}: after the sweep's await the results are never combined with the live registry "
               "(they are paired with the snapshot the sweep iterated, or not paired at all)")


_ONE_GATHER = ("            results = await asyncio.gather(\n"
               "                *[r.resample(self._window_end) for _, r in resampled],\n"
               "                return_exceptions=True,\n            )\n")
_BATCHED = ("            series = list(self._resamplers.values())\n            results = []\n"
            "            for start in range(0, max(len(series), 1), 64):\n"
            "                batch = series[start : start + 64]\n"
            "                results += await asyncio.gather(\n"
            "                    *[r.resample(self._window_end) for r in batch], return_exceptions=True\n"
            "                )\n")

CONTROLS = [
    ("moving window substitutes its own alignment", "timeseries._moving_window", "Resampler(resampler_config)",
     "Resampler(dataclasses.replace(resampler_config, align_to=align_to))", "C07.CONF"),
    ("clock in the zone of align_to", MOD, "now = datetime.now(timezone.utc)\n        period = self._config.resampling_period",
     "now = datetime.now(self._config.align_to.tzinfo if self._config.align_to else timezone.utc)\n        period = self._config.resampling_period",
     "C07.ALIGN"),
    ("resampling task always restarted", "microgrid._resampling",
     "                if resampling_task is None or resampling_task.done():\n", "                if True:\n", "C07.ONE"),
    ("gather raises on the first failing series", MOD, "                return_exceptions=True,\n",
     "                return_exceptions=False,\n", "C07.STEP"),
    ("sequential sweep left at the first failing series", MOD,
     _ONE_GATHER,
     "            results = []\n            for r in list(self._resamplers.values()):\n                try:\n"
     "                    results.append(await r.resample(self._window_end))\n                except Exception as err:\n"
     "                    results.append(err)\n                    break\n", "C07.STEP"),
    ("window end re-derived when the first series is added", MOD,
     "        if source in self._resamplers:\n            return False\n",
     "        if source in self._resamplers:\n            return False\n"
     "        if not self._resamplers:\n            self._window_end, _ = self._calculate_window_end()\n", "C07.STEP"),
    ("window end re-synchronised before the tick loop", MOD,
     "        async for drift in self._timer:\n",
     "        self._window_end = max(self._window_end, self._calculate_window_end()[0])\n"
     "        async for drift in self._timer:\n", "C07.STEP"),
    ("results paired with a fresh enumeration of the registry after the await (F22)", MOD,
     "                    for i, (source, _) in enumerate(resampled)\n",
     "                    for i, source in enumerate(self._resamplers)\n", "C07.PAIR"),
    ("results paired with a snapshot of the registry taken only after the await", MOD,
     " in enumerate(resampled)\n", " in enumerate(list(self._resamplers.items()))\n", "C07.PAIR"),
    ("batched sweep advancing once per batch", MOD, _ONE_GATHER + "\n            self._window_end += self._config.resampling_period\n",
     _BATCHED + "                self._window_end += self._config.resampling_period\n", "C07.STEP"),
    ("batched sweep with mismatched slice width", MOD, _ONE_GATHER,
     _BATCHED.replace("start : start + 64", "start : start + 32"), "C07.SAME"),
    ("de-duplication registry cleared after a failure", "microgrid._resampling",
     "        except ResamplingError as error:\n", "        except ResamplingError as error:\n            self._active_req_channels.clear()\n",
     "C07.ONCE"),
    ("requested name never recorded", "microgrid._resampling",
     "        self._active_req_channels.add(request_channel_name)\n", "", "C07.ONCE"),
    ("alignment sign flipped", MOD, "now + period * 2 - elapsed", "now + period * 2 + elapsed", "C07.ALIGN"),
    ("advance moved after the raise", MOD,
     "            self._window_end += self._config.resampling_period\n", "", "C07.STEP"),
    ("now instead of the window end", MOD, "r.resample(self._window_end)", "r.resample(now)", "C07.SAME"),
    ("weakened in-sync test", MOD, "        if not elapsed:\n", "        if elapsed < timedelta(milliseconds=1):\n", "C07.ALIGN"),
    ("skip missed ticks", MOD, "Timer(config.resampling_period, TriggerAllMissed())",
     "Timer(config.resampling_period, SkipMissedAndDrift())", "C07.STEP"),
    ("delay not matching the window end", MOD, "            period - elapsed if elapsed else timedelta(0),",
     "            period if elapsed else timedelta(0),", "C07.ALIGN"),
]


def run_rules(run: Run, prog: Program) -> None:
    check_align(run, prog)
    check_step(run, prog)
    check_same(run, prog)
    check_one(run, prog)
    check_once(run, prog)
    check_conf(run, prog)
    check_pair(run, prog)


def check(run: Run, prog: Program, tier: str) -> str:
    run.rule("C07.ALIGN", "per return path: window_end ≡ align_to (mod period), now < window_end <= now + "
             "2*period, first timer tick == window_end; one clock reading per path, in UTC")
    run.rule("C07.STEP", "_window_end written only by constructor and the per-tick `+= period` (no other method, no "
             "write of resample() outside its tick loop, no write from outside the class); the "
             "advance happens exactly once per tick after the gather and before any raise/break, never inside a loop "
             "nested in the tick (per series / per batch); the gather "
             "cannot raise for a failing series (return_exceptions=True); the timer triggers all missed ticks")
    run.rule("C07.SAME", "all series of a tick get self._window_end and emit it unchanged (one gather over all series, "
             "its sequential spelling, or batches that partition one snapshot of all series)")
    run.rule("C07.PAIR", "after the await of a tick's sweep its results are never combined with the live registry of "
             "series (fresh iteration / enumeration / len / lookup of self._resamplers, an alias of it, a snapshot taken "
             "after the await): they are paired with the snapshot the sweep iterated, or not paired at all")
    run.rule("C07.ONE", "Resampler.resample() is started only by the actor's supervising loop and only when the "
             "previous resampling task is absent or finished; the task variable is only reset when finished")
    run.rule("C07.ONCE", "a series is handed to Resampler.add_timeseries at most once while registered: a call site "
             "reachable from a loop is dominated by `name not in registry` + registry.add(name), and the registry is "
             "only ever grown after the constructor")
    run_rules(run, prog)
    run.floor("C07.ALIGN", 9)
    run.floor("C07.STEP", 7)
    run.floor("C07.SAME", 4)
    run.floor("C07.ONE", 3)
    run.floor("C07.ONCE", 3)
    run.floor("C07.PAIR", 1)
    from ..engine.controls import run_controls

    run_controls(run, CONTROLS, run_rules, tier)
    run.assume("`x % period` lies in [0, period) for positive period; datetime/timedelta arithmetic exact")
    run.undecided("timer lateness and real-time behaviour; 'no later than two periods' in wall-clock "
                  "terms beyond the arithmetic of the first window end")
    return ("Linear forms over {now, period, align_to, elapsed} per return path of "
            "_calculate_window_end decide alignment modulo the period, the (now, now+2p] interval and "
            "tick/window-end coincidence; CFG path rules decide the exactly-once advance; provenance "
            "rules decide that all series share the tick timestamp.")
