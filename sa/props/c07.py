"""C07  Resampled timeline is aligned, gap-free and shared by all series.

  C07.ALIGN  per return path of Resampler._calculate_window_end: window_end - align_to is a multiple
             of the period (linear forms modulo the period, with the path facts on `elapsed`),
             now < window_end <= now + 2*period, and the hand-aligned first timer tick coincides
             with window_end.
  C07.STEP   _window_end has exactly two writers; in the resampling loop it advances by exactly one
             period exactly once per tick, before any raise/break of that tick; the timer never
             skips missed ticks.
  C07.SAME   every series of a tick is resampled with the same self._window_end and emits a sample
             carrying that timestamp unchanged.
  C07.ONE    the shared resampler's resample() loop is started only from the actor's supervising loop,
             only when the previous task is absent or finished, and the task variable is only reset
             when the task is known finished (two loops on one resampler repeat/skip timestamps).
  C07.CONF   every construction site of Resampler in the package passes the configuration its owner
             was handed (a parameter, or an attribute only ever assigned from a constructor
             parameter): the grid is the caller's align_to + k * period.
"""
from __future__ import annotations

import ast
from typing import Any
from fractions import Fraction

from ..engine.normalize import inline_helpers, positional
from ..engine.report import AnalysisError, Run
from ..engine.resolver import Program, body_walk
from ..engine.sympath import follower, sym_block, sym_paths
from ..engine.terms import Poly, TermEval
from ..engine.util import method_call, u

MOD = "timeseries._resampling"
RES = f"{MOD}:Resampler"


PER = "self._config.resampling_period"
AL = "self._config.align_to"
CWE = "self._calculate_window_end()"


def _is_zero_td(e: ast.AST) -> bool:
    return isinstance(e, ast.Call) and u(e.func) == "timedelta" and (
        (not e.args and not e.keywords) or (len(e.args) == 1 and not e.keywords and u(e.args[0]) in ("0", "0.0")))


def check_align(run: Run, prog: Program) -> None:  # noqa: C901
    fn = prog.func(f"{RES}._calculate_window_end")
    run.analysed(fn.qual)
    paths = sym_paths(inline_helpers(prog, fn), follow=follower(prog, fn))
    rets = [p for p in paths if p.exit == "return"]
    if len(rets) < 2:
        raise AnalysisError(f"{fn.qual}: expected several return paths, found {len(rets)}")
    for p in paths:
        where = dict(node=fn.node, file=fn.file, path=p.describe())
        val = p.ret
        if p.exit != "return" or not (isinstance(val, ast.Tuple) and len(val.elts) == 2):
            run.violation("C07.ALIGN", fn.qual, f"{p.exit} {u(val)[:80]}",
                          "this path does not return (window_end, start_delay)", **where)
            continue
        clocks = [k for k, n in p.fresh.items() for _ in range(n)]
        if len(clocks) != 1 or not clocks[0].endswith("datetime.now"):
            run.violation("C07.ALIGN", fn.qual, "one reading of the clock",
                          f"the clock is read {len(clocks)} times on this path: window end and start delay "
                          "are not computed from the same instant", **where)
            continue
        NOW = f"<{clocks[0]}#1>"
        te0 = TermEval()
        clock = [e.node for e in p.calls(lambda c: u(c.func).endswith("datetime.now"))]
        tz = positional(clock[0], ["tz"]).get("tz") if clock else None  # type: ignore[arg-type]
        run.check(u(tz) in ("timezone.utc", "datetime.timezone.utc", "UTC", "datetime.UTC"), "C07.ALIGN", fn.qual,
                  "now = datetime.now(timezone.utc)",
                  "the clock is not read in UTC: with `now` in the zone of align_to (same tzinfo) the "
                  "subtraction and every later `+ period` are wall-clock arithmetic, so across a DST change "
                  "the emitted instants repeat or skip an hour and leave the align_to + k*period grid",
                  instance=f"{fn.qual}: clock read in UTC", **where)

        def is_elapsed(e: ast.AST) -> bool:
            return isinstance(e, ast.BinOp) and isinstance(e.op, ast.Mod) and u(e.right) == PER \
                and te0.ev(e.left) == Poly.atom(NOW) - Poly.atom(AL)

        def hook(e: ast.AST, te: TermEval) -> Poly | None:
            if _is_zero_td(e):
                return Poly()
            if is_elapsed(e):
                return Poly.atom("elapsed")
            return None

        te = TermEval(atom_hook=hook)
        now, per, al, el = (Poly.atom(x) for x in (NOW, PER, AL, "elapsed"))
        facts_no_align = p.outcome(("is", frozenset({AL, "None"}))) is True
        facts_zero_elapsed = False
        for _key, _ko, test, _ln, raw in p.conds:
            if is_elapsed(test):
                facts_zero_elapsed = facts_zero_elapsed or raw is False
            elif isinstance(test, ast.Compare) and len(test.ops) == 1:
                l, op, r = test.left, test.ops[0], test.comparators[0]
                if is_elapsed(r) and _is_zero_td(l):
                    l, r = r, l
                    op = {ast.Lt: ast.Gt, ast.Gt: ast.Lt, ast.LtE: ast.GtE, ast.GtE: ast.LtE}.get(type(op), type(op))()
                if is_elapsed(l) and _is_zero_td(r):
                    # elapsed = x % period >= 0, so `elapsed <= 0`, `elapsed == 0`, `not elapsed > 0` all say zero
                    if isinstance(op, (ast.Eq, ast.LtE)) and raw:
                        facts_zero_elapsed = True
                    if isinstance(op, (ast.NotEq, ast.Gt)) and not raw:
                        facts_zero_elapsed = True
        W, D = te.ev(val.elts[0]), te.ev(val.elts[1])
        if facts_zero_elapsed:
            W, D = _subst_zero(W, "elapsed"), _subst_zero(D, "elapsed")
        inst = f"{fn.qual}: return path [{'; '.join(d.split(': ', 1)[1] for d in p.describe()[:-1])}]"
        # interval: window_end - now = a*period + b*elapsed with 0 < elapsed < period
        diff = W - now
        a_ = diff.coeff_of(PER)
        b_ = diff.coeff_of("elapsed")
        rest = diff - per.scale(a_) - el.scale(b_)
        lo, hi = a_ + min(Fraction(0), b_), a_ + max(Fraction(0), b_)
        ok_int = rest.is_zero() and lo >= 0 and hi <= 2 and (a_ + b_ > 0 or (a_ > 0 and b_ >= 0) or lo > 0 or b_ > 0)
        if b_ == 0:
            ok_int = rest.is_zero() and 0 < a_ <= 2
        run.check(ok_int, "C07.ALIGN", fn.qual, f"return {u(val)[:100]}",
                  f"first window end is `now + {diff!r}`: not within (now, now + 2 periods]",
                  instance=inst + " within (now, now+2p]", **where)
        # timer consistency: first tick at now + period + delay must be the window end
        run.check((W - now - per - D).is_zero(), "C07.ALIGN", fn.qual, f"return {u(val)[:100]}",
                  f"the timer's first tick (now + period + {D!r}) does not coincide with the first "
                  f"window end (now + {diff!r}): the tick times and the emitted timestamps drift apart",
                  instance=inst + " tick == window end", **where)
        if facts_no_align:
            run.ok("C07.ALIGN", inst + " (align_to is None: nothing to align to)")
            continue
        # alignment: W - align_to ≡ 0 (mod period) given now - align_to - elapsed ≡ 0
        P = W - al
        k = P.coeff_of(NOW)
        base = now - al - (Poly() if facts_zero_elapsed else el)
        R = P - base.scale(k)
        pc = R.coeff_of(PER)
        left = R - per.scale(pc)
        ok = k.denominator == 1 and pc.denominator == 1 and left.is_zero()
        run.check(ok, "C07.ALIGN", fn.qual, f"return {u(val)[:100]}",
                  f"window_end - align_to = {P!r} is not a whole number of periods on this path "
                  f"(residual `{left!r}` after using elapsed ≡ (now - align_to) mod period"
                  + (" and elapsed = 0" if facts_zero_elapsed else "")
                  + "): every timestamp of every series is then off the align_to + k*period grid",
                  instance=inst + " aligned", **where)
    # constructor: both results are used as computed
    init = prog.func(f"{RES}.__init__")
    run.analysed(init.qual)
    cfgname = init.params[1]
    periods = (PER, f"{cfgname}.resampling_period")
    for p in sym_paths(inline_helpers(prog, init), follow=follower(prog, init)):
        if p.exit == "raise":
            continue
        where = dict(node=init.node, file=init.file, path=p.describe())
        wr = {u(e.node.elts[0]): e.node.elts[1] for e in p.effects if e.kind == "write"}  # type: ignore[attr-defined]
        ncalls = len(p.calls(lambda c: u(c) == CWE))
        ok = ncalls == 1 and u(wr.get("self._window_end")) == f"{CWE}[0]" and u(wr.get("self._config")) == cfgname
        run.check(ok, "C07.ALIGN", init.qual, "self._window_end = first result of _calculate_window_end()",
                  "the initial window end is not the computed aligned one", **where)
        # the timer object may be built and aligned before it is stored: `X._next_tick_time = …` counts when X
        # denotes what `self._timer` receives
        timer_val = u(wr.get("self._timer"))
        tick = wr.get("self._timer._next_tick_time") or (wr.get(f"{timer_val}._next_tick_time") if timer_val else None)
        ok = isinstance(tick, ast.Call) and u(tick.func) == "_to_microseconds" and len(tick.args) == 1 and not tick.keywords
        if ok:
            x = TermEval().ev(tick.args[0])  # type: ignore[union-attr]
            ok = False
            for per_t in periods:
                rest = x - Poly.atom(per_t) - Poly.atom(f"{CWE}[1]")
                at = rest.as_atom()
                if at is not None and at.startswith("timedelta(seconds=<") and at.endswith(".time#1>)") \
                        and rest.coeff_of(at) == 1:
                    ok = True
        run.check(ok, "C07.ALIGN", init.qual, "_next_tick_time = loop.time() + period + start_delay",
                  "the timer's first tick is not loop-now + one period + the computed start delay", **where)
        timers = p.calls(lambda c: u(c.func) == "Timer")
        ok = len(timers) == 1 and u(wr.get("self._timer")) == u(timers[0].node)
        if ok:
            ta = positional(timers[0].node, ["interval", "missed_tick_policy"])  # type: ignore[arg-type]
            ok = u(ta.get("interval")) in periods and u(ta.get("missed_tick_policy")) == "TriggerAllMissed()" \
                and set(ta) <= {"interval", "missed_tick_policy"}
        run.check(ok, "C07.STEP", init.qual, "Timer(config.resampling_period, TriggerAllMissed())",
                  "the resampling timer does not fire once per period for every missed tick: late ticks "
                  "would be skipped while _window_end advances one period per tick", **where)


def _subst_zero(p: Poly, atom: str) -> Poly:
    out = {}
    for m, c in p.terms.items():
        if any(a == atom for a, _ in m):
            continue
        out[m] = c
    return Poly(out)


def check_conf(run: Run, prog: Program) -> None:
    """Every Resampler in the package is built from the configuration its owner was handed, unchanged:
    the grid a series lands on is the caller's align_to + k * period, not one the owner substitutes."""
    from ..engine.resolver import ClassInfo
    from ..engine.terms import single_defs

    n = 0
    for fn in prog.all_functions():
        if "Resampler" not in fn.module.source and "_resampling" not in fn.module.source:
            continue    # the class cannot be named in a module that mentions neither it nor its module
        for call in ast.walk(fn.node):
            if not isinstance(call, ast.Call):
                continue
            if not any(isinstance(t, ClassInfo) and t.qual == RES for t in prog.resolve_call(fn, call)):
                continue
            n += 1
            run.analysed(fn.qual)
            arg = positional(call, ["config"]).get("config")
            defs = single_defs(fn.node)
            seen = 0
            while isinstance(arg, ast.Name) and arg.id in defs and arg.id not in fn.params and seen < 5:
                arg, seen = defs[arg.id], seen + 1
            stores = sum(1 for x in ast.walk(fn.node) if isinstance(x, ast.Name) and isinstance(x.ctx, ast.Store)
                         and isinstance(arg, ast.Name) and x.id == arg.id)
            ok = isinstance(arg, ast.Name) and arg.id in fn.params and stores == 0
            if not ok and arg is not None and fn.cls is not None and u(arg).startswith("self.") and u(arg).count(".") == 1:
                # an attribute that only ever holds a constructor parameter
                writes = [s for m in fn.cls.methods.values() for s in body_walk(m.node)
                          if isinstance(s, (ast.Assign, ast.AnnAssign)) and s.value is not None
                          and u(s.targets[0] if isinstance(s, ast.Assign) else s.target) == u(arg)]
                ctor = fn.cls.methods.get("__init__")
                ok = bool(writes) and ctor is not None and all(
                    isinstance(w.value, ast.Name) and w.value.id in ctor.params for w in writes) and all(
                    w in list(body_walk(ctor.node)) for w in writes)
            run.check(ok, "C07.CONF", fn.qual, call,
                      "the resampler is not built from the configuration its owner was given "
                      f"(found {u(arg)[:100] if arg is not None else 'no argument'}): the emitted timestamps can lie on "
                      "another grid than the caller's align_to + k * period",
                      node=call, file=fn.file, instance=f"{fn.qual}: Resampler(<configuration parameter>)")
    if not n:
        raise AnalysisError("no construction site of Resampler found")


def _timer_loops(node: ast.AST) -> list[Any]:
    """The per-tick loop: `async for ... in self._timer`, or `while True:` whose first statement awaits
    `self._timer.receive()` (the same loop written by hand; one tick per iteration either way)."""
    out: list[Any] = []
    for s in body_walk(node):
        if isinstance(s, (ast.AsyncFor, ast.For)) and u(s.iter) == "self._timer":
            out.append(s)
        elif isinstance(s, ast.While) and isinstance(s.test, ast.Constant) and s.test.value is True and s.body:
            first = s.body[0]
            val = getattr(first, "value", None)
            if isinstance(first, (ast.Assign, ast.AnnAssign, ast.Expr)) and isinstance(val, ast.Await) \
                    and u(val.value) == "self._timer.receive()":
                out.append(s)
    return out


def check_step(run: Run, prog: Program) -> None:
    cls = prog.cls(RES)
    fn = prog.func(f"{RES}.resample")
    run.analysed(fn.qual)
    node = inline_helpers(prog, fn)
    absorbed = set(getattr(node, "_spliced", ()))
    # a helper read into resample() counts as part of it only if nobody else calls it
    for h in sorted(absorbed):
        hq = f"{RES}.{h}"
        others = [c for c, _ in prog.callers(hq) if c.qual != fn.qual and c.name not in absorbed] \
            if h in cls.methods else []
        if others:
            absorbed.discard(h)
    writers = []
    for m in cls.methods.values():
        for s in body_walk(m.node):
            if isinstance(s, (ast.Assign, ast.AugAssign, ast.AnnAssign)):
                tg = s.targets[0] if isinstance(s, ast.Assign) else s.target
                if u(tg) == "self._window_end":
                    writers.append(m.name)
    extra = sorted(set(writers) - {"__init__", "resample"} - absorbed)
    run.check(not extra and "__init__" in writers, "C07.STEP", cls.qual, "writers of _window_end: constructor and the per-tick advance",
              f"self._window_end is written somewhere else than the constructor and the per-tick advance ({extra})",
              node=cls.node, file=cls.module.rel)
    loops = _timer_loops(node)
    if len(loops) != 1:
        raise AnalysisError(f"{fn.qual}: timer loop not found")
    te = TermEval()
    n_adv = 0
    for p, st in sym_block(loops[0].body, env=_pre_loop_env(node, loops[0])):
        where = dict(node=fn.node, file=fn.file, path=p.describe() + [f"tick ends with: {st}"])
        order = [(i, e) for i, e in enumerate(p.effects)]
        gathers = [i for i, e in order if e.kind == "call" and u(e.node.func) == "asyncio.gather"]  # type: ignore[attr-defined]
        advances = [(i, e) for i, e in order if e.kind == "write" and u(e.node.elts[0]) == "self._window_end"]  # type: ignore[attr-defined]
        ok = len(gathers) == 1
        run.check(ok, "C07.STEP", fn.qual, "every tick gathers and advances",
                  "a tick can be consumed without resampling the series exactly once", **where)
        if not ok:
            continue
        ok = len(advances) == 1
        run.check(ok, "C07.STEP", fn.qual, "advance exactly once per tick, before any raise/break of the tick",
                  f"the window end is advanced {len(advances)} times on this path of a tick: when a sink fails and "
                  "resample() is called again the same timestamp is emitted twice (or one is skipped)", **where)
        if not ok:
            continue
        n_adv += 1
        i_adv, adv = advances[0]
        run.check(i_adv > gathers[0], "C07.STEP", fn.qual, "advance after the gather",
                  "the window end is advanced before the series are resampled with it", **where)
        val = adv.node.elts[1]  # type: ignore[attr-defined]
        ok = te.ev(val) == Poly.atom("self._window_end") + Poly.atom(PER)
        run.check(ok, "C07.STEP", fn.qual, "self._window_end += self._config.resampling_period",
                  "the window end does not advance by exactly one resampling period per tick (the timer "
                  f"still fires once per period, so timestamps would skip or repeat); found {u(val)[:100]}", **where)
    if not n_adv:
        raise AnalysisError(f"{fn.qual}: no tick path advances the window end")


def _pre_loop_env(fn_node: ast.AST, loop: ast.AST) -> dict[str, ast.AST]:
    """Locals bound (once, purely) before the loop, so that the loop body sees through them."""
    env: dict[str, ast.AST] = {}
    for s in getattr(fn_node, "body", []):
        if s is loop:
            break
        if isinstance(s, (ast.Assign, ast.AnnAssign)) and s.value is not None:
            tg = s.targets[0] if isinstance(s, ast.Assign) and len(s.targets) == 1 else getattr(s, "target", None)
            if isinstance(tg, ast.Name):
                rebound = sum(1 for n in ast.walk(fn_node) if isinstance(n, ast.Name) and n.id == tg.id
                              and isinstance(n.ctx, ast.Store))
                if rebound == 1 and not any(isinstance(n, ast.Await) for n in ast.walk(s.value)):
                    class S(ast.NodeTransformer):
                        def visit_Name(self, n: ast.Name) -> ast.AST:  # noqa: N802
                            return env.get(n.id, n) if isinstance(n.ctx, ast.Load) else n
                    import copy as _copy
                    env[tg.id] = S().visit(_copy.deepcopy(s.value))
    return env


ACTOR = "microgrid._resampling:ComponentMetricsResamplingActor"


def check_one(run: Run, prog: Program) -> None:
    """Only one Resampler.resample() loop is ever alive on a resampler (two loops share the timer and
    _window_end: a late burst of ticks makes them emit one timestamp twice and skip another)."""
    fn = prog.func(f"{ACTOR}._run")
    run.analysed(fn.qual)
    sites = [(f, c) for f, c in prog.attr_call_sites("resample")
             if isinstance(c.func, ast.Attribute) and u(c.func.value) == "self._resampler"
             and f.cls is not None and f.cls.qual == ACTOR]
    for f, c in sites:
        run.check(f.qual == fn.qual, "C07.ONE", f.qual, c,
                  "the resampling loop of the actor's resampler is started from somewhere else than the "
                  "supervising loop", node=c, file=f.file)
    if not any(f.qual == fn.qual for f, _ in sites):
        raise AnalysisError(f"{fn.qual}: self._resampler.resample() not found")
    node = inline_helpers(prog, fn)
    loops = [s for s in body_walk(node) if isinstance(s, ast.While)]
    if len(loops) != 1:
        raise AnalysisError(f"{fn.qual}: supervising loop not found")

    def is_start(c: ast.Call) -> bool:
        return u(c.func).endswith("create_task") and len(c.args) >= 1 and u(c.args[0]) == "self._resampler.resample()"

    # the variable that holds the running task
    holders = {t.id for s in body_walk(loops[0]) if isinstance(s, (ast.Assign, ast.AnnAssign)) and s.value is not None
               and isinstance(s.value, ast.Call) and is_start(s.value)
               for t in (s.targets if isinstance(s, ast.Assign) else [s.target]) if isinstance(t, ast.Name)}
    if len(holders) != 1:
        raise AnalysisError(f"{fn.qual}: variable holding the resampling task not identified ({sorted(holders)})")
    V = next(iter(holders))
    n = 0
    for p, _st in sym_block(loops[0].body):
        where = dict(node=fn.node, file=fn.file, path=p.describe())
        starts = p.calls(is_start)
        absent = p.outcome(("is", frozenset({V, "None"}))) is True
        finished = p.outcome(("truthy", f"{V}.done()")) is True
        if starts:
            n += 1
            run.check(len(starts) == 1 and (absent or finished), "C07.ONE", fn.qual,
                      f"start resample() only if {V} is None or {V}.done()",
                      "a second resampling loop can be started on the same resampler while the previous one "
                      "is still running", instance=f"{fn.qual}: start guarded by absent/finished "
                      f"[{'absent' if absent else 'finished'}]", **where)
        final = p.env.get(V)
        if final is not None and not (isinstance(final, ast.Call) and is_start(final)):
            # the task is forgotten (or replaced by something else): only allowed once it is known finished
            was = {V} | {u(s.node) for s in starts}
            known_done = finished or any(
                isinstance(k, tuple) and k[0] == "in" and k[1] in was and o for k, o, *_ in p.conds)
            run.check(known_done and isinstance(final, ast.Constant) and final.value is None, "C07.ONE", fn.qual,
                      f"{V} forgotten only when finished",
                      f"the variable holding the running resampling task is reset ({u(final)[:60]}) on a path "
                      "where that task is not known to be finished: the loop head then starts a second "
                      "resample() loop on the same resampler", **where)
    if not n:
        raise AnalysisError(f"{fn.qual}: no path starts the resampling task")


def _gather_ok(g: ast.Call) -> bool:
    if not (g.args and isinstance(g.args[0], ast.Starred) and isinstance(g.args[0].value, (ast.ListComp, ast.GeneratorExp))):
        return False
    comp = g.args[0].value
    if len(comp.generators) != 1 or comp.generators[0].ifs or comp.generators[0].is_async:
        return False
    gen = comp.generators[0]
    if u(gen.iter) == "self._resamplers.values()" and isinstance(gen.target, ast.Name):
        recv = gen.target.id
    elif u(gen.iter) == "self._resamplers.items()" and isinstance(gen.target, ast.Tuple) and len(gen.target.elts) == 2 \
            and isinstance(gen.target.elts[1], ast.Name):
        recv = gen.target.elts[1].id
    else:
        return False
    return isinstance(comp.elt, ast.Call) and method_call(comp.elt, recv, "resample") \
        and u(positional(comp.elt, ["timestamp"]).get("timestamp")) == "self._window_end" \
        and len(comp.elt.args) + len(comp.elt.keywords) == 1


def check_same(run: Run, prog: Program) -> None:
    fn = prog.func(f"{RES}.resample")
    node = inline_helpers(prog, fn)
    loops = _timer_loops(node)
    if len(loops) != 1:
        raise AnalysisError(f"{fn.qual}: timer loop not found")
    n = 0
    for p, _st in sym_block(loops[0].body):
        gs = p.calls(lambda c: u(c.func) == "asyncio.gather")
        n += len(gs)
        ok = len(gs) == 1 and _gather_ok(gs[0].node)  # type: ignore[arg-type]
        run.check(ok, "C07.SAME", fn.qual, "gather(*[r.resample(self._window_end) for r in self._resamplers.values()])",
                  "not every registered series is resampled in the tick with the same self._window_end",
                  node=fn.node, file=fn.file, path=p.describe())
        if gs:
            kw = {k.arg: k.value for k in gs[0].node.keywords}  # type: ignore[attr-defined]
            rx = kw.get("return_exceptions")
            run.check(isinstance(rx, ast.Constant) and rx.value is True, "C07.STEP", fn.qual,
                      "gather(..., return_exceptions=True)",
                      "the per-tick gather can raise as soon as one series fails: the tick is left before "
                      "`_window_end` advances (and while other series are still being resampled), so the "
                      "next call of resample() emits the same timestamp again",
                      node=fn.node, file=fn.file, path=p.describe(),
                      instance=f"{fn.qual}: a failing series cannot make the gather raise before the advance")
    if not n:
        raise AnalysisError(f"{fn.qual}: per-tick gather not found")
    sh = prog.func(f"{MOD}:_StreamingHelper.resample")
    run.analysed(sh.qual)
    T = sh.params[1]
    n = 0
    for p in sym_paths(inline_helpers(prog, sh)):
        if p.exit == "raise":
            continue
        n += 1
        calls = p.calls(lambda c: method_call(c, "self._helper", "resample"))
        sinks = p.calls(lambda c: u(c.func) == "self._sink")
        ok = len(calls) == 1 and u(positional(calls[0].node, ["timestamp"]).get("timestamp")) == T \
            and len(calls[0].node.args) + len(calls[0].node.keywords) == 1  # type: ignore[attr-defined]
        ok = ok and len(sinks) == 1 and [u(a) for a in sinks[0].node.args] == [u(calls[0].node)] \
            and not sinks[0].node.keywords  # type: ignore[attr-defined]
        run.check(ok, "C07.SAME", sh.qual, "await self._sink(self._helper.resample(timestamp))",
                  "the tick's timestamp is not passed unchanged to the helper and its sample to the sink",
                  node=sh.node, file=sh.file, path=p.describe())
    if not n:
        raise AnalysisError(f"{sh.qual}: no normal path")
    rh = prog.func(f"{MOD}:_ResamplingHelper.resample")
    run.analysed(rh.qual)
    T = rh.params[1]
    bad = None
    for p in sym_paths(inline_helpers(prog, rh)):
        r = p.ret
        if not (p.exit == "return" and isinstance(r, ast.Call) and u(r.func) == "Sample"
                and u(positional(r, ["timestamp", "value"]).get("timestamp")) == T):
            bad = p
    run.check(bad is None, "C07.SAME", rh.qual, f"return Sample({T}, ...)",
              "the emitted sample does not carry the tick's timestamp unchanged", node=rh.node, file=rh.file,
              path=bad.describe() if bad else None)
    at = prog.func(f"{RES}.add_timeseries")
    run.analysed(at.qual)
    src = at.params[2]
    bad = None
    for p in sym_paths(inline_helpers(prog, at)):
        known = p.outcome(("in", src, "self._resamplers"))
        writes = [e for e in p.effects if e.kind == "write" and u(e.node.elts[0]).startswith("self._resamplers")]  # type: ignore[attr-defined]
        if known is True:
            ok = not writes and p.exit == "return" and u(p.ret) == "False"
        elif known is False:
            ok = len(writes) == 1 and u(writes[0].node.elts[0]) == f"self._resamplers[{src}]" \
                and isinstance(writes[0].node.elts[1], ast.Call) and u(writes[0].node.elts[1].func) == "_StreamingHelper"  # type: ignore[attr-defined]
        else:
            ok = False
        if not ok:
            bad = p
    run.check(bad is None, "C07.SAME", at.qual, "series registered once per source",
              "a series can be registered twice / is not registered in the shared map", node=at.node, file=at.file,
              path=bad.describe() if bad else None)


CONTROLS = [
    ("moving window substitutes its own alignment", "timeseries._moving_window", "Resampler(resampler_config)",
     "Resampler(dataclasses.replace(resampler_config, align_to=align_to))", "C07.CONF"),
    ("clock in the zone of align_to", MOD, "now = datetime.now(timezone.utc)\n        period = self._config.resampling_period",
     "now = datetime.now(self._config.align_to.tzinfo if self._config.align_to else timezone.utc)\n        period = self._config.resampling_period",
     "C07.ALIGN"),
    ("resampling task always restarted", "microgrid._resampling",
     "                if resampling_task is None or resampling_task.done():\n", "                if True:\n", "C07.ONE"),
    ("gather raises on the first failing series", MOD, "                return_exceptions=True,\n",
     "                return_exceptions=False,\n", "C07.STEP"),
    ("alignment sign flipped", MOD, "now + period * 2 - elapsed", "now + period * 2 + elapsed", "C07.ALIGN"),
    ("advance moved after the raise", MOD,
     "            self._window_end += self._config.resampling_period\n", "", "C07.STEP"),
    ("now instead of the window end", MOD, "r.resample(self._window_end)", "r.resample(now)", "C07.SAME"),
    ("weakened in-sync test", MOD, "        if not elapsed:\n", "        if elapsed < timedelta(milliseconds=1):\n", "C07.ALIGN"),
    ("skip missed ticks", MOD, "Timer(config.resampling_period, TriggerAllMissed())",
     "Timer(config.resampling_period, SkipMissedAndDrift())", "C07.STEP"),
    ("delay not matching the window end", MOD, "            period - elapsed if elapsed else timedelta(0),",
     "            period if elapsed else timedelta(0),", "C07.ALIGN"),
]


def run_rules(run: Run, prog: Program) -> None:
    check_align(run, prog)
    check_step(run, prog)
    check_same(run, prog)
    check_one(run, prog)
    check_conf(run, prog)


def check(run: Run, prog: Program, tier: str) -> str:
    run.rule("C07.ALIGN", "per return path: window_end ≡ align_to (mod period), now < window_end <= now + "
             "2*period, first timer tick == window_end; one clock reading per path, in UTC")
    run.rule("C07.STEP", "_window_end written only by constructor and the per-tick `+= period`; the "
             "advance happens exactly once per tick after the gather and before any raise/break; the gather "
             "cannot raise for a failing series (return_exceptions=True); the timer triggers all missed ticks")
    run.rule("C07.SAME", "all series of a tick get self._window_end and emit it unchanged")
    run.rule("C07.ONE", "Resampler.resample() is started only by the actor's supervising loop and only when the "
             "previous resampling task is absent or finished; the task variable is only reset when finished")
    run_rules(run, prog)
    run.floor("C07.ALIGN", 9)
    run.floor("C07.STEP", 7)
    run.floor("C07.SAME", 4)
    run.floor("C07.ONE", 3)
    from ..engine.controls import run_controls

    run_controls(run, CONTROLS, run_rules, tier)
    run.assume("`x % period` lies in [0, period) for positive period; datetime/timedelta arithmetic exact")
    run.undecided("timer lateness and real-time behaviour; 'no later than two periods' in wall-clock "
                  "terms beyond the arithmetic of the first window end")
    return ("Linear forms over {now, period, align_to, elapsed} per return path of "
            "_calculate_window_end decide alignment modulo the period, the (now, now+2p] interval and "
            "tick/window-end coincidence; CFG path rules decide the exactly-once advance; provenance "
            "rules decide that all series share the tick timestamp.")
