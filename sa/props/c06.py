"""C06  Every formula sample is computed from inputs of a single timestamp — structure.

  C06.ALL   apply() starts one fetch_next() per entry of _metric_fetchers (no filter) and waits with
            return_when=ALL_COMPLETED; a missing/None result aborts the round.
  C06.ONE   along every path of fetch_next -> _fetch_next -> fetch_next_with_fallback the primary
            stream is received exactly once; step.apply() never receives.
  C06.TS    the emitted sample's timestamp derives from fetched samples' timestamps (never the wall
            clock) and the formula steps are evaluated only after the round's timestamp (and, on the
            first run, the synchronisation) has been established.
  C06.SYNC  first-run synchronisation: latest = max of the first timestamps; every lagging group is
            drained with `while ts < latest: for name in names: fetch_next()`; overshoot raises;
            _first_run is cleared only after all groups completed.
  C06.FSYNC the fallback synchronisation keeps per-timestamp alignment (shared with C19.SYNC).
  C06.3PH   the three-phase engine receives exactly one sample per phase per round and stamps the
            output with a received timestamp.
"""
from __future__ import annotations

import ast

from ..engine.cfg import CFG
from ..engine.report import AnalysisError, Run
from ..engine.resolver import Program, body_walk, contains_await
from ..engine.util import canon, canon_total, find_calls, method_call, node_writes, nodes_with_call, u
from .c13 import step_classes
from .c19 import check_sync as fallback_sync

EVAL = "timeseries.formula_engine._formula_evaluator"
STEPS = "timeseries.formula_engine._formula_steps"
ENGINE = "timeseries.formula_engine._formula_engine"
FE = f"{EVAL}:FormulaEvaluator"
MF = f"{STEPS}:MetricFetcher"


def check_all(run: Run, prog: Program) -> None:
    fn = prog.func(f"{FE}.apply")
    run.analysed(fn.qual)
    cfg = CFG(fn.node, fn.file)
    waits = [x for x in nodes_with_call(cfg, lambda c: u(c.func) == "asyncio.wait") if cfg.is_await(x)]
    if len(waits) != 1:
        raise AnalysisError(f"{fn.qual}: expected one awaited asyncio.wait")
    w = find_calls(cfg.nodes[waits[0]].ast, lambda c: u(c.func) == "asyncio.wait")[0]  # type: ignore[arg-type]
    comp = w.args[0] if w.args else None
    ok = isinstance(comp, (ast.ListComp, ast.SetComp, ast.GeneratorExp)) and len(comp.generators) == 1
    if ok:
        g = comp.generators[0]
        ok = not g.ifs and u(g.iter) in ("self._metric_fetchers.items()", "self._metric_fetchers.values()")
        ft = u(g.target.elts[1]) if isinstance(g.target, ast.Tuple) else u(g.target)
        inner = find_calls(comp.elt, lambda c: method_call(c, ft, "fetch_next"))
        ok = ok and len(inner) == 1 and bool(find_calls(comp.elt, lambda c: u(c.func).endswith("create_task")))
    run.check(ok, "C06.ALL", fn.qual, "one fetch_next() task per metric fetcher, no filter",
              "not every input of the formula is fetched in every round", node=w, file=fn.file)
    kws = {k.arg: u(k.value) for k in w.keywords}
    run.check(kws.get("return_when", "asyncio.ALL_COMPLETED") == "asyncio.ALL_COMPLETED" and "timeout" not in kws,
              "C06.ALL", fn.qual, "return_when=ALL_COMPLETED, no timeout",
              "the round does not wait for all inputs (a sample could be computed from a partial set of "
              "inputs while the rest is consumed by a later round)", node=w, file=fn.file)
    # pending / None -> raise before evaluation
    s = cfg.nodes[waits[0]].ast
    ready, pend = (u(e) for e in s.targets[0].elts) if isinstance(s, ast.Assign) else ("?", "?")  # type: ignore[union-attr]
    tests = [t for t in cfg.nodes if t.kind == "test" and t.ast is not None and pend in t.label and "result() is None" in t.label]
    steps_loop = [h for h in cfg.nodes if h.kind == "for" and u(h.ast.iter) == "self._steps"]  # type: ignore[union-attr]
    ok = len(tests) == 1 and len(steps_loop) == 1
    if ok:
        t = tests[0]
        t_true = cfg.reachable([m for m, lab in cfg.succ[t.id] if lab == "true"])
        ok = cfg.exit not in t_true and steps_loop[0].id not in t_true and \
            cfg.path(cfg.entry, [steps_loop[0].id], avoid=[t.id]) is None
    run.check(ok, "C06.ALL", fn.qual, "pending or closed inputs abort the round",
              "the formula is evaluated although some input did not deliver a sample", node=fn.node, file=fn.file)
    # only other fetches: the first-run synchronisation
    others = [c for c in find_calls(fn.node, lambda c: isinstance(c.func, ast.Attribute) and c.func.attr in ("fetch_next", "receive"))
              if not any(c is x for x in ast.walk(comp))]  # type: ignore[arg-type]
    run.check(not others, "C06.ONE", fn.qual, "no extra fetch in a steady-state round",
              "apply() fetches an input a second time within one round", node=fn.node, file=fn.file)


def check_one(run: Run, prog: Program) -> None:
    fn = prog.func(f"{MF}._fetch_next")
    run.analysed(fn.qual)
    cfg = CFG(fn.node, fn.file)
    prim = nodes_with_call(cfg, lambda c: method_call(c, "self._stream", "receive"))
    deleg = nodes_with_call(cfg, lambda c: method_call(c, "self", "fetch_next_with_fallback"))
    sources = prim + deleg
    normal = lambda a, b, lab: not lab.startswith("exc:")  # noqa: E731
    wit = cfg.path(cfg.entry, [cfg.exit], avoid=sources, edge_ok=normal)
    run.check(bool(sources) and wit is None, "C06.ONE", fn.qual, "every path fetches the primary",
              "a round can complete without reading this input", node=fn.node, file=fn.file,
              path=cfg.describe_path(wit))
    twice = None
    for s in sources:
        twice = cfg.path(s, sources, include_src=False)
        if twice:
            break
    run.check(twice is None, "C06.ONE", fn.qual, "primary fetched at most once per round",
              "one round can read this input's stream twice (e.g. a retry): the stream then runs one "
              "sample ahead of the others and every later output mixes timestamps", node=fn.node,
              file=fn.file, path=cfg.describe_path(twice))
    fw = prog.func(f"{MF}.fetch_next_with_fallback")
    run.analysed(fw.qual)
    cfg2 = CFG(fw.node, fw.file)
    p2 = nodes_with_call(cfg2, lambda c: method_call(c, "self._stream", "receive"))
    wit = cfg2.path(cfg2.entry, [cfg2.exit], avoid=p2, edge_ok=normal)
    twice = None
    for s in p2:
        twice = twice or cfg2.path(s, p2, include_src=False)
    run.check(len(p2) == 1 and wit is None and twice is None, "C06.ONE", fw.qual,
              "primary received exactly once with fallback", "the primary stream is not read exactly once "
              "per round on the fallback-aware path", node=fw.node, file=fw.file, path=cfg2.describe_path(wit or twice))
    fn3 = prog.func(f"{MF}.fetch_next")
    run.analysed(fn3.qual)
    calls = find_calls(fn3.node, lambda c: method_call(c, "self", "_fetch_next"))
    run.check(len(calls) == 1 and not find_calls(fn3.node, lambda c: isinstance(c.func, ast.Attribute)
                                                and c.func.attr == "receive"), "C06.ONE", fn3.qual,
              "fetch_next -> one _fetch_next", "fetch_next does not perform exactly one fetch", node=fn3.node, file=fn3.file)
    # steps never receive
    n = 0
    for cls in step_classes(prog):
        m = cls.methods["apply"]
        n += 1
        bad = m.is_async or contains_await(m.node) or find_calls(
            m.node, lambda c: isinstance(c.func, ast.Attribute) and c.func.attr in ("receive", "fetch_next", "consume"))
        run.check(not bad, "C06.ONE", m.qual, f"{cls.name}.apply is synchronous and reads no stream",
                  "a formula step reads from a stream while the formula is evaluated", node=m.node, file=m.file)
    ap = prog.func(f"{MF}.apply")
    reads = {x.attr for x in ast.walk(ap.node) if isinstance(x, ast.Attribute) and u(x.value) == "self"}
    run.check("_next_value" in reads and "_stream" not in reads, "C06.ONE", ap.qual,
              "MetricFetcher.apply pushes the value fetched for this round",
              "MetricFetcher.apply does not push the sample stored by fetch_next", node=ap.node, file=ap.file)


def check_ts(run: Run, prog: Program) -> None:
    fn = prog.func(f"{FE}.apply")
    cfg = CFG(fn.node, fn.file)
    rets = [n for n in cfg.nodes if isinstance(n.ast, ast.Return) and isinstance(n.ast.value, ast.Call)
            and u(n.ast.value.func) == "Sample"]
    if len(rets) < 2:
        raise AnalysisError(f"{fn.qual}: Sample returns not found")
    ts_names = {u(r.ast.value.args[0]) for r in rets}  # type: ignore[union-attr]
    ok = len(ts_names) == 1
    ts = next(iter(ts_names))
    defs = [n for n in cfg.nodes if n.kind == "stmt" and any(u(w) == ts for w in node_writes(cfg, n.id))]
    good = 0
    for d in defs:
        v = d.ast.value if isinstance(d.ast, ast.Assign) else None  # type: ignore[union-attr]
        t = u(v) if v is not None else ""
        if t.replace(" ", "") == "awaitself._synchronize_metric_timestamps(ready_metrics)":
            good += 1
        elif t.endswith(".timestamp"):
            base = t[: -len(".timestamp")]
            bdefs = [u(x.ast.value) for x in cfg.nodes if isinstance(x.ast, ast.Assign) and u(x.ast.targets[0]) == base]
            if bdefs and all("ready_metrics" in b and b.endswith(".result()") for b in bdefs):
                good += 1
    ok = ok and good == len(defs) and len(defs) == 2
    nowcalls = find_calls(fn.node, lambda c: "now" in u(c.func) or "time()" in u(c))
    run.check(ok and not nowcalls, "C06.TS", fn.qual, f"{ts} <- fetched sample timestamps only",
              "the emitted timestamp is not derived from the timestamps of this round's fetched samples",
              node=fn.node, file=fn.file)
    # steps evaluated only after the timestamp / synchronisation
    loops = [h for h in cfg.nodes if h.kind == "for" and u(h.ast.iter) == "self._steps"]  # type: ignore[union-attr]
    wit = cfg.path(cfg.entry, [loops[0].id], avoid=[d.id for d in defs]) if loops else [(0, "")]
    run.check(bool(loops) and wit is None, "C06.TS", fn.qual, "evaluate after the round's timestamp is fixed",
              "the formula steps are evaluated before the first-run synchronisation / timestamp selection: "
              "the first sample is stamped with the synchronised timestamp but computed from the lagging "
              "streams' older samples", node=fn.node, file=fn.file, path=cfg.describe_path(wit))
    # first-run switch
    tests = [t for t in cfg.nodes if t.kind == "test" and t.ast is not None and canon(t.ast) == ("truthy", "self._first_run")]
    ok = len(tests) == 1
    if ok:
        t = tests[0]
        sync = nodes_with_call(cfg, lambda c: method_call(c, "self", "_synchronize_metric_timestamps"))
        ok = [m for m, lab in cfg.succ[t.id] if lab == "true"] == sync[:1]
    run.check(ok, "C06.TS", fn.qual, "first run -> synchronise", "the first round does not synchronise the inputs",
              node=fn.node, file=fn.file)
    # evaluator state: _first_run written only in __init__ (True) and at the end of the sync (False)
    cls = prog.cls(FE)
    writes = []
    for m in cls.methods.values():
        for s in body_walk(m.node):
            if isinstance(s, ast.Assign) and u(s.targets[0]) == "self._first_run":
                writes.append((m.name, u(s.value)))
    run.check(sorted(writes) == [("__init__", "True"), ("_synchronize_metric_timestamps", "False")], "C06.TS",
              cls.qual, f"writers of _first_run: {sorted(writes)}",
              "the first-run flag is toggled elsewhere", node=cls.node, file=cls.module.rel)


def check_sync(run: Run, prog: Program) -> None:
    fn = prog.func(f"{FE}._synchronize_metric_timestamps")
    run.analysed(fn.qual)
    cfg = CFG(fn.node, fn.file)
    txt = u(fn.node).replace(" ", "")
    ok = "metrics_by_ts.setdefault(result.timestamp,[]).append(name)" in txt and "latest_ts=max(metrics_by_ts)" in txt
    run.check(ok, "C06.SYNC", fn.qual, "group by first timestamp; latest = max",
              "inputs are not grouped by their first timestamp with the latest one as the target",
              node=fn.node, file=fn.file)
    outer = [s for s in fn.node.body if isinstance(s, ast.For) and u(s.iter) == "metrics_by_ts.items()"]
    ok = len(outer) == 1
    detail = "no loop over the timestamp groups"
    if ok:
        o = outer[0]
        ts_var, names_var = (u(e) for e in o.target.elts)  # type: ignore[union-attr]
        whiles = [s for s in o.body if isinstance(s, ast.While)]
        ok = len(whiles) == 1 and canon_total(whiles[0].test) == ("<", ts_var, "latest_ts")
        detail = f"groups are not drained with `while {ts_var} < latest_ts`"
        if ok:
            w = whiles[0]
            inner = [s for s in w.body if isinstance(s, ast.For) and u(s.iter) == names_var]
            ok = len(inner) == 1 and len(w.body) == 1
            detail = ("the drain loop does not advance *every* stream of the lagging group in each pass "
                      "(`while ts < latest: for name in names: fetch_next()`): with the loops interchanged "
                      "the shared timestamp variable stops the draining after the first stream and the "
                      "others stay behind forever")
            if ok:
                body = u(inner[0]).replace(" ", "")
                ok = "fetcher=self._metric_fetchers[" in body and "awaitfetcher.fetch_next()" in body and \
                    f"{ts_var}=next_val.timestamp" in body
                detail = "the drain pass does not fetch from the group's fetchers and track their timestamp"
        if ok:
            after = o.body[o.body.index(whiles[0]) + 1:]
            ok = any(isinstance(s, ast.If) and canon_total(s.test) == ("<", "latest_ts", ts_var)
                     and any(isinstance(x, ast.Raise) for x in s.body) for s in after)
            detail = "overshooting the target timestamp is not an error"
        if ok:
            skips = [s for s in o.body if isinstance(s, ast.If) and canon(s.test) == ("==", frozenset({ts_var, "latest_ts"}))]
            ok = all(any(isinstance(x, ast.Continue) for x in s.body) for s in skips)
    run.check(ok, "C06.SYNC", fn.qual, "while ts < latest: for name in names: fetch_next()", detail,
              node=fn.node, file=fn.file)
    # _first_run cleared only after the group loop completed normally
    clr = [n.id for n in cfg.nodes if isinstance(n.ast, ast.Assign) and u(n.ast.targets[0]) == "self._first_run"]
    loops = [h for h in cfg.nodes if h.kind == "for" and u(h.ast.iter) == "metrics_by_ts.items()"]  # type: ignore[union-attr]
    ok = len(clr) == 1 and len(loops) == 1
    if ok:
        preds = cfg.pred[clr[0]]
        ok = all(a == loops[0].id and lab == "done" for a, lab in preds)
    run.check(ok, "C06.SYNC", fn.qual, "_first_run = False only after all groups are synchronised",
              "the first-run flag is cleared before the synchronisation completed (a failed "
              "synchronisation would never be retried)", node=fn.node, file=fn.file)
    rets = [n for n in body_walk(fn.node) if isinstance(n, ast.Return)]
    run.check(len(rets) == 1 and u(rets[0].value) == "latest_ts", "C06.SYNC", fn.qual, "returns latest_ts",
              "the synchronised timestamp is not the one returned", node=fn.node, file=fn.file)


def check_3ph(run: Run, prog: Program) -> None:
    fn = prog.func(f"{ENGINE}:FormulaEngine3Phase._run")
    run.analysed(fn.qual)
    cfg = CFG(fn.node, fn.file)
    rx = {}
    for s in body_walk(fn.node):
        if isinstance(s, ast.Assign) and isinstance(s.value, ast.Call) and u(s.value.func).startswith("self._streams[") \
                and u(s.value.func).endswith(".new_receiver"):
            rx[u(s.targets[0])] = u(s.value.func)
    ok = sorted(rx.values()) == [f"self._streams[{i}].new_receiver" for i in range(3)]
    run.check(ok, "C06.3PH", fn.qual, "one receiver per phase", f"receivers: {rx}", node=fn.node, file=fn.file)
    loops = [h for h in cfg.nodes if h.kind == "while"]
    if len(loops) != 1:
        raise AnalysisError(f"{fn.qual}: loop not found")
    h = loops[0]
    body = cfg.reachable([m for m, lab in cfg.succ[h.id] if lab == "true"], avoid=[h.id])
    normal = lambda a, b, lab: not lab.startswith("exc:")  # noqa: E731
    sends = nodes_with_call(cfg, lambda c: method_call(c, "sender", "send"))
    for name in rx:
        recs = [x for x in nodes_with_call(cfg, lambda c: method_call(c, name, "receive")) if x in body]
        first = [m for m, lab in cfg.succ[h.id] if lab == "true"]
        wit = cfg.path(first[0], sends, avoid=recs, edge_ok=normal) if first[0] not in recs else None
        twice = cfg.path(recs[0], recs, avoid=[h.id], include_src=False, edge_ok=normal) if recs else None
        run.check(len(recs) == 1 and wit is None and twice is None, "C06.3PH", fn.qual,
                  f"{name}.receive() exactly once per round",
                  "a phase is not received exactly once per emitted three-phase sample", node=fn.node, file=fn.file)
    ctor = find_calls(fn.node, lambda c: u(c.func) == "Sample3Phase")
    ok = len(ctor) == 1
    if ok:
        a = [u(x) for x in ctor[0].args]
        srcs = {}
        for s in body_walk(fn.node):
            if isinstance(s, ast.Assign) and isinstance(s.value, ast.Await) and isinstance(s.value.value, ast.Call):
                srcs[u(s.targets[0])] = u(s.value.value.func.value)  # type: ignore[union-attr]
        order = sorted(rx, key=lambda k: rx[k])
        inv = {v: k for k, v in srcs.items()}
        ok = len(a) == 4 and all(r in inv for r in order) and a[0] == f"{inv[order[0]]}.timestamp" and \
            a[1:] == [f"{inv[r]}.value" for r in order]
    run.check(ok, "C06.3PH", fn.qual, "Sample3Phase(p1.timestamp, p1.value, p2.value, p3.value)",
              "the three-phase sample is not built from this round's three received samples in phase order",
              node=fn.node, file=fn.file)


CONTROLS = [
    ("FIRST_COMPLETED", EVAL, "return_when=asyncio.ALL_COMPLETED", "return_when=asyncio.FIRST_COMPLETED", "C06.ALL"),
    ("<= in the sync loop", EVAL, "            while metric_ts < latest_ts:", "            while metric_ts <= latest_ts:", "C06.SYNC"),
    ("stamped with the wall clock", EVAL, "        return Sample(metric_ts, self._create_method(res))",
     "        return Sample(datetime.now(), self._create_method(res))", "C06.TS"),
    ("retry receive in _fetch_next", STEPS,
     "            _logger.error(\"Failed to fetch next value from %s: %s\", self._name, err)\n",
     "            _logger.error(\"Failed to fetch next value from %s: %s\", self._name, err)\n            next_value = await self._stream.receive()\n",
     "C06.ONE"),
    ("steps before synchronisation", EVAL,
     "        if self._first_run:\n            metric_ts = await self._synchronize_metric_timestamps(ready_metrics)\n        else:\n            sample = next(iter(ready_metrics)).result()\n            assert sample is not None\n            metric_ts = sample.timestamp\n\n        for step in self._steps:\n            step.apply(eval_stack)\n",
     "        for step in self._steps:\n            step.apply(eval_stack)\n\n        if self._first_run:\n            metric_ts = await self._synchronize_metric_timestamps(ready_metrics)\n        else:\n            sample = next(iter(ready_metrics)).result()\n            assert sample is not None\n            metric_ts = sample.timestamp\n",
     "C06.TS"),
    ("phase 2 read twice", ENGINE, "                phase_3 = await phase_3_rx.receive()", "                phase_3 = await phase_2_rx.receive()", "C06.3PH"),
]


def run_rules(run: Run, prog: Program) -> None:
    check_all(run, prog)
    check_one(run, prog)
    check_ts(run, prog)
    check_sync(run, prog)
    fallback_sync(run, prog, rule="C06.FSYNC")
    check_3ph(run, prog)


def check(run: Run, prog: Program, tier: str) -> str:
    run.rule("C06.ALL", "one fetch per input per round, all awaited; incomplete rounds abort")
    run.rule("C06.ONE", "each input's primary stream is received exactly once per round; steps never receive")
    run.rule("C06.TS", "output timestamp from fetched samples only; steps evaluated after it is fixed; first run synchronises")
    run.rule("C06.SYNC", "first-run synchronisation drains every stream of every lagging group up to the latest first timestamp")
    run.rule("C06.FSYNC", "fallback synchronisation keeps per-timestamp alignment")
    run.rule("C06.3PH", "three-phase zip: one sample per phase per round, stamped with a received timestamp")
    run_rules(run, prog)
    run.floor("C06.ALL", 3)
    run.floor("C06.ONE", 15)
    run.floor("C06.TS", 4)
    run.floor("C06.SYNC", 4)
    run.floor("C06.3PH", 5)
    from ..engine.controls import run_controls

    run_controls(run, CONTROLS, run_rules, tier)
    run.assume("input streams are themselves timestamp-synchronous once aligned (resampler output): one "
               "receive per stream per round then keeps them aligned")
    run.undecided("behaviour when receiver buffers overflow; whether the three per-phase engines stay "
                  "aligned when their first timestamps differ (FormulaEngine3Phase performs no "
                  "synchronisation of its own — reported by a seeding sub-agent as a clean-tree "
                  "observation; it is a scheduling/alignment property this family cannot decide)")
    return ("Exactly-once / must-precede path rules on the exception-aware CFGs of the evaluator and the "
            "metric fetcher, provenance of the emitted timestamp, loop-shape rules on the first-run "
            "synchronisation, and the shared fallback-synchronisation rules.")
