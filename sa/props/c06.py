"""C06  Every formula sample is computed from inputs of a single timestamp — structure.

All roles are bound by dataflow (sa/props/_c06_util.py: reaching definitions, origin resolution through
copies / tuple unpacking / private helpers, three-valued path conditions); no rule depends on a
local-variable name, on the polarity or operand order of a condition, on if/else vs early return, on
keyword vs positional arguments or on whether a sub-expression has a name.

  C06.ALL   apply() starts one fetch_next() task per entry of _metric_fetchers (no filter) and awaits
            asyncio.wait(..., ALL_COMPLETED, no timeout); while some task is pending or some result is
            None neither the step evaluation nor a normal return is reachable.
  C06.ONE   along every path of fetch_next -> _fetch_next -> fetch_next_with_fallback the primary
            stream is received exactly once; step.apply() never receives; apply() (and the private
            helpers it calls) fetches nothing besides the round's tasks.
  C06.TS    the timestamp of every Sample apply() can return derives from this round's fetched samples
            (never the wall clock); nothing is fetched once step evaluation has begun; while
            _first_run is set, evaluation / return is only reachable through the synchronisation and
            the emitted timestamp is the synchronisation's result (must-use).
  C06.SYNC  first-run synchronisation: inputs grouped by first timestamp, latest = max of the groups,
            returned; per group: `ts < latest` => every stream of the group is fetched (and ts
            tracked) in each pass of a loop that runs exactly while ts < latest; `ts > latest`
            afterwards never continues normally; _first_run is cleared only after all groups.
  C06.FSYNC the fallback synchronisation keeps per-timestamp alignment (shared with C19.SYNC).
  C06.3PH   the three per-phase engines synchronise only their own inputs: in every round each phase is
            received, the reference is max(the three timestamps), a phase behind it is received again from
            its own receiver until it is not (drain loop; an aligned phase is not touched), and the sample
            sent takes value k from phase k's final sample and its timestamp from those samples.
  C06.NAME  the synchronisation finds the stream behind a finished fetch task through `task.get_name()` and
            `self._metric_fetchers[<that name>]`: apply() must have created the task of the fetcher stored under
            key K with `name=K` (the two cooperating sites agree on what identifies a stream).
  C06.TOTAL no step's apply() can raise (shared with C13.TOTAL): FormulaEngine._run drops the round on any
            exception after every input was consumed, i.e. the timestamp would be skipped.
  C06.SEND  the loop that drives a formula (FormulaEngine._run, helpers read in) sends the sample of this round, once:
            no send is reachable from the exception edge of `await evaluator.apply()` before the next apply(), the
            argument of send is the value this round's apply() returned, one send per evaluation.
  C06.FRESH every sample fetch_next_with_fallback() hands to a round comes from an awaited receive() of this call or
            from the fallback synchronisation called in it -- never from state kept from an earlier round.

  C06.REALIGN in the steady state a round whose fetched samples carry different timestamps is never evaluated: on every path it
            awaits the synchronisation routine first, and nothing but the samples' timestamps (and _first_run) decides that
            (a re-synchronisation that is conditional on a flag / "has a fallback" / the number of inputs is explored both ways).

C06.3PH also demands the alignment in EVERY round (no path from the start of a round to the sample avoids the
reference, unless a guard over the round's three timestamps proves them equal).

Seeded controls are cut out of the live source at structurally located anchors (build_controls).
"""
from __future__ import annotations

import ast
from typing import Any, Callable

from ..engine.cfg import CFG
from ..engine.normalize import positional
from ..engine.report import AnalysisError, Run
from ..engine.resolver import Program, contains_await
from ..engine.util import find_calls, method_call, nodes_with_call, u
from ._c06_util import (Flow, Org, Tri, cmp_eval, engine_loop, first_run_sync_name, resyncs_on_divergence, indent_of, inline_all, validity_name, lifted, names_eq, pruned, result_sites, seg, spliced, src_patch, stmt_patch,
                        transitive_helpers, tri, truth_atom, unawait)
from .c13 import check_fetcher, check_steps, engine_drops_round, step_classes
from .c19 import check_plain_primary, fallback_sync_name
from .c19 import check_sync as fallback_sync

EVAL = "timeseries.formula_engine._formula_evaluator"
STEPS = "timeseries.formula_engine._formula_steps"
ENGINE = "timeseries.formula_engine._formula_engine"
FE = f"{EVAL}:FormulaEvaluator"
MF = f"{STEPS}:MetricFetcher"
SYNC = "_synchronize_metric_timestamps"
FETCH_ATTRS = ("fetch_next", "receive")


def _asyncio_name(fl: Flow, e: ast.AST, name: str) -> bool:
    t = u(e)
    if t == f"asyncio.{name}":
        return True
    return isinstance(e, ast.Name) and fl.fn.module.imports.get(e.id) == f"asyncio.{name}"


def _is_fetch_call(c: ast.Call) -> bool:
    return isinstance(c.func, ast.Attribute) and c.func.attr in FETCH_ATTRS


def bind_sync(prog: Program) -> str:
    """Bind the first-run synchronisation by role (the name is only a hint) for this run."""
    global SYNC
    SYNC = first_run_sync_name(prog)
    return SYNC


def _is_sync_call(c: ast.Call) -> bool:
    return isinstance(c.func, ast.Attribute) and c.func.attr == SYNC and u(c.func.value) == "self"


class RoundBroken(AnalysisError):
    """apply() lacks a part every round needs (reported as a violation, not as an analysis failure)."""

    def __init__(self, rule: str, what: str, message: str) -> None:
        super().__init__(message)
        self.rule, self.what, self.message = rule, what, message


class Round:
    """Roles of FormulaEvaluator.apply: the awaited asyncio.wait, its done / pending sets, the step evaluation."""

    def __init__(self, prog: Program) -> None:
        self.prog = prog
        self.raw = prog.func(f"{FE}.apply")
        # one round as a unit of behaviour: every private callee read in, except the (role-bound) synchronisation
        self.fn = inline_all(prog, self.raw, stop={SYNC})
        self.fl = fl = Flow(prog, self.fn)
        waits = [(nid, c) for nid, c in fl.calls(lambda c: _asyncio_name(fl, c.func, "wait"))
                 if isinstance(fl._parent.get(id(c)), ast.Await)]
        if not waits:
            raise RoundBroken("C06.ALL", "await asyncio.wait(<one fetch task per input>)",
                              "apply() does not wait for this round's fetch tasks at all")
        if len(waits) != 1:
            raise AnalysisError(f"{self.raw.qual}: expected one awaited asyncio.wait, found {len(waits)}")
        self.wait_nid, self.wait = waits[0]
        # step evaluation: the loop(s) over self._steps and the `.apply(...)` calls on their elements
        self.step_loops = [n.id for n in fl.cfg.nodes if n.kind == "for" and n.id in fl.live
                           and self._is_steps(n.ast.iter, n.id)]  # type: ignore[union-attr]
        self.step_calls = [(nid, c) for nid, c in fl.calls(lambda c: isinstance(c.func, ast.Attribute) and c.func.attr == "apply")
                           if any(o.kind == "iter" and self._is_steps(o.node, o.nid, strict=False) for o in fl.origin(c.func.value, nid))]  # type: ignore[union-attr]
        self.eval_nodes = sorted(set(self.step_loops) | {nid for nid, _ in self.step_calls})
        if not self.step_calls:
            raise RoundBroken("C06.TS", "evaluation of self._steps", "apply() never applies the formula steps to the inputs it "
                              "fetched (no value is computed from this round's samples; the residual check drops every round)")

    def _is_steps(self, e: ast.AST | None, nid: int | None, strict: bool = True) -> bool:
        if e is None:
            return False
        if not strict:
            e2 = unawait(e)
            while isinstance(e2, ast.Call) and u(e2.func) in ("iter", "list", "tuple", "reversed", "enumerate") and e2.args:
                e2 = e2.args[0]
            e = e2
        return all(o.kind == "expr" and u(o.node) == "self._steps" for o in self.fl.origin(e, nid))

    # done / pending sets of the wait, wherever they are named (also inside helpers: origins cross calls)
    def _is_item(self, flow: Flow, e: ast.AST, nid: int | None, idx: int) -> bool:
        e2 = unawait(e)
        while isinstance(e2, ast.Call) and u(e2.func) in ("iter", "list", "tuple", "set", "frozenset") and len(e2.args) == 1:
            e2 = e2.args[0]
        o = flow.origin(e2, nid)  # type: ignore[arg-type]
        return bool(o) and all(x.kind == "item" and unawait(x.node) is self.wait and x.idx == idx for x in o)

    def is_done(self, flow: Flow, e: ast.AST, nid: int | None) -> bool:
        return self._is_item(flow, e, nid, 0)

    def is_pending(self, flow: Flow, e: ast.AST, nid: int | None) -> bool:
        return self._is_item(flow, e, nid, 1)

    def is_task(self, flow: Flow, e: ast.AST, nid: int | None) -> bool:
        """An element of the done set: loop / comprehension variable over it, or next(iter(done))."""
        out = flow.origin(e, nid)
        for o in out:
            if o.kind == "iter" and o.idx is None and o.node is not None and self.is_done(o.flow, o.node, o.nid):
                continue
            c = o.call()
            if c is not None and u(c.func) == "next" and c.args and self.is_done(o.flow, c.args[0], o.nid):
                continue
            return False
        return bool(out)

    def is_sample(self, flow: Flow, e: ast.AST, nid: int | None) -> bool:
        """The result of one of this round's finished fetch tasks."""
        out = flow.origin(e, nid)
        for o in out:
            c = o.call()
            if c is not None and isinstance(c.func, ast.Attribute) and c.func.attr == "result" and not c.args \
                    and self.is_task(o.flow, c.func.value, o.nid):
                continue
            return False
        return bool(out)

    def none_scan(self, flow: Flow, call: ast.Call, nid: int) -> bool:
        """Is `call` a private helper that returns True exactly when some finished task's result is None
        (the loop spelling of `any(t.result() is None for t in done)`)?"""
        ch = flow.child(call, nid)
        if ch is None:
            return False
        cfg = ch.cfg
        rets = ch.returns()
        vals = {r: cfg.nodes[r].ast.value for r in rets}  # type: ignore[union-attr]
        if not rets or not all(isinstance(v, ast.Constant) and isinstance(v.value, bool) for v in vals.values()):
            return False
        loops = [h for h in cfg.nodes if h.kind == "for" and h.id in ch.live and isinstance(h.ast.target, ast.Name)  # type: ignore[union-attr]
                 and self.is_done(ch, h.ast.iter, h.id)]  # type: ignore[union-attr]
        if len(loops) != 1:
            return False
        h = loops[0]
        body0 = [m for m, lab in cfg.succ[h.id] if lab == "iter"]
        inside = cfg.reachable(body0, avoid=[h.id])
        after = cfg.reachable([m for m, lab in cfg.succ[h.id] if lab == "done"], avoid=[h.id])
        if not all((r in inside and vals[r].value is True) or (r in after and r not in inside and vals[r].value is False) for r in rets):  # type: ignore[union-attr]
            return False
        if cfg.path(cfg.entry, rets, avoid=[h.id]) is not None:
            return False

        def scn(is_none: bool) -> Any:
            def atom(e: ast.AST, n2: int) -> Tri:
                ta = truth_atom(e)
                if ta is not None:
                    c = unawait(ta[0])
                    if isinstance(c, ast.Call) and isinstance(c.func, ast.Attribute) and c.func.attr == "result" and not c.args \
                            and all(q.kind == "iter" and q.nid == h.id for q in ch.origin(c.func.value, n2)):
                        return is_none if ta[1] else not is_none
                return None
            return pruned(cfg, lifted(ch, atom))

        trues = [r for r in rets if r in inside]
        return bool(trues) and cfg.path(body0[0], trues, edge_ok=scn(False)) is None \
            and cfg.path(body0[0], [h.id], edge_ok=scn(True)) is None and cfg.path(body0[0], trues, edge_ok=scn(True)) is not None

    def arrived_atom(self, assign: dict[str, Tri]) -> Callable[[ast.AST, int], Tri]:
        """Atoms `pending` (non-empty) and `none` (some finished task delivered None)."""
        fl = self.fl

        def atom(e: ast.AST, nid: int) -> Tri:
            if isinstance(e, ast.Call) and u(e.func) in ("any", "all") and len(e.args) == 1 \
                    and isinstance(e.args[0], (ast.GeneratorExp, ast.ListComp, ast.SetComp)) \
                    and len(e.args[0].generators) == 1 and not e.args[0].generators[0].ifs:
                comp = e.args[0]
                g = comp.generators[0]
                if isinstance(g.target, ast.Name) and self.is_done(fl, g.iter, nid):
                    neg = False
                    elt = comp.elt
                    while isinstance(elt, ast.UnaryOp) and isinstance(elt.op, ast.Not):
                        neg, elt = not neg, elt.operand
                    ta = truth_atom(elt)
                    if ta is not None:
                        x, is_none = ta
                        is_none = is_none != neg
                        c = unawait(x)
                        if isinstance(c, ast.Call) and isinstance(c.func, ast.Attribute) and c.func.attr == "result" \
                                and isinstance(c.func.value, ast.Name) and c.func.value.id == g.target.id:
                            v = assign.get("none")
                            if u(e.func) == "any" and is_none:
                                return v
                            if u(e.func) == "all" and not is_none:
                                return None if v is None else (not v)
                            # the done set of a round is never empty (one task per input)
                            if u(e.func) == "any" and not is_none and v is False:
                                return True
                            if u(e.func) == "all" and is_none and v is False:
                                return False
                return None
            if isinstance(e, ast.Call) and len(e.args) + len(e.keywords) == 1 and fl.callee(e) is not None \
                    and self.is_done(fl, (list(e.args) + [k.value for k in e.keywords])[0], nid) and self.none_scan(fl, e, nid):
                return assign.get("none")
            if self.is_pending(fl, e, nid):
                return assign.get("pending")
            if isinstance(e, ast.Compare) and len(e.ops) == 1:
                a, b = e.left, e.comparators[0]
                for x, y, flip in ((a, b, False), (b, a, True)):
                    if isinstance(x, ast.Call) and u(x.func) == "len" and len(x.args) == 1 and self.is_pending(fl, x.args[0], nid) \
                            and isinstance(y, ast.Constant) and isinstance(y.value, int) and assign.get("pending") is not None:
                        lens = (1, 2, 7) if assign["pending"] else (0,)
                        vals = {cmp_eval(e.ops[0], y.value, n) if flip else cmp_eval(e.ops[0], n, y.value) for n in lens}
                        return vals.pop() if len(vals) == 1 else None
            return None

        return atom

    def first_run_atom(self, flow: Flow, value: bool) -> Callable[[ast.AST, int], Tri]:
        def atom(e: ast.AST, nid: int) -> Tri:
            if isinstance(e, (ast.Name, ast.Attribute)):
                o = flow.origin(e, nid, through_helpers=False)
                if o and all(x.kind == "expr" and u(x.node) == "self._first_run" for x in o):
                    return value
            if isinstance(e, ast.Compare) and len(e.ops) == 1 and isinstance(e.comparators[0], ast.Constant) \
                    and isinstance(e.comparators[0].value, bool) and isinstance(e.ops[0], (ast.Is, ast.IsNot, ast.Eq, ast.NotEq)):
                inner = atom(e.left, nid)
                if inner is not None:
                    same = inner == e.comparators[0].value
                    return same if isinstance(e.ops[0], (ast.Is, ast.Eq)) else not same
            return None

        return atom

    # nodes of `flow` that synchronise whenever _first_run is set (the anchored call, or a helper that must reach it)
    def sync_nodes(self, flow: Flow, _depth: int = 0) -> list[int]:
        out = []
        for nid, c in flow.calls(lambda c: True):
            if _is_sync_call(c) and isinstance(flow._parent.get(id(c)), ast.Await):
                out.append(nid)
            elif _depth < 3:
                ch = flow.child(c, nid)
                if ch is not None and isinstance(flow._parent.get(id(c)), ast.Await) == ch.fn.is_async:
                    inner = self.sync_nodes(ch, _depth + 1)
                    if inner and ch.cfg.path(ch.cfg.entry, [ch.cfg.exit], avoid=inner,
                                             edge_ok=pruned(ch.cfg, lifted(ch, self.first_run_atom(ch, True)), normal_only=False)) is None:
                        out.append(nid)
        return sorted(set(out))

    def fetching_nodes(self, flow: Flow) -> list[int]:
        """Nodes that (may) read input streams: fetch_next / receive / the synchronisation / asyncio.wait, also via helpers."""
        def fetches(c: ast.Call) -> bool:
            if _is_fetch_call(c) or _is_sync_call(c) or _asyncio_name(flow, c.func, "wait"):
                return True
            t = flow.callee(c)
            if t is not None:
                hs = [t] + transitive_helpers(Flow(flow.prog, t))
                return any(_is_fetch_call(x) or _is_sync_call(x) for h in hs for x in ast.walk(h.node) if isinstance(x, ast.Call))
            return False
        return flow.nodes_calling(fetches)


def check_all(run: Run, prog: Program, rnd: Round) -> None:
    fn, fl, cfg = rnd.raw, rnd.fl, rnd.fl.cfg
    run.analysed(fn.qual)
    w = rnd.wait
    wargs = positional(w, ["fs"])
    fs = wargs.get("fs")
    comp = None
    if fs is not None:
        o = fl.origin1(fs, rnd.wait_nid)
        if o is not None and o.kind == "expr" and isinstance(o.node, (ast.ListComp, ast.SetComp, ast.GeneratorExp)):
            comp = o.node
    def one_task_each(it_expr: ast.AST, target: ast.AST, elt: ast.AST) -> bool:
        """`elt` is create_task(<the iteration's fetcher>.fetch_next()) for an unfiltered walk over the fetcher table."""
        it = u(it_expr)
        if it not in ("self._metric_fetchers.items()", "self._metric_fetchers.values()", "self._metric_fetchers.keys()",
                      "self._metric_fetchers"):
            return False
        bases = set()
        if it.endswith(".items()") and isinstance(target, ast.Tuple) and len(target.elts) == 2:
            bases = {u(target.elts[1]), f"self._metric_fetchers[{u(target.elts[0])}]"}
        elif it.endswith(".values()") and isinstance(target, ast.Name):
            bases = {target.id}
        elif isinstance(target, ast.Name):
            bases = {f"self._metric_fetchers[{target.id}]"}
        inner = [c for c in ast.walk(elt) if isinstance(c, ast.Call) and _is_fetch_call(c)]
        tasks = [c for c in ast.walk(elt) if isinstance(c, ast.Call) and u(c.func).endswith("create_task")]
        return len(inner) == 1 and inner[0].func.attr == "fetch_next" and u(inner[0].func.value) in bases \
            and len(tasks) == 1 and bool(tasks[0].args) and tasks[0].args[0] is inner[0]  # type: ignore[attr-defined]

    ok = comp is not None and len(comp.generators) == 1
    if ok:
        assert comp is not None
        g = comp.generators[0]
        ok = not g.ifs and not g.is_async and one_task_each(g.iter, g.target, comp.elt)
    elif fs is not None:
        # accumulation-loop form: `tasks = []` ... `for .. in <table>: tasks.append(create_task(f.fetch_next()))`
        o = fl.origin1(fs, rnd.wait_nid)
        lst = o.node if o is not None and o.kind == "expr" else None
        empty = (isinstance(lst, ast.List) and not lst.elts) or (isinstance(lst, ast.Call) and u(lst.func) == "list" and not lst.args)
        apps = [(n, c) for n, c in fl.calls(lambda c: isinstance(c.func, ast.Attribute) and c.func.attr in (
            "append", "extend", "insert", "add", "remove", "pop", "clear")) if lst is not None and fl.is_node(c.func.value, lst, n)]  # type: ignore[union-attr]
        if empty and len(apps) == 1 and apps[0][1].func.attr == "append" and len(apps[0][1].args) == 1:  # type: ignore[union-attr]
            an, ac = apps[0]
            loops = [h for h in cfg.nodes if h.kind == "for" and h.id in fl.live and not isinstance(h.ast, ast.AsyncFor)
                     and an in cfg.reachable([m for m, lab in cfg.succ[h.id] if lab == "iter"], avoid=[h.id])]
            if len(loops) == 1:
                h = loops[0]
                body0 = [m for m, lab in cfg.succ[h.id] if lab == "iter"]
                nrm = lambda a, b, lab: not lab.startswith("exc:")  # noqa: E731
                ok = one_task_each(h.ast.iter, h.ast.target, ac.args[0]) \
                    and (body0[0] == an or cfg.path(body0[0], [h.id], avoid=[an], edge_ok=nrm) is None) \
                    and not any(isinstance(x, (ast.Break, ast.Return)) for st in h.ast.body for x in ast.walk(st)) \
                    and cfg.path(cfg.entry, [rnd.wait_nid], avoid=[h.id]) is None \
                    and cfg.path(an, [an], include_src=False, avoid=[h.id]) is None  # type: ignore[union-attr]
                if ok:
                    comp = h.ast  # the fetches of the round live in this loop
    run.check(ok, "C06.ALL", fn.qual, "one fetch_next() task per metric fetcher, no filter",
              "not every input of the formula is fetched in every round", node=w, file=fn.file)
    kws = {k.arg: k.value for k in w.keywords}
    rw = kws.get("return_when")
    run.check((rw is None or _asyncio_name(fl, rw, "ALL_COMPLETED")) and "timeout" not in kws and len(w.args) <= 1
              and None not in kws,
              "C06.ALL", fn.qual, "return_when=ALL_COMPLETED, no timeout",
              "the round does not wait for all inputs (a sample could be computed from a partial set of "
              "inputs while the rest is consumed by a later round)", node=w, file=fn.file)
    # pending / None -> no evaluation, no normal return
    start = [m for m, lab in cfg.succ[rnd.wait_nid] if not lab.startswith("exc:")]
    goals = rnd.eval_nodes + [cfg.exit]
    wit = None
    for assign in ({"pending": True, "none": None}, {"pending": False, "none": True}):
        ok_edge = pruned(cfg, lifted(fl, rnd.arrived_atom(assign)))
        for s in start:
            wit = wit or cfg.path(s, goals, edge_ok=ok_edge)
    sane = any(cfg.path(s, rnd.eval_nodes, edge_ok=pruned(cfg, lifted(fl, rnd.arrived_atom({"pending": False, "none": False})))) is not None
               for s in start)
    # ... and nothing is evaluated / returned without having awaited the round's tasks at all
    skip = cfg.path(cfg.entry, goals, avoid=[rnd.wait_nid])
    run.check(wit is None and sane and skip is None, "C06.ALL", fn.qual, "pending or closed inputs abort the round",
              "the formula is evaluated although some input did not deliver a sample", node=fn.node, file=fn.file,
              path=cfg.describe_path(wit or skip))
    # only other fetches: the first-run synchronisation
    others = [c for _nid, c in fl.calls(_is_fetch_call) if comp is None or not any(c is x for x in ast.walk(comp))]
    for h in transitive_helpers(fl):
        others += [c for c in ast.walk(h.node) if isinstance(c, ast.Call) and _is_fetch_call(c)]
    run.check(not others, "C06.ONE", fn.qual, "no extra fetch in a steady-state round",
              "apply() fetches an input a second time within one round", node=fn.node, file=fn.file)



def check_names(run: Run, prog: Program, rnd: Round) -> None:
    """C06.NAME: how a finished fetch task is mapped back to its stream.  The first-run synchronisation (and the
    re-synchronisation of diverged inputs) reads `task.get_name()` and advances `self._metric_fetchers[name]`; that
    is only the task's own stream if apply() named the task with the very key its fetcher is stored under."""
    fn, fl = rnd.raw, rnd.fl
    cls = prog.cls(FE)
    users = [(m, c) for m in cls.methods.values() for c in find_calls(m.node, lambda c: method_call(c, None, "get_name") and not c.args)]
    tasks = [(nid, c) for nid, c in fl.calls(lambda c: u(c.func).endswith("create_task") or u(c.func).endswith("ensure_future")
                                             or (isinstance(c.func, ast.Attribute) and c.func.attr == "Task"))
             if any(isinstance(x, ast.Call) and _is_fetch_call(x) for a in c.args for x in ast.walk(a))]
    if not users:
        run.ok("C06.NAME", f"{cls.qual}: finished fetch tasks are not identified by their task name")
        return
    if not tasks:
        raise AnalysisError(f"{fn.qual}: the synchronisation identifies streams by task name, but no task-creating call wraps fetch_next()")
    TABLE = "self._metric_fetchers"

    def table_iter(o: Org) -> str | None:
        """'items' / 'values' / 'keys' when the origin is an element of a walk over the fetcher table."""
        if o.kind != "iter" or o.node is None:
            return None
        t = u(o.node)
        return {f"{TABLE}.items()": "items", f"{TABLE}.values()": "values", f"{TABLE}.keys()": "keys", TABLE: "keys"}.get(t)

    for nid, c in tasks:
        coro = next(x for a in c.args for x in ast.walk(a) if isinstance(x, ast.Call) and _is_fetch_call(x))
        holder = coro.func.value  # type: ignore[union-attr]
        kw = next((k.value for k in c.keywords if k.arg == "name"), None)
        f_org = fl.origin(holder, nid)
        why = ""
        if kw is None:
            named_later = fl.calls(lambda k: method_call(k, None, "set_name"))
            if named_later:
                raise AnalysisError(f"{fn.qual}: fetch tasks are named through set_name(): idiom not modelled")
            why = "the task is created without a name (asyncio then calls it 'Task-<n>')"
        else:
            n_org = fl.origin(kw, nid)
            good = bool(n_org) and bool(f_org)
            for no in n_org:
                kind = table_iter(no)
                if kind == "items" and no.idx == 0:
                    good = good and all(table_iter(fo) == "items" and fo.idx == 1 and fo.node is no.node for fo in f_org)
                elif kind == "keys" and no.idx is None:
                    # `for k in table: create_task(table[k].fetch_next(), name=k)`
                    good = good and all(fo.kind == "expr" and isinstance(fo.node, ast.Subscript) and u(fo.node.value) == TABLE
                                        and all(q.kind == "iter" and q.node is no.node for q in fo.flow.origin(fo.node.slice, fo.nid)) for fo in f_org)
                else:
                    good = False
            if not good:
                why = (f"the task is named `{u(kw)}`, which is not the key its fetcher `{u(holder)}` is stored under in {TABLE} "
                       "(a decorated name, the fetcher's own attribute, a constant or another entry's key do not identify the entry)")
        where = ", ".join(sorted({m.name for m, _c in users}))
        run.check(not why, "C06.NAME", fn.qual, "create_task(<fetcher K>.fetch_next(), name=K)",
                  f"{why}, while {where}() finds the stream behind a finished task through `task.get_name()` and advances "
                  f"`{TABLE}[<that name>]`: as soon as one group of inputs lags (any start-up skew, or inputs that diverged later) "
                  "the lookup raises KeyError -- or drains ANOTHER input's stream -- FormulaEngine._run drops the round, the inputs "
                  "stay exactly as skewed and every following round fails the same way: no sample is ever emitted although all "
                  "inputs are available.  With lock-step inputs the names are only collected, never looked up, so nothing shows",
                  node=c, file=fn.file, instance=f"{fn.qual}: `{u(c)[:70]}` named with its fetcher's key")


def fetch_unit(prog: Program) -> Any:
    """MetricFetcher.fetch_next() as one unit of behaviour: every private callee read in (`_fetch_next`,
    however it is called, split or inlined), except the shared validity predicate."""
    return inline_all(prog, prog.func(f"{MF}.fetch_next"), stop={validity_name(prog) or "_is_value_valid"})


def check_one(run: Run, prog: Program) -> None:
    fn = prog.func(f"{MF}.fetch_next")
    run.analysed(fn.qual)
    unit = fetch_unit(prog)
    for nm in sorted(getattr(unit.node, "_inlined", ())):
        run.analysed(f"{MF}.{nm}")
    fl = Flow(prog, unit)
    cfg = fl.cfg

    def awaited(c: ast.Call) -> bool:
        return isinstance(fl._parent.get(id(c)), ast.Await)

    prim = [nid for nid, c in fl.calls(lambda c: method_call(c, "self._stream", "receive")) if awaited(c)]
    deleg = [nid for nid, c in fl.calls(lambda c: method_call(c, "self", "fetch_next_with_fallback")) if awaited(c)]
    unawaited = [c for _n, c in fl.calls(lambda c: method_call(c, "self._stream", "receive") or method_call(
        c, "self", "fetch_next_with_fallback")) if not awaited(c)]
    sources = sorted(set(prim + deleg))
    normal = lambda a, b, lab: not lab.startswith("exc:")  # noqa: E731
    wit = cfg.path(cfg.entry, [cfg.exit], avoid=sources, edge_ok=normal)
    run.check(bool(sources) and not unawaited and wit is None, "C06.ONE", fn.qual, "every path fetches the primary",
              "a round can complete without reading this input", node=fn.node, file=fn.file,
              path=cfg.describe_path(wit))
    twice = None
    for s in sources:
        twice = cfg.path(s, sources, include_src=False)
        if twice:
            break
    run.check(twice is None, "C06.ONE", fn.qual, "primary fetched at most once per round",
              "one round can read this input's stream twice (e.g. a retry): the stream then runs one "
              "sample ahead of the others and every later output mixes timestamps", node=fn.node,
              file=fn.file, path=cfg.describe_path(twice))
    fw = prog.func(f"{MF}.fetch_next_with_fallback")
    run.analysed(fw.qual)
    cfg2 = CFG(fw.node, fw.file)
    p2 = nodes_with_call(cfg2, lambda c: method_call(c, "self._stream", "receive"))
    wit = cfg2.path(cfg2.entry, [cfg2.exit], avoid=p2, edge_ok=normal)
    twice = None
    for s in p2:
        twice = twice or cfg2.path(s, p2, include_src=False)
    run.check(len(p2) == 1 and wit is None and twice is None, "C06.ONE", fw.qual,
              "primary received exactly once with fallback", "the primary stream is not read exactly once "
              "per round on the fallback-aware path", node=fw.node, file=fw.file, path=cfg2.describe_path(wit or twice))
    # nothing else in the fetcher's private helpers reads the primary stream behind fetch_next()'s back
    mfc = prog.cls(MF)
    covered = {"fetch_next", "fetch_next_with_fallback"} | set(getattr(unit.node, "_inlined", ()))
    stray = [(m, c) for m in mfc.methods.values() if m.name not in covered for c in find_calls(
        m.node, lambda c: method_call(c, "self._stream", "receive"))]
    run.check(not stray, "C06.ONE", fn.qual, "the primary stream is only read on the paths of fetch_next()",
              "the primary stream is also read by " + ", ".join(sorted({m.name for m, _c in stray})), node=fn.node, file=fn.file)
    # steps never receive
    for cls in step_classes(prog):
        m = cls.methods["apply"]
        bad = m.is_async or contains_await(m.node) or find_calls(
            m.node, lambda c: isinstance(c.func, ast.Attribute) and c.func.attr in ("receive", "fetch_next", "consume"))
        run.check(not bad, "C06.ONE", m.qual, f"{cls.name}.apply is synchronous and reads no stream",
                  "a formula step reads from a stream while the formula is evaluated", node=m.node, file=m.file)
    ap = prog.func(f"{MF}.apply")
    reads = {x.attr for x in ast.walk(ap.node) if isinstance(x, ast.Attribute) and u(x.value) == "self"}
    run.check("_next_value" in reads and "_stream" not in reads, "C06.ONE", ap.qual,
              "MetricFetcher.apply pushes the value fetched for this round",
              "MetricFetcher.apply does not push the sample stored by fetch_next", node=ap.node, file=ap.file)


def check_emit(run: Run, prog: Program, rnd: Round, rule: str = "C06.EMIT") -> None:
    """C06.EMIT: no timestamp is skipped by apply() itself -- when every input delivered a sample and the
    evaluation left its single value, apply() returns normally (first run: through the synchronisation;
    afterwards: directly); and what apply() asserts about a delivered sample is not its opposite."""
    fn, fl, cfg = rnd.raw, rnd.fl, rnd.fl.cfg
    stacks = [c.args[0] for _n, c in rnd.step_calls if c.args]

    def is_stack(e: ast.AST, nid: int) -> bool:
        o = fl.origin(e, nid)
        return bool(stacks) and bool(o) and any(names_eq(o, fl.origin(s_, fl.node_of(s_))) for s_ in stacks)

    def scene(first_run: bool) -> Callable[[ast.AST, int], Tri]:
        arrived = rnd.arrived_atom({"pending": False, "none": False})
        first = rnd.first_run_atom(fl, first_run)

        def val(e: ast.AST, nid: int) -> int | None:
            if isinstance(e, ast.Constant) and isinstance(e.value, int) and not isinstance(e.value, bool):
                return e.value
            if isinstance(e, ast.Call) and u(e.func) == "len" and len(e.args) == 1 and is_stack(e.args[0], nid):
                return 1
            if isinstance(e, ast.Name):
                o = fl.origin1(e, nid)
                if o is not None and o.kind == "expr" and o.node is not None and o.nid is not None and not isinstance(o.node, ast.Name):
                    return val(o.node, o.nid)
            return None

        def atom(e: ast.AST, nid: int) -> Tri:
            for a in (arrived, first):
                v = a(e, nid)
                if v is not None:
                    return v
            if isinstance(e, ast.Compare) and len(e.ops) == 1:
                a1, b1 = val(e.left, nid), val(e.comparators[0], nid)
                if a1 is not None and b1 is not None:
                    return cmp_eval(e.ops[0], a1, b1)
            ta = truth_atom(e)
            if ta is not None and rnd.is_sample(fl, ta[0], nid):
                return not ta[1]  # every task delivered a sample
            return None
        return lifted(fl, atom)

    start = [m for m, lab in cfg.succ[rnd.wait_nid] if not lab.startswith("exc:")]
    stuck = [fr for fr in (True, False) if not any(
        cfg.path(s_, [cfg.exit], edge_ok=pruned(cfg, scene(fr))) is not None for s_ in start)]
    run.check(not stuck, rule, fn.qual, "a complete round returns its sample",
              "with every input delivered and a well-formed evaluation (one residual value) apply() cannot return normally"
              + (f" ({'first run' if stuck and stuck[0] else 'steady state'})" if stuck else "")
              + ": the round is dropped by FormulaEngine._run and its timestamp is skipped", node=fn.node, file=fn.file)
    at = scene(False)
    bad = [n for n in cfg.nodes if n.id in fl.live and isinstance(n.ast, ast.Assert)
           and tri(n.ast.test, lambda e, n=n: at(e, n.id)) is False]
    run.check(not bad, rule, fn.qual, "assertions about delivered samples hold",
              "apply() asserts that a delivered sample is missing: every round raises and is dropped",
              node=(bad[0].ast if bad else fn.node), file=fn.file)


def _is_sample_ctor(c: ast.Call) -> bool:
    return u(c.func) in ("Sample", "Sample[QuantityT]")


def check_ts(run: Run, prog: Program, rnd: Round) -> None:
    fn, fl, cfg = rnd.raw, rnd.fl, rnd.fl.cfg
    sites = result_sites(fl, _is_sample_ctor)
    if not sites:
        raise AnalysisError(f"{fn.qual}: Sample returns not found")
    sync_fn = prog.func(f"{FE}.{SYNC}")
    sync_params = [p for p in sync_fn.params if p != "self"]

    def ts_leaf_ok(o: Org) -> bool:
        if o.kind != "expr" or o.node is None:
            return False
        e = o.node
        if isinstance(e, ast.Await) and isinstance(e.value, ast.Call) and _is_sync_call(e.value):
            arg = positional(e.value, sync_params).get(sync_params[0]) if sync_params else None
            return arg is not None and rnd.is_done(o.flow, arg, o.nid)
        if isinstance(e, ast.Attribute) and e.attr == "timestamp":
            return rnd.is_sample(o.flow, e.value, o.nid)
        return False

    bad: list[str] = []
    for s in sites:
        ts = s.args(["timestamp", "value"]).get("timestamp")
        if ts is None:
            bad.append(f"{u(s.call)}: no timestamp argument")
            continue
        leaves = s.flow.origin(ts, s.nid)
        bad += [f"{u(s.call)}: timestamp <- {o.text()}" for o in leaves if not ts_leaf_ok(o)]
        if not leaves:
            bad.append(f"{u(s.call)}: timestamp of unknown origin")
    scope = [fn.node] + [h.node for h in transitive_helpers(fl)]
    nowcalls = [c for nd in scope for c in find_calls(nd, lambda c: "now" in u(c.func) or "time()" in u(c))]
    run.check(not bad and not nowcalls, "C06.TS", fn.qual, "emitted timestamp <- fetched sample timestamps only",
              "the emitted timestamp is not derived from the timestamps of this round's fetched samples"
              + (f" ({'; '.join(bad[:3])})" if bad else ""), node=fn.node, file=fn.file)
    # nothing is fetched once step evaluation has begun
    fetching = rnd.fetching_nodes(fl)
    wit = None
    for e in rnd.eval_nodes:
        wit = wit or cfg.path(e, fetching, include_src=False)
    run.check(wit is None, "C06.TS", fn.qual, "evaluate after the round's timestamp is fixed",
              "the formula steps are evaluated before the first-run synchronisation / timestamp selection: "
              "the first sample is stamped with the synchronised timestamp but computed from the lagging "
              "streams' older samples", node=fn.node, file=fn.file, path=cfg.describe_path(wit))
    # first-run switch
    syncs = rnd.sync_nodes(fl)
    wit = cfg.path(cfg.entry, rnd.eval_nodes + [cfg.exit], avoid=syncs,
                   edge_ok=pruned(cfg, lifted(fl, rnd.first_run_atom(fl, True)), normal_only=False))
    run.check(bool(syncs) and wit is None, "C06.TS", fn.qual, "first run -> synchronise",
              "the first round does not synchronise the inputs", node=fn.node, file=fn.file, path=cfg.describe_path(wit))
    # ... and on the first run the emitted timestamp is the one the inputs were synchronised to
    memo: dict[int, Any] = {}

    def first_scn(flow: Flow) -> Any:
        if id(flow) not in memo:
            base = rnd.first_run_atom(flow, True)

            def atom(e: ast.AST, nid: int) -> Tri:
                v = base(e, nid)
                if v is None:
                    ta = truth_atom(e)
                    if ta is not None:  # the synchronisation returns a timestamp, never None (C06.SYNC)
                        o = flow.origin(ta[0], nid, through_helpers=False, scenario=first_scn)
                        if o and all(q.kind == "expr" and isinstance(q.node, ast.Await) and isinstance(q.node.value, ast.Call)
                                     and _is_sync_call(q.node.value) for q in o):
                            return not ta[1]
                return v

            memo[id(flow)] = pruned(flow.cfg, lifted(flow, atom), normal_only=False)
        return memo[id(flow)]

    stale: list[str] = []
    seen_first = 0
    for s in sites:
        if any(f2.cfg.path(f2.cfg.entry, [n2], edge_ok=first_scn(f2)) is None for f2, n2 in s.chain):
            continue
        ts = s.args(["timestamp", "value"]).get("timestamp")
        leaves = s.flow.origin(ts, s.nid, scenario=first_scn) if ts is not None else []
        seen_first += 1
        stale += [f"{u(s.call)}: timestamp <- {o.text()}" for o in leaves
                  if not (o.kind == "expr" and isinstance(o.node, ast.Await) and isinstance(o.node.value, ast.Call)
                          and _is_sync_call(o.node.value))]
        if not leaves:
            stale.append(f"{u(s.call)}: timestamp of unknown origin")
    run.check(seen_first > 0 and not stale, "C06.TS", fn.qual, "first run: emitted timestamp <- the synchronised timestamp",
              "on the first run the emitted sample is not stamped with the timestamp the inputs were synchronised to "
              "(the result of the synchronisation is not what reaches the Sample): the value is computed from the "
              "inputs of the latest first timestamp but labelled with some input's own first timestamp"
              + (f" ({'; '.join(stale[:2])})" if stale else ""), node=fn.node, file=fn.file)
    # evaluator state: _first_run written only in __init__ (True) and by the synchronisation (False)
    cls = prog.cls(FE)
    writes = []
    for m in cls.methods.values():
        for s in ast.walk(m.node):
            tgts: list[ast.AST] = []
            val: ast.AST | None = None
            if isinstance(s, ast.Assign):
                tgts, val = [x for t in s.targets for x in ast.walk(t)], s.value
            elif isinstance(s, (ast.AnnAssign, ast.AugAssign)):
                tgts, val = list(ast.walk(s.target)), (s.value if isinstance(s, ast.AnnAssign) else None)
            elif isinstance(s, ast.NamedExpr):
                continue
            elif isinstance(s, ast.Delete):
                tgts = [x for t in s.targets for x in ast.walk(t)]
            elif isinstance(s, ast.Call) and u(s.func) in ("setattr", "delattr") and len(s.args) >= 2 and "_first_run" in u(s.args[1]):
                writes.append((m.name, "?"))
            if any(isinstance(t, ast.Attribute) and t.attr == "_first_run" for t in tgts):
                if isinstance(s, ast.AnnAssign) and s.value is None:
                    continue  # bare annotation, no write
                # a non-anchored private helper only used by the synchronisation counts as part of it
                where = m.name
                if where not in ("__init__", SYNC) and where.startswith("_") and not where.startswith("__"):
                    users = {c.name for c in cls.methods.values() if c is not m and find_calls(
                        c.node, lambda k, _n=where: method_call(k, "self", _n))}
                    if users == {SYNC}:
                        where = SYNC
                writes.append((where, u(val) if val is not None and not isinstance(s, ast.AugAssign) else "?"))
    good = sorted(writes) == [("__init__", "True"), (SYNC, "False")]
    if not good and resyncs_on_divergence(prog)[0]:
        run.ok("C06.TS", f"{cls.qual}: writers of _first_run need not be restricted (inputs are re-aligned whenever their timestamps differ)")
    else:
        run.check(good, "C06.TS",
                  cls.qual, "writers of _first_run: __init__ (True), synchronisation (False)",
                  f"the first-run flag is toggled elsewhere: {sorted(writes)}", node=cls.node, file=cls.module.rel)


# ---------------------------------------------------------------------------------------------
def check_sync(run: Run, prog: Program, rule: str = "C06.SYNC") -> None:
    bind_sync(prog)
    raw = prog.func(f"{FE}.{SYNC}")
    run.analysed(raw.qual)
    fn = spliced(prog, raw)
    fl = Flow(prog, fn)
    cfg = fl.cfg
    params = [p for p in fl.params if p != "self"]
    if not params:
        raise AnalysisError(f"{raw.qual}: no parameter carrying the finished fetch tasks")
    tasks_param = params[0]
    normal = lambda a, b, lab: not lab.startswith("exc:")  # noqa: E731

    def strip_iter(e: ast.AST) -> ast.AST:
        while isinstance(e, ast.Call) and u(e.func) in ("iter", "list", "tuple", "set", "sorted") and len(e.args) == 1:
            e = e.args[0]
        return e

    def is_task(e: ast.AST, nid: int) -> tuple[bool, int | None]:
        """Loop variable over the tasks parameter; returns the loop's node too."""
        loops = set()
        out = fl.origin(e, nid)
        for o in out:
            if o.kind != "iter" or o.idx is not None or o.node is None:
                return False, None
            src = fl.origin(strip_iter(o.node), o.nid)
            if not src or not all(s.kind == "param" and s.name == tasks_param for s in src):
                return False, None
            loops.add(o.nid)
        return (len(loops) == 1), (next(iter(loops)) if len(loops) == 1 else None)

    def task_call(e: ast.AST, nid: int, attr: str) -> tuple[bool, int | None]:
        out = fl.origin(e, nid)
        loop = None
        for o in out:
            c = o.call()
            if c is None or not isinstance(c.func, ast.Attribute) or c.func.attr != attr or c.args or c.keywords:
                return False, None
            ok, lp = is_task(c.func.value, o.nid)  # type: ignore[arg-type]
            if not ok or (loop is not None and lp != loop):
                return False, None
            loop = lp
        return bool(out), loop

    def is_empty(e: ast.AST, kinds: tuple[str, ...]) -> bool:
        if isinstance(e, ast.Dict) and "dict" in kinds:
            return not e.keys
        if isinstance(e, ast.List) and "list" in kinds:
            return not e.elts
        return isinstance(e, ast.Call) and u(e.func) in kinds and not e.args and not e.keywords

    def same_ts(a: ast.AST, an: int, b: ast.AST, bn: int) -> bool:
        """Both denote `<the same sample>.timestamp`."""
        oa, ob = fl.origin(a, an), fl.origin(b, bn)
        if not oa or not ob or not all(o.kind == "expr" and isinstance(o.node, ast.Attribute) and o.node.attr == "timestamp" for o in oa + ob):
            return False
        va = [q for o in oa for q in fl.origin(o.node.value, o.nid)]  # type: ignore[union-attr]
        vb = [q for o in ob for q in fl.origin(o.node.value, o.nid)]  # type: ignore[union-attr]
        return names_eq(va, vb)

    def created_when_absent(ins: int, key: ast.AST, g: ast.AST, lp: int) -> bool:
        """`G[K].append(..)` form: an empty list is stored under K exactly when K is not yet a key
        (`if K not in G: G[K] = []`, `if G.get(K) is None: ...`), before the append."""
        def is_g(e: ast.AST, nid: int) -> bool:
            o = fl.origin(e, nid)
            return bool(o) and all(x.kind == "expr" and x.node is g for x in o)

        stores = []
        for n in cfg.nodes:
            a = n.ast
            if n.id in fl.live and n.kind == "stmt" and isinstance(a, ast.Assign) and len(a.targets) == 1 \
                    and isinstance(a.targets[0], ast.Subscript) and is_g(a.targets[0].value, n.id):
                if is_empty(a.value, ("list",)) and same_ts(a.targets[0].slice, n.id, key, ins):
                    stores.append(n.id)
                else:
                    return False  # some other write into the grouping table
        if len(stores) != 1:
            return False

        def scn(present: bool) -> Callable[[ast.AST, int], Tri]:
            def atom(e: ast.AST, nid: int) -> Tri:
                if isinstance(e, ast.Compare) and len(e.ops) == 1 and isinstance(e.ops[0], (ast.In, ast.NotIn)) \
                        and is_g(e.comparators[0].func.value if isinstance(e.comparators[0], ast.Call) and isinstance(
                            e.comparators[0].func, ast.Attribute) and e.comparators[0].func.attr == "keys" else e.comparators[0], nid) \
                        and same_ts(e.left, nid, key, ins):
                    return present if isinstance(e.ops[0], ast.In) else not present
                ta = truth_atom(e)
                if ta is not None:
                    c = ta[0]
                    o = fl.origin1(c, nid)
                    c = o.node if o is not None and o.kind == "expr" and o.node is not None else c
                    if isinstance(c, ast.Call) and isinstance(c.func, ast.Attribute) and c.func.attr == "get" and len(c.args) == 1 \
                            and is_g(c.func.value, nid) and same_ts(c.args[0], nid, key, ins):
                        return (not present) if ta[1] else present
                return None
            return atom

        first = [m for m, lab in cfg.succ[lp] if lab == "iter"]
        absent = pruned(cfg, lifted(fl, scn(False)))
        present = pruned(cfg, lifted(fl, scn(True)))
        return bool(first) and cfg.path(first[0], [ins], avoid=stores, edge_ok=absent) is None \
            and (first[0] in stores or cfg.path(first[0], stores, edge_ok=absent) is not None) \
            and first[0] not in stores and cfg.path(first[0], stores, edge_ok=present) is None

    # ---- S1: grouping by first timestamp
    groups: list[tuple[int, ast.AST, int]] = []  # (insertion node, dict-creating expression, loop node)
    for nid, c in fl.calls(lambda c: isinstance(c.func, ast.Attribute) and c.func.attr == "append" and len(c.args) == 1):
        tgt = c.func.value  # type: ignore[union-attr]
        key = holder = None
        if isinstance(tgt, ast.Call) and isinstance(tgt.func, ast.Attribute) and tgt.func.attr == "setdefault" \
                and len(tgt.args) == 2 and is_empty(tgt.args[1], ("list",)):
            key, holder = tgt.args[0], tgt.func.value
        indexed = False
        if key is None and isinstance(tgt, ast.Subscript) and isinstance(tgt.ctx, ast.Load):
            key, holder, indexed = tgt.slice, tgt.value, True  # `G[K].append(N)`: the list must have been created, see below
        if key is None or holder is None:
            continue
        ko = fl.origin(key, nid)
        if not ko or not all(o.kind == "expr" and isinstance(o.node, ast.Attribute) and o.node.attr == "timestamp" for o in ko):
            continue
        lp = None
        good = True
        for o in ko:
            ok, l1 = task_call(o.node.value, o.nid, "result")  # type: ignore[union-attr,arg-type]
            good = good and ok and (lp is None or lp == l1)
            lp = l1
        okn, l2 = task_call(c.args[0], nid, "get_name")
        ho = fl.origin1(holder, nid)
        if good and okn and l2 == lp and lp is not None and ho is not None and ho.kind == "expr" and ho.node is not None \
                and is_empty(ho.node, ("dict",)) and (not indexed or created_when_absent(nid, key, ho.node, lp)):
            groups.append((nid, ho.node, lp))
    ok = len(groups) == 1
    G: ast.AST | None = None
    latest_calls: list[ast.Call] = []

    def is_G(e: ast.AST, nid: int | None) -> bool:
        if isinstance(e, ast.Call) and isinstance(e.func, ast.Attribute) and e.func.attr == "keys" and not e.args:
            e = e.func.value
        o = fl.origin(e, nid)
        return G is not None and bool(o) and all(x.kind == "expr" and x.node is G for x in o)

    if ok:
        ins, G, lp = groups[0]
        first = [m for m, lab in cfg.succ[lp] if lab == "iter"]
        # every task is grouped: no normal way round the loop body that skips the insertion
        ok = bool(first) and first[0] != lp and (first[0] == ins or cfg.path(first[0], [lp], avoid=[ins], edge_ok=normal) is None) \
            and not any(isinstance(x, (ast.Break, ast.Return)) for st in cfg.nodes[lp].ast.body for x in ast.walk(st))  # type: ignore[union-attr]
        # ... and with a delivered sample (apply() only gets here when every task has one) it IS grouped
        def delivered(e: ast.AST, nid: int) -> Tri:
            ta = truth_atom(e)
            if ta is not None and task_call(ta[0], nid, "result")[0]:
                return not ta[1]
            return None
        ok = ok and cfg.path(first[0], [ins], edge_ok=pruned(cfg, lifted(fl, delivered))) is not None
        latest_calls = [c for nid, c in fl.calls(lambda c: u(c.func) == "max" and len(c.args) == 1 and not c.keywords)
                        if is_G(c.args[0], nid)]
        # the grouping is complete before the latest timestamp is taken
        ok = ok and bool(latest_calls) and all(
            cfg.path(fl.node_of(c), [ins], include_src=False) is None for c in latest_calls)
    run.check(ok, rule, raw.qual, "group by first timestamp; latest = max",
              "inputs are not grouped by their first timestamp with the latest one as the target",
              node=raw.node, file=raw.file)

    def is_latest(e: ast.AST, nid: int | None) -> bool:
        o = fl.origin(e, nid)
        return bool(o) and all(x.kind == "expr" and any(unawait(x.node) is c for c in latest_calls) for x in o)

    # ---- S2: per group, drain while ts < latest
    def items_of_G(e: ast.AST | None, nid: int) -> bool:
        return isinstance(e, ast.Call) and isinstance(e.func, ast.Attribute) and e.func.attr == "items" and not e.args \
            and is_G(e.func.value, nid)

    def group_source(n: Any) -> ast.comprehension | None | bool:
        """The loop walks the (timestamp, names) groups: directly (`G.items()` -> True), or a pre-selected list of
        them (`[(ts, ns) for ts, ns in G.items() if ...]` -> its clause; the filter is judged below)."""
        if not (isinstance(n.ast.target, ast.Tuple) and len(n.ast.target.elts) == 2):
            return False
        if items_of_G(n.ast.iter, n.id):
            return True
        o = fl.origin1(n.ast.iter, n.id)
        c = o.node if o is not None and o.kind == "expr" else None
        if isinstance(c, ast.Call) and u(c.func) in ("list", "tuple") and len(c.args) == 1:
            c = c.args[0]
        if isinstance(c, (ast.ListComp, ast.GeneratorExp)) and len(c.generators) == 1 and not c.generators[0].is_async:
            g = c.generators[0]
            if items_of_G(g.iter, o.nid) and isinstance(g.target, ast.Tuple) and len(g.target.elts) == 2 \
                    and all(isinstance(t, ast.Name) for t in g.target.elts) and isinstance(c.elt, ast.Tuple) \
                    and [u(x) for x in c.elt.elts] == [u(x) for x in g.target.elts]:
                return g
        return False

    outer = [n for n in cfg.nodes if n.kind == "for" and n.id in fl.live and not isinstance(n.ast, ast.AsyncFor) and group_source(n)]
    ok = bool(latest_calls) and len(outer) == 1
    detail = "no loop over the timestamp groups"
    o_id = outer[0].id if ok else -1
    if ok:
        o_iter = outer[0].ast.iter  # type: ignore[union-attr]
        o_src = group_source(outer[0])
        pre_iter = o_src.iter if isinstance(o_src, ast.comprehension) else None
        body0 = [m for m, lab in cfg.succ[o_id] if lab == "iter"]
        region_o = cfg.reachable(body0, avoid=[o_id], edge_ok=normal)
        fetched: list[ast.AST] = []  # awaited fetch_next() calls of the drain pass (filled below)

        def group_ts(o: Org) -> bool:
            return o.kind == "iter" and o.idx == 0 and (o.node is o_iter or (pre_iter is not None and o.node is pre_iter))

        def cur_ts(o: Org) -> bool:
            return group_ts(o) or (o.kind == "expr" and isinstance(o.node, ast.Attribute) and o.node.attr == "timestamp"
                                   and fl.is_node_any(o.node.value, fetched, o.nid))

        def rel_atom(rel: str) -> Callable[[ast.AST, int], Tri]:
            val = {"lt": -1, "eq": 0, "gt": 1}[rel]

            def atom(e: ast.AST, nid: int) -> Tri:
                if not (isinstance(e, ast.Compare) and len(e.ops) == 1):
                    return None
                a, b = e.left, e.comparators[0]
                for x, y, flip in ((a, b, False), (b, a, True)):
                    if is_latest(y, nid):
                        xo = fl.origin(x, nid)
                        if xo and all(cur_ts(q) for q in xo):
                            return cmp_eval(e.ops[0], 0, val) if flip else cmp_eval(e.ops[0], val, 0)
                return None

            return atom

        whiles = [n for n in cfg.nodes if n.kind == "while" and n.id in region_o
                  and any(is_latest(x, n.id) for x in ast.walk(n.ast.test))]  # type: ignore[union-attr]
        ok = len(whiles) == 1
        detail = "the groups are not drained by one loop running while their timestamp is behind the latest"
        if ok and isinstance(o_src, ast.comprehension):
            # a pre-selection of the groups must keep every lagging one
            sel_nid = fl.node_of(o_src.iter)
            lt_atom = lifted(fl, rel_atom("lt"))
            ok = all(tri(cond, lambda e: lt_atom(e, sel_nid)) is True for cond in o_src.ifs)
            detail = "the groups that are synchronised are pre-selected by a condition that can drop a lagging group"
        if ok:
            w = whiles[0]
            wtrue = [m for m, lab in cfg.succ[w.id] if lab == "true"]
            wfalse = [m for m, lab in cfg.succ[w.id] if lab == "false"]
            region_w = cfg.reachable(wtrue, avoid=[w.id], edge_ok=normal)
            inner = [n for n in cfg.nodes if n.kind == "for" and n.id in region_w
                     and all(q.kind == "iter" and q.idx == 1 and q.node is o_iter for q in fl.origin(n.ast.iter, n.id))]  # type: ignore[union-attr]
            ok = len(inner) == 1 and not ({o_id, cfg.exit} & region_w) and \
                (wtrue[0] == inner[0].id or cfg.path(wtrue[0], [w.id], avoid=[inner[0].id], edge_ok=normal) is None)
            detail = ("the drain loop does not advance *every* stream of the lagging group in each pass "
                      "(`while ts < latest: for name in names: fetch_next()`): with the loops interchanged "
                      "the shared timestamp variable stops the draining after the first stream and the "
                      "others stay behind forever")
            if ok:
                f = inner[0]
                fbody = [m for m, lab in cfg.succ[f.id] if lab == "iter"]
                region_f = cfg.reachable(fbody, avoid=[f.id], edge_ok=normal)
                name_var = f.ast.target  # type: ignore[union-attr]
                fetch_sites = []
                for nid, c in fl.calls(lambda c: method_call(c, None, "fetch_next")):
                    if nid not in region_f:
                        continue
                    src = fl.origin1(c.func.value, nid)  # type: ignore[union-attr]
                    good = src is not None and src.kind == "expr" and isinstance(src.node, ast.Subscript) \
                        and all(q.kind == "expr" and u(q.node) == "self._metric_fetchers" for q in fl.origin(src.node.value, src.nid)) \
                        and isinstance(name_var, ast.Name) \
                        and all(q.kind == "iter" and q.nid == f.id for q in fl.origin(src.node.slice, src.nid)) \
                        and isinstance(fl._parent.get(id(c)), ast.Await)
                    fetch_sites.append((nid, c, good))
                # every name of the group is visited in each pass: the pass is only left when exhausted
                closed = not any(isinstance(x, (ast.Break, ast.Return)) for st in w.ast.body for x in ast.walk(st))  # type: ignore[union-attr]
                ok = len(fetch_sites) == 1 and fetch_sites[0][2] and closed
                detail = "the drain pass does not fetch from the group's fetchers and track their timestamp"
                if ok:
                    f_nid, f_call, _ = fetch_sites[0]
                    fetched.append(f_call)
                    # the variable compared in the loop test follows the group's timestamp, then the fetched sample's
                    ts_names = {x.id for x in ast.walk(w.ast.test) if isinstance(x, ast.Name)  # type: ignore[union-attr]
                                and not is_latest(x, w.id) and any(cur_ts(q) for q in fl.origin(x, w.id))}
                    ok = len(ts_names) == 1
                    if ok:
                        tsv = next(iter(ts_names))

                        def writes_ts(n: int) -> bool:
                            return any(isinstance(t, ast.Name) and t.id == tsv for t in fl._writes(n))

                        w_or = fl.origin(ast.Name(id=tsv, ctx=ast.Load()), w.id)
                        upd = [n for n in region_w if writes_ts(n)]
                        outside = [n for n in region_o - region_w - {w.id} if writes_ts(n)]
                        # at the loop test the variable holds the group's timestamp or the last fetched one;
                        # one unconditional update per fetched sample; outside the loop only (re)set to the group's
                        ok = all(cur_ts(q) for q in w_or) and any(group_ts(q) for q in w_or) and len(upd) == 1 \
                            and upd[0] in region_f and cfg.path(f_nid, [upd[0]], edge_ok=normal) is not None \
                            and cfg.path(fbody[0], [f.id], avoid=[upd[0]], edge_ok=normal) is None \
                            and (fbody[0] == f_nid or cfg.path(fbody[0], [f.id], avoid=[f_nid], edge_ok=normal) is None) \
                            and not any(n in cfg.reachable(wfalse, avoid=[o_id], edge_ok=normal) for n in outside)
                        # a fresh value for every group: the loop target itself, or a copy made on every way to the loop
                        tgt0 = outer[0].ast.target.elts[0]  # type: ignore[union-attr]
                        if ok and not (isinstance(tgt0, ast.Name) and tgt0.id == tsv):
                            ok = bool(outside) and (body0[0] in outside or (
                                body0[0] != w.id and cfg.path(body0[0], [w.id], avoid=outside, edge_ok=normal) is None))
                if ok:
                    # the loop runs exactly while ts < latest
                    vals = [pruned(cfg, lifted(fl, rel_atom(r))) for r in ("lt", "eq", "gt")]
                    t_ok = [(e(w.id, wtrue[0], "true"), e(w.id, wtrue[0], "false")) for e in vals]
                    ok = t_ok == [(True, False), (False, True), (False, True)]
                    detail = "groups are not drained exactly while their timestamp is before the latest one (`while ts < latest`)"
                if ok:
                    # a lagging group always enters the drain pass; an aligned one never does
                    lt = pruned(cfg, lifted(fl, rel_atom("lt")))
                    eq = pruned(cfg, lifted(fl, rel_atom("eq")))
                    ok = cfg.path(body0[0], [o_id, cfg.exit], avoid=[f.id], edge_ok=lt) is None \
                        and (body0[0] == f.id or cfg.path(body0[0], [f.id], edge_ok=eq) is None) \
                        and cfg.path(body0[0], [o_id], avoid=[f.id], edge_ok=eq) is not None
                    detail = "a lagging group is not drained, or an aligned group is"
                def of_current(rel: str) -> Callable[[ast.AST, int], Tri]:
                    """rel_atom(), but only for comparisons of the timestamp the drain loop tracks -- a test of the group's
                    own (stale) first timestamp after the drain says nothing about where the drain ended."""
                    base = rel_atom(rel)

                    def atom(e: ast.AST, nid: int) -> Tri:
                        v = base(e, nid)
                        if v is not None and isinstance(e, ast.Compare):
                            now = fl.origin(ast.Name(id=tsv, ctx=ast.Load()), nid)
                            if not any(names_eq(fl.origin(x, nid), now) for x in (e.left, e.comparators[0]) if not is_latest(x, nid)):
                                return None
                        return v

                    return atom

                if ok:
                    gt = pruned(cfg, lifted(fl, of_current("gt")))
                    ok = bool(wfalse) and all(m != o_id and cfg.path(m, [o_id, cfg.exit], edge_ok=gt) is None for m in wfalse)
                    detail = "overshooting the target timestamp is not an error"
                if ok:
                    # ... and a group that has just been brought up to the latest timestamp is done: the next group follows
                    eq2 = pruned(cfg, lifted(fl, rel_atom("eq")))
                    ok = all(m == o_id or cfg.path(m, [o_id], edge_ok=eq2) is not None for m in wfalse)
                    detail = "a group that reached the latest timestamp exactly is treated as an error (the synchronisation can never succeed)"
                if ok:
                    # a fetched sample is present while the inputs deliver: an assertion about it must not say the opposite
                    def present(e: ast.AST, nid: int) -> Tri:
                        ta = truth_atom(e)
                        if ta is not None and fl.is_node_any(ta[0], fetched, nid):
                            return not ta[1]
                        return None
                    bad_asserts = [n for n in region_f if isinstance(cfg.nodes[n].ast, ast.Assert)
                                   and tri(cfg.nodes[n].ast.test, lambda e, n=n: lifted(fl, present)(e, n)) is False]  # type: ignore[union-attr]
                    ok = not bad_asserts
                    detail = "the drain pass asserts that the sample it just fetched is missing"
    run.check(ok, rule, raw.qual, "while ts < latest: for name in names: fetch_next()", detail,
              node=raw.node, file=raw.file)
    # ---- S3: _first_run cleared only after the group loop completed normally
    clr = [n.id for n in cfg.nodes if n.id in fl.live and any(
        isinstance(t, ast.Attribute) and t.attr == "_first_run" for t in fl._writes(n.id))]
    ok = len(clr) == 1 and o_id >= 0
    if ok:
        a = cfg.nodes[clr[0]].ast
        body0 = [m for m, lab in cfg.succ[o_id] if lab == "iter"]
        ok = isinstance(a, (ast.Assign, ast.AnnAssign)) and isinstance(a.value, ast.Constant) and a.value.value is False \
            and cfg.path(cfg.entry, clr, avoid=[o_id]) is None \
            and clr[0] not in cfg.reachable(body0, avoid=[o_id]) \
            and all(lab == "done" for m, lab in cfg.succ[o_id] if clr[0] in cfg.reachable([m], avoid=[o_id]))
    resync = resyncs_on_divergence(prog)
    if not ok and resync[0]:
        # the consumer re-aligns whenever the fetched samples differ in timestamp: a failed first synchronisation is
        # retried in the next round whatever the flag says, so where the flag is cleared no longer matters
        run.ok(rule, f"{raw.qual}: _first_run bookkeeping is redundant ({resync[1]})")
    else:
        run.check(ok, rule, raw.qual, "_first_run = False only after all groups are synchronised",
                  "the first-run flag is cleared before the synchronisation completed (a failed "
                  "synchronisation would never be retried)", node=raw.node, file=raw.file)
    # ---- S4: the synchronised timestamp is what is returned
    rets = fl.returns()
    ok = bool(rets) and bool(latest_calls) and all(
        cfg.nodes[r].ast.value is not None and is_latest(cfg.nodes[r].ast.value, r) for r in rets)  # type: ignore[union-attr]
    run.check(ok, rule, raw.qual, "returns the latest first timestamp",
              "the synchronised timestamp is not the one returned", node=raw.node, file=raw.file)


# ---------------------------------------------------------------------------------------------
def check_realign(run: Run, prog: Program) -> None:
    """C06.REALIGN ("... its value is computed only from the input samples stamped T"): after the first run apply() stamps the
    round with the timestamp of an arbitrary fetched sample, which is only right while all fetched samples of the round carry
    that timestamp.  Nothing guarantees that: an input that is the output of another formula engine has a hole whenever that
    engine drops a round or re-synchronises, a fallback takes over with its own first sample, a resampled stream skips.
    So in the steady state the *only* thing that may decide between "evaluate" and "re-synchronise" is the set of
    timestamps of the round's samples: on no path a round whose samples carry 2 (or 3) different timestamps reaches a
    return without the synchronisation routine having been awaited -- whatever else the branch consults (a configuration
    flag, "this formula has a fallback", the number of inputs, a round counter) is explored both ways."""
    raw = prog.func(f"{FE}.apply")
    run.analysed(raw.qual)
    ok, why = resyncs_on_divergence(prog)
    blame = getattr(prog, "_resync_blame", None) or []
    run.check(ok, "C06.REALIGN", raw.qual, "steady state: samples of different timestamps are never combined (re-synchronised, unconditionally)",
              f"{why}.  The round is then evaluated from samples of different timestamps and stamped with the timestamp of an "
              "arbitrary one of them, and -- one fetch per input per round from then on -- every later round is shifted the same "
              "way: the inputs never get back in step.  Inputs get out of step in the steady state whenever ONE of them has a "
              "hole (the output of a composed formula engine that dropped or re-synchronised a round, a fallback that took over "
              "with its own first sample, a stream that skipped), so the re-synchronisation may depend on the timestamps of the "
              "round's samples (and on the first run) only -- not on whether the formula has a fallback, on a flag, on the "
              "number of inputs or on how many rounds have passed", node=(blame[0] if blame else raw.node), file=raw.file)


def check_send(run: Run, prog: Program) -> None:
    """C06.SEND ("... advance by exactly one input step with none skipped, repeated or reordered"): what the loop that
    drives a formula hands to its channel is the sample of *this* round, once.

      * a round whose evaluation raised sends nothing: no `send` is reachable from the exception edge of
        `await evaluator.apply()` before the next apply() (a try/except/else flattened without `continue`, a `finally`
        that sends, a handler that falls through);
      * the argument of every `send` is the value this round's apply() returned (not a local left over from an
        earlier round, not state of the engine);
      * between two evaluations a sample is sent at most once.
    (That every evaluated sample IS sent is C06.TOTAL.)"""
    lp = engine_loop(prog)
    raw, fl, cfg, a = lp.raw, lp.fl, lp.cfg, lp.a
    run.analysed(raw.qual)
    if not lp.sends:
        return  # reported by C06.TOTAL (every evaluated sample is sent)
    wit = None
    for m, lab in lp.exc_targets:
        w = cfg.path(m, lp.send_nodes, avoid=[a])
        if w is not None:
            wit = wit or ([(a, "")] + [(m, lab)] + w[1:])
    culprit = cfg.nodes[wit[-1][0]].ast if wit else raw.node
    run.check(wit is None, "C06.SEND", raw.qual, "a round whose evaluation raised sends nothing",
              f"`{u(culprit)[:60]}` is reached after `{u(lp.apply)}` raised, without a new evaluation in between: the local still "
              "holds the sample of the previous round, so the timestamp already emitted is emitted a second time (with the value "
              "of the old timestamp) whenever a round fails -- e.g. at a fallback take-over, when a fetch returns None -- and "
              "if the very first round fails the name is unbound and the engine task dies.  (The `else:` of a "
              "try/except/else dropped without a `continue` in the handler, a send moved into `finally`, a handler that "
              "falls through are the same mistake.)", node=culprit, file=raw.file, path=cfg.describe_path(wit))
    stale = [(nid, c) for nid, c in lp.sends if not (len(c.args) + len(c.keywords) == 1 and fl.is_node(
        (list(c.args) + [k.value for k in c.keywords])[0], lp.apply, nid))]
    if wit is None:
        run.check(not stale, "C06.SEND", raw.qual, "what is sent is the value this round's apply() returned",
                  (f"`{u(stale[0][1])[:60]}` does not send (only) the sample returned by this round's `{u(lp.apply)}`: "
                   + "; ".join(o.text() for o in fl.origin((list(stale[0][1].args) + [k.value for k in stale[0][1].keywords] + [stale[0][1]])[0], stale[0][0]))[:160]
                   + " -- a sample of another round (or none of the evaluator's) reaches the output") if stale else "",
                  node=(stale[0][1] if stale else raw.node), file=raw.file)
    twice = None
    for s_ in lp.send_nodes:
        twice = twice or cfg.path(s_, lp.send_nodes, avoid=[a], include_src=False)
    run.check(twice is None, "C06.SEND", raw.qual, "one send per evaluation",
              "after a sample was sent another send is reachable before the next evaluation: the same timestamp is emitted twice",
              node=raw.node, file=raw.file, path=cfg.describe_path(twice))


def check_fresh(run: Run, prog: Program) -> None:
    """C06.FRESH ("none skipped, repeated ..."): every sample the fallback-aware fetch hands to a round was read from
    a stream *in this very call* -- the awaited `receive()` of the primary or of the fallback -- or is the result of
    the fallback synchronisation called in this call (which relates its cached sample to the primary sample just
    read: C06.FSYNC).  State the fetcher kept from an earlier round (an attribute of `self` read here) is not a
    sample of this round: it was handed out, or deliberately withheld, before."""
    raw = prog.func(f"{MF}.fetch_next_with_fallback")
    run.analysed(raw.qual)
    sname, vname = fallback_sync_name(prog), validity_name(prog)
    fn = inline_all(prog, raw, stop={sname} | ({vname} if vname else set()))
    fl = Flow(prog, fn)
    cfg = fl.cfg
    fb = fn.params[1] if len(fn.params) > 1 else None

    def fresh(o: Org) -> bool:
        c = o.call()
        if o.kind != "expr" or c is None or not isinstance(o.node, ast.Await) or not isinstance(c.func, ast.Attribute):
            return False
        if c.func.attr == sname and u(c.func.value) == "self":
            return True
        if c.func.attr != "receive":
            return False
        if u(c.func.value) == "self._stream":
            return True
        src = o.flow.origin(c.func.value, o.nid)
        return bool(src) and all(q.kind == "param" and q.name == fb for q in src)

    def leaves(e: ast.AST, nid: int, fuel: int = 8) -> list[Org]:
        """Origins of `e`, conditional expressions and `a or b` read alternative by alternative."""
        out: list[Org] = []
        for o in fl.origin(e, nid, through_helpers=False):
            x = o.node if o.kind == "expr" else None
            if fuel > 0 and isinstance(x, ast.IfExp) and o.nid is not None:
                out += leaves(x.body, o.nid, fuel - 1) + leaves(x.orelse, o.nid, fuel - 1)
            elif fuel > 0 and isinstance(x, ast.BoolOp) and o.nid is not None:
                for v in x.values:
                    out += leaves(v, o.nid, fuel - 1)
            else:
                out.append(o)
        return out

    n = 0
    for r in fl.returns():
        val = cfg.nodes[r].ast.value  # type: ignore[union-attr]
        if val is None:
            continue
        n += 1
        bad = [o for o in leaves(val, r) if not fresh(o)]
        kept = [o for o in bad if o.kind == "expr" and isinstance(o.node, ast.Attribute) and u(o.node.value) == "self"]
        what = ", ".join(sorted({u(o.node) if o.node is not None else o.text() for o in bad}))
        run.check(not bad, "C06.FRESH", raw.qual, f"return at line {getattr(cfg.nodes[r].ast, 'lineno', 0)}: a sample read in this call",
                  f"`{u(cfg.nodes[r].ast)[:70]}` hands the round `{what}`, which was not read from a stream in this call"
                  + (" but kept in the fetcher from an earlier round: that sample was already returned for its own timestamp (the "
                     "synchronisation returns its cached sample), so after this return the term delivers timestamp T a second time "
                     "-- a single-input formula emits T twice, and with several inputs the term lags one step until the evaluator "
                     "re-synchronises" if kept else "")
                  + " (every sample of a round comes from `await <stream>.receive()` in that round, or from the fallback "
                  "synchronisation that compares its cached sample with the primary sample of the round)",
                  node=cfg.nodes[r].ast, file=raw.file, instance=f"{raw.qual}: return #{n} hands out a sample read in this call")
    if n < 2:
        raise AnalysisError(f"{raw.qual}: only {n} value return(s) found")


# ---------------------------------------------------------------------------------------------
def scalarise_fixed_lists(root: ast.AST, known: dict[str, int] | None = None) -> bool:
    """Analysis-only normal form for code written over a FIXED-LENGTH list (`rx = [a, b, c]`, `xs = [await r.receive() for r in rx]`,
    `for i, r in enumerate(rx): ... xs[i] = ...`, `p, q, r = xs`): every such list becomes n scalars `L__k`, loops over it are
    unrolled (loop variables bound at the head of each copy, an index variable that the body does not assign replaced by its
    constant in subscripts), comprehensions over it are expanded in order.  The rewrite keeps the evaluation order and the
    binding structure -- in particular a loop body that assigns to its loop VARIABLE still assigns to that variable only, not to
    the slot it was read from.  A list that is used in any other way (passed on, mutated, sliced, indexed by something else)
    makes the function ineligible: nothing is changed and False is returned (the caller's rules then fail closed as before).
    `known`: attributes that are fixed-length tuples by declaration (`self._streams: tuple[E, E, E]`), text -> length: a
    comprehension over one of them is a display of `<attr>[0]`, `<attr>[1]`, ..."""
    import copy

    known = known or {}

    work = copy.deepcopy(root)

    def suites(node: ast.AST) -> Any:
        for f_ in ("body", "orelse", "finalbody"):
            b = getattr(node, f_, None)
            if isinstance(b, list) and b and isinstance(b[0], ast.stmt):
                yield b
        for h in getattr(node, "handlers", []) or []:
            yield h.body

    def stores(name: str, node: ast.AST) -> int:
        return sum(1 for x in ast.walk(node) if isinstance(x, ast.Name) and x.id == name and isinstance(x.ctx, (ast.Store, ast.Del)))

    # ---- 1. the fixed-length lists: bound once, to a display / a comprehension over a known list / another known list
    length: dict[str, int] = {}
    for _ in range(4):
        for st in ast.walk(work):
            if not (isinstance(st, ast.Assign) and len(st.targets) == 1 and isinstance(st.targets[0], ast.Name)) and not (
                    isinstance(st, ast.AnnAssign) and isinstance(st.target, ast.Name) and st.value is not None):
                continue
            tgt = st.targets[0] if isinstance(st, ast.Assign) else st.target
            v = st.value
            if tgt.id in length or stores(tgt.id, work) != 1:  # type: ignore[union-attr]
                continue
            if isinstance(v, (ast.List, ast.Tuple)) and 2 <= len(v.elts) <= 6 and not any(isinstance(e, ast.Starred) for e in v.elts):
                length[tgt.id] = len(v.elts)  # type: ignore[union-attr]
            elif isinstance(v, ast.ListComp) and len(v.generators) == 1 and not v.generators[0].ifs and isinstance(v.generators[0].iter, ast.Name) \
                    and v.generators[0].iter.id in length and isinstance(v.generators[0].target, ast.Name):
                length[tgt.id] = length[v.generators[0].iter.id]  # type: ignore[union-attr]
            elif isinstance(v, ast.ListComp) and len(v.generators) == 1 and not v.generators[0].ifs and u(v.generators[0].iter) in known \
                    and isinstance(v.generators[0].target, ast.Name):
                length[tgt.id] = known[u(v.generators[0].iter)]  # type: ignore[union-attr]
            elif isinstance(v, ast.Name) and v.id in length:
                length[tgt.id] = length[v.id]  # type: ignore[union-attr]
    if not length:
        return False

    def slot(name: str, k: int, ctx: ast.expr_context, at: ast.AST) -> ast.Name:
        return ast.copy_location(ast.Name(id=f"{name}__{k}", ctx=ctx), at)

    def subst(node: ast.AST, mapping: dict[str, ast.AST]) -> ast.AST:
        """A copy of `node` with the (Load) names of `mapping` replaced."""
        class S(ast.NodeTransformer):
            def visit_Name(self, n: ast.Name) -> ast.AST:  # noqa: N802
                if isinstance(n.ctx, ast.Load) and n.id in mapping:
                    return ast.copy_location(copy.deepcopy(mapping[n.id]), n)
                return n
        return S().visit(copy.deepcopy(node))

    def plain(e: ast.AST) -> bool:
        return not any(isinstance(x, (ast.ListComp, ast.SetComp, ast.DictComp, ast.GeneratorExp, ast.Lambda)) for x in ast.walk(e))

    # ---- 2. unroll the loops over them
    def loop_plan(st: ast.For) -> tuple[int, list[tuple[ast.AST, Any]]] | None:
        """(n, [(target, k -> value expression)]) for `for x in L`, `for i, x in enumerate(L)`, `for a, b in zip(L, M)`,
        `for i in range(len(L))`."""
        it, tg = st.iter, st.target
        if isinstance(it, ast.Name) and it.id in length and isinstance(tg, ast.Name):
            return length[it.id], [(tg, lambda k, nm=it.id: slot(nm, k, ast.Load(), st))]
        if isinstance(it, ast.Call) and isinstance(it.func, ast.Name) and not it.keywords:
            if it.func.id == "enumerate" and len(it.args) == 1 and isinstance(it.args[0], ast.Name) and it.args[0].id in length \
                    and isinstance(tg, ast.Tuple) and len(tg.elts) == 2 and all(isinstance(e, ast.Name) for e in tg.elts):
                nm = it.args[0].id
                return length[nm], [(tg.elts[0], lambda k: ast.copy_location(ast.Constant(k), st)), (tg.elts[1], lambda k, nm=nm: slot(nm, k, ast.Load(), st))]
            if it.func.id == "zip" and len(it.args) >= 2 and all(isinstance(a, ast.Name) and a.id in length for a in it.args) \
                    and len({length[a.id] for a in it.args}) == 1 and isinstance(tg, ast.Tuple) and len(tg.elts) == len(it.args) \
                    and all(isinstance(e, ast.Name) for e in tg.elts):  # type: ignore[union-attr]
                return length[it.args[0].id], [(e, (lambda k, nm=a.id: slot(nm, k, ast.Load(), st))) for e, a in zip(tg.elts, it.args)]  # type: ignore[union-attr]
            if it.func.id == "range" and len(it.args) == 1 and isinstance(it.args[0], ast.Call) and u(it.args[0].func) == "len" \
                    and len(it.args[0].args) == 1 and isinstance(it.args[0].args[0], ast.Name) and it.args[0].args[0].id in length and isinstance(tg, ast.Name):
                return length[it.args[0].args[0].id], [(tg, lambda k: ast.copy_location(ast.Constant(k), st))]
        return None

    def own_jumps(body: list[ast.stmt]) -> bool:
        """break / continue that belong to the loop whose body this is"""
        def rec(n: ast.AST) -> bool:
            if isinstance(n, (ast.Break, ast.Continue)):
                return True
            if isinstance(n, (ast.For, ast.AsyncFor, ast.While, ast.FunctionDef, ast.AsyncFunctionDef, ast.Lambda)):
                return any(rec(x) for b_ in (getattr(n, "orelse", []) or []) for x in [b_]) if not isinstance(n, ast.Lambda) else False
            return any(rec(c) for c in ast.iter_child_nodes(n))
        return any(rec(x) for x in body)

    def unroll(node: ast.AST) -> bool:
        ok = True
        for suite in suites(node):
            i = 0
            while i < len(suite):
                st = suite[i]
                ok = unroll(st) and ok
                if isinstance(st, ast.For):
                    plan = loop_plan(st)
                    if plan is not None:
                        n, binds = plan
                        if st.orelse or own_jumps(st.body):
                            return False
                        out: list[ast.stmt] = []
                        for k in range(n):
                            consts = {t.id: v(k) for t, v in binds if isinstance(v(k), ast.Constant)
                                      and not any(stores(t.id, b_) for b_ in st.body)}  # type: ignore[union-attr]
                            for t, v in binds:
                                out.append(ast.copy_location(ast.Assign(targets=[ast.Name(id=t.id, ctx=ast.Store())], value=v(k)), st))  # type: ignore[union-attr]
                            for b_ in st.body:
                                c_ = copy.deepcopy(b_)
                                if consts:
                                    # the index variable, where it indexes: a constant in this copy
                                    for x in ast.walk(c_):
                                        if isinstance(x, ast.Subscript) and isinstance(x.slice, ast.Name) and x.slice.id in consts:
                                            x.slice = ast.copy_location(copy.deepcopy(consts[x.slice.id]), x.slice)
                                out.append(c_)
                        suite[i:i + 1] = out
                        i += len(out)
                        continue
                i += 1
        return ok

    if not unroll(work):
        return False

    # ---- 3. bindings, unpackings, expanded comprehensions, constant subscripts
    def expand_stmt(st: ast.stmt) -> list[ast.stmt] | None:
        if isinstance(st, (ast.Assign, ast.AnnAssign)) and st.value is not None:
            tgts = st.targets if isinstance(st, ast.Assign) else [st.target]
            v = st.value
            if len(tgts) == 1 and isinstance(tgts[0], ast.Name) and tgts[0].id in length:
                nm, n = tgts[0].id, length[tgts[0].id]
                if isinstance(v, (ast.List, ast.Tuple)):
                    vals: list[ast.AST] = list(v.elts)
                elif isinstance(v, ast.ListComp):
                    g = v.generators[0]
                    if not plain(v.elt):
                        return None
                    if isinstance(g.iter, ast.Name):
                        vals = [subst(v.elt, {g.target.id: slot(g.iter.id, k, ast.Load(), st)}) for k in range(n)]  # type: ignore[union-attr]
                    else:
                        vals = [subst(v.elt, {g.target.id: ast.copy_location(ast.Subscript(  # type: ignore[union-attr]
                            value=copy.deepcopy(g.iter), slice=ast.Constant(k), ctx=ast.Load()), st)}) for k in range(n)]
                else:
                    vals = [slot(v.id, k, ast.Load(), st) for k in range(n)]  # type: ignore[union-attr]
                return [ast.copy_location(ast.Assign(targets=[slot(nm, k, ast.Store(), st)], value=vals[k]), st) for k in range(n)]
            if len(tgts) == 1 and isinstance(tgts[0], (ast.Tuple, ast.List)) and isinstance(v, ast.Name) and v.id in length \
                    and len(tgts[0].elts) == length[v.id] and all(isinstance(e, ast.Name) for e in tgts[0].elts):
                return [ast.copy_location(ast.Assign(targets=[e], value=slot(v.id, k, ast.Load(), st)), st) for k, e in enumerate(tgts[0].elts)]
        return [st]

    def rewrite(node: ast.AST) -> bool:
        for suite in suites(node):
            i = 0
            while i < len(suite):
                if not rewrite(suite[i]):
                    return False
                rep = expand_stmt(suite[i])
                if rep is None:
                    return False
                suite[i:i + 1] = rep
                i += len(rep)
        return True

    if not rewrite(work):
        return False

    class Slots(ast.NodeTransformer):
        def visit_Subscript(self, n: ast.Subscript) -> ast.AST:  # noqa: N802
            if isinstance(n.value, ast.Name) and n.value.id in length and isinstance(n.slice, ast.Constant) and isinstance(n.slice.value, int) \
                    and not isinstance(n.slice.value, bool) and -length[n.value.id] <= n.slice.value < length[n.value.id]:
                return slot(n.value.id, n.slice.value % length[n.value.id], n.ctx, n)
            return self.generic_visit(n)

        def visit_Call(self, n: ast.Call) -> ast.AST:  # noqa: N802
            self.generic_visit(n)
            if isinstance(n.func, ast.Name) and n.func.id == "len" and len(n.args) == 1 and isinstance(n.args[0], ast.Name) and n.args[0].id in length:
                return ast.copy_location(ast.Constant(length[n.args[0].id]), n)
            if len(n.args) == 1 and not n.keywords and isinstance(n.args[0], (ast.GeneratorExp, ast.ListComp)):
                c = n.args[0]
                if len(c.generators) == 1 and not c.generators[0].ifs and not c.generators[0].is_async and isinstance(c.generators[0].iter, ast.Name) \
                        and c.generators[0].iter.id in length and isinstance(c.generators[0].target, ast.Name) and plain(c.elt):
                    g = c.generators[0]
                    elts = [subst(c.elt, {g.target.id: slot(g.iter.id, k, ast.Load(), n)}) for k in range(length[g.iter.id])]  # type: ignore[union-attr]
                    n.args = [ast.copy_location(ast.Tuple(elts=elts, ctx=ast.Load()), c)]
            return n

    work = Slots().visit(work)
    # ---- 4. nothing else may touch the lists
    if any(isinstance(x, ast.Name) and x.id in length for x in ast.walk(work)):
        return False
    ast.fix_missing_locations(work)
    for f_ in ("body",):
        setattr(root, f_, getattr(work, f_))
    return True


def check_3ph(run: Run, prog: Program) -> None:
    """C06.3PH: the three per-phase engines synchronise only their own inputs, so their outputs may start at
    different timestamps.  On every path of a round that reaches the send, the three samples whose values are
    combined are established to carry the stamped timestamp:

      * every phase is received (at least once) in the round, from its own receiver;
      * the reference is max(<the three samples' timestamps of this round>);
      * a phase whose sample is older than the reference is received again -- from the same receiver, into the
        same role -- and the comparison is made again afterwards (a drain loop); a phase that is not older is not
        received again (with aligned phases: exactly one receive per phase and round);
      * the sample built takes value k from the (final) sample of phase k, in phase order, and its timestamp from
        one of them (read after the drains) or from the reference; that sample is what is sent.
    """
    raw = prog.func(f"{ENGINE}:FormulaEngine3Phase._run")
    run.analysed(raw.qual)
    fn = inline_all(prog, raw)
    for nm in sorted(getattr(fn.node, "_inlined", ())):
        if raw.cls is not None and nm in raw.cls.methods:
            run.analysed(raw.cls.methods[nm].qual)
    # the round written over a fixed-length list of the three phases is read slot by slot
    known: dict[str, int] = {}
    init = raw.cls.methods.get("__init__") if raw.cls is not None else None
    for a_ in (x for x in ast.walk(init.node) if isinstance(x, ast.AnnAssign)) if init is not None else ():
        ann = a_.annotation
        if isinstance(a_.target, ast.Attribute) and u(a_.target.value) == "self" and isinstance(ann, ast.Subscript) and u(ann.value) in ("tuple", "Tuple") \
                and isinstance(ann.slice, ast.Tuple) and not any(isinstance(e, ast.Constant) and e.value is Ellipsis for e in ann.slice.elts):
            known[u(a_.target)] = len(ann.slice.elts)
    scalarise_fixed_lists(fn.node, known)
    fl = Flow(prog, fn)
    cfg = fl.cfg
    normal = lambda a, b, lab: not lab.startswith("exc:")  # noqa: E731
    # receivers: one per phase stream
    rx: dict[int, ast.Call] = {}
    dup = False
    for _nid, c in fl.calls(lambda c: isinstance(c.func, ast.Attribute) and c.func.attr == "new_receiver"):
        base = c.func.value  # type: ignore[union-attr]
        if isinstance(base, ast.Subscript) and u(base.value) == "self._streams" and isinstance(base.slice, ast.Constant) \
                and isinstance(base.slice.value, int):
            dup = dup or base.slice.value in rx
            rx[base.slice.value] = c
    ok = sorted(rx) == [0, 1, 2] and not dup
    run.check(ok, "C06.3PH", raw.qual, "one receiver per phase", f"receivers: {sorted(rx)}", node=raw.node, file=raw.file)
    if not ok:
        return
    sends = [nid for nid, c in fl.calls(lambda c: method_call(c, None, "send")) if isinstance(fl._parent.get(id(c)), ast.Await)]
    whiles = [h for h in cfg.nodes if h.kind == "while" and h.id in fl.live]
    bodies = {h.id: cfg.reachable([m for m, lab in cfg.succ[h.id] if lab == "true"], avoid=[h.id]) for h in whiles}
    rounds = [h for h in whiles if any(s_ in bodies[h.id] for s_ in sends) and not any(
        h.id in bodies[o.id] for o in whiles if o.id != h.id and any(s_ in bodies[o.id] for s_ in sends))]
    if len(rounds) != 1 or not sends:
        raise AnalysisError(f"{raw.qual}: the round loop (receive ... send) was not found")
    h = rounds[0]
    first = [m for m, lab in cfg.succ[h.id] if lab == "true"]
    body = bodies[h.id]
    recv: dict[int, list[tuple[int, ast.Call]]] = {i: [] for i in rx}
    for nid, c in fl.calls(lambda c: method_call(c, None, "receive")):
        if nid not in body:
            continue
        owner = [i for i, mk in rx.items() if fl.is_node(c.func.value, mk, nid)]  # type: ignore[union-attr]
        if len(owner) != 1 or not isinstance(fl._parent.get(id(c)), ast.Await):
            raise AnalysisError(f"{raw.qual}: `{u(c)}` in the round cannot be attributed to one phase's receiver")
        recv[owner[0]].append((nid, c))

    def phase_of(e: ast.AST, nid: int | None) -> int | None:
        """The phase whose receive()s (of this round) `e` holds a sample of -- None if it is not exactly one phase."""
        o = fl.origin(e, nid)
        hit = {i for i in rx for q in o if q.kind == "expr" and any(unawait(q.node) is c for _n, c in recv[i])}
        pure = bool(o) and all(q.kind == "expr" and any(unawait(q.node) is c for i in rx for _n, c in recv[i]) for q in o)
        return hit.pop() if pure and len(hit) == 1 else None

    def ts_phase(e: ast.AST, nid: int | None) -> int | None:
        """`e` is <sample of phase i>.timestamp (possibly through a local): i."""
        o = fl.origin1(e, nid)
        if o is not None and o.kind == "expr" and isinstance(o.node, ast.Attribute) and o.node.attr == "timestamp":
            return phase_of(o.node.value, o.nid)
        return None

    # the reference: max of the three samples' timestamps
    refs: list[tuple[int, ast.Call]] = []
    for nid, c in fl.calls(lambda c: u(c.func) == "max" and not c.keywords):
        if nid not in body:
            continue
        args = list(c.args[0].elts) if len(c.args) == 1 and isinstance(c.args[0], (ast.Tuple, ast.List)) else list(c.args)
        if sorted(p_ for p_ in (ts_phase(a, nid) for a in args) if p_ is not None) == [0, 1, 2] and len(args) == 3:
            refs.append((nid, c))

    def is_ref(e: ast.AST, nid: int | None) -> bool:
        o = fl.origin(e, nid)
        return bool(o) and all(q.kind == "expr" and any(unawait(q.node) is c for _n, c in refs) for q in o)

    def lag(i: int, rel: str) -> Any:
        """Scenario: the sample of phase i is older than (lt) / equal to (eq) the reference."""
        val = {"lt": -1, "eq": 0}[rel]

        def atom(e: ast.AST, nid: int) -> Tri:
            if isinstance(e, ast.Compare) and len(e.ops) == 1:
                for x, y, flip in ((e.left, e.comparators[0], False), (e.comparators[0], e.left, True)):
                    if is_ref(y, nid) and ts_phase(x, nid) == i:
                        return cmp_eval(e.ops[0], 0, val) if flip else cmp_eval(e.ops[0], val, 0)
            return None
        return lifted(fl, atom)

    ctor = [(nid, c) for nid, c in fl.calls(lambda c: u(c.func).split("[")[0] == "Sample3Phase") if nid in body]
    if len(ctor) != 1:
        run.violation("C06.3PH", raw.qual, "Sample3Phase(...) once per round", f"{len(ctor)} three-phase samples are built per round",
                      node=raw.node, file=raw.file)
        return
    cn, cc = ctor[0]
    for i in sorted(rx):
        nodes = [nid for nid, _c in recv[i]]
        wit = cfg.path(first[0], [cn], avoid=nodes, edge_ok=normal) if first[0] not in nodes else None
        run.check(bool(nodes) and wit is None, "C06.3PH", raw.qual, f"phase {i + 1}: received in every round",
                  "a three-phase sample can be built without a sample of this phase received in the round", node=raw.node,
                  file=raw.file, path=cfg.describe_path(wit))
    # alignment
    ok = len(refs) == 1
    node3: ast.AST = raw.node
    detail = ("the three per-phase samples are combined as they arrive: nothing establishes that they carry the same timestamp "
              "(the per-phase engines synchronise only their own inputs and may start at different timestamps, so the sample "
              "stamped T can carry another phase's value of a later step, for ever) -- expected the maximum of the three "
              "timestamps as reference and a drain of every phase that is behind it")
    if ok:
        rn = refs[0][0]
        # the alignment is established in EVERY round: no way from the start of a round to the sample that does not
        # take the reference (a flag / first-round guard around the reference and the drains leaves later rounds zipped
        # by arrival order again)
        skip = cfg.path(first[0], [cn], avoid=[rn], edge_ok=normal) if first[0] != rn else None
        if skip is not None:
            # a guard over this round's three timestamps may skip the alignment when it establishes that they are equal: the
            # skip must then be impossible whenever some phase is behind the newest one (flags, counters stay undecided)
            def skew(ts: tuple[int, int, int]) -> Any:
                def val(e: ast.AST, nid: int | None) -> int | None:
                    k = ts_phase(e, nid)
                    return None if k is None else ts[k]

                def atom(e: ast.AST, nid: int) -> Tri:
                    if not (isinstance(e, ast.Compare) and len(e.ops) == 1):
                        return None
                    a_, b_ = e.left, e.comparators[0]
                    va, vb = val(a_, nid), val(b_, nid)
                    if va is not None and vb is not None:
                        return cmp_eval(e.ops[0], va, vb)
                    for x, y, flip in ((a_, b_, False), (b_, a_, True)):
                        if isinstance(x, ast.Call) and u(x.func) == "len" and len(x.args) == 1 and isinstance(y, ast.Constant) \
                                and isinstance(y.value, int) and not isinstance(y.value, bool):
                            o = fl.origin1(x.args[0], nid)
                            c0, n0 = (o.node, o.nid) if o is not None and o.kind == "expr" else (x.args[0], nid)
                            if isinstance(c0, ast.Call) and u(c0.func) in ("set", "frozenset") and len(c0.args) == 1:
                                c0 = c0.args[0]
                            if isinstance(c0, (ast.Set, ast.Tuple, ast.List)) and len(c0.elts) == 3:
                                vs = [val(el, n0) for el in c0.elts]
                                if None not in vs:
                                    return cmp_eval(e.ops[0], y.value, len(set(vs))) if flip else cmp_eval(e.ops[0], len(set(vs)), y.value)
                    return None
                return pruned(cfg, lifted(fl, atom))

            if all(cfg.path(first[0], [cn], avoid=[rn], edge_ok=skew(ts)) is None
                   for ts in ((0, 1, 1), (1, 0, 1), (1, 1, 0), (0, 0, 1), (0, 1, 0), (1, 0, 0))):
                skip = None
        if skip is not None:
            ok = False
            guards = [cfg.nodes[n_].ast for n_, lab in skip if cfg.nodes[n_].kind == "test" and cfg.nodes[n_].ast is not None
                      and rn in cfg.reachable([n_], avoid=[h.id], edge_ok=normal)]
            detail = ("the three phases are aligned in some rounds only: a round can build its sample without taking the reference "
                      "max(the three timestamps) and draining the phases behind it"
                      + (f" (when `{u(guards[-1])[:60]}` goes the other way)" if guards else "")
                      + ".  Aligning once is not enough -- the per-phase engines drop a round whenever their evaluation raises "
                      "(e.g. at a fallback take-over) or re-synchronise their inputs, so one phase can skip a timestamp later: from "
                      "then on that phase is one sample ahead and every sample stamped T carries its value of T+1, for ever "
                      "(an alignment guarded by a `synchronized` flag, by a round counter or done before the loop are the same mistake)")
            if guards and hasattr(guards[-1], "lineno"):
                node3 = guards[-1]
    if ok:
        for i in sorted(rx):
            nodes = [nid for nid, _c in recv[i]]
            initial = [n for n in nodes if cfg.path(n, [rn], edge_ok=normal) is not None and cfg.path(rn, [n], avoid=[h.id], edge_ok=normal) is None]
            drains = [n for n in nodes if n not in initial]
            tests = [t.id for t in cfg.nodes if t.kind in ("test", "while") and t.id in body and t.ast is not None and any(
                isinstance(x, ast.Compare) and len(x.ops) == 1 and (
                    (is_ref(x.comparators[0], t.id) and ts_phase(x.left, t.id) == i) or (is_ref(x.left, t.id) and ts_phase(x.comparators[0], t.id) == i))
                for x in ast.walk(t.ast if t.kind == "test" else t.ast.test))]  # type: ignore[union-attr]
            lt, eq = pruned(cfg, lag(i, "lt")), pruned(cfg, lag(i, "eq"))
            ok = bool(initial) and (first[0] in initial or cfg.path(first[0], [rn], avoid=initial, edge_ok=normal) is None)
            detail = f"the reference timestamp is taken before phase {i + 1} was received"
            if ok:
                ok = bool(drains) and cfg.path(rn, [cn], avoid=drains, edge_ok=lt) is None
                detail = (f"phase {i + 1} can be older than the reference timestamp when the three-phase sample is built: it is not "
                          "received again while it lags (values of different timestamps are combined)")
            if ok:
                ok = all(cfg.path(d, [cn], avoid=tests, edge_ok=normal) is None for d in drains)
                detail = f"after receiving phase {i + 1} again its timestamp is not compared with the reference again (one extra sample is not a drain)"
            if ok:
                ok = all(cfg.path(rn, [d], edge_ok=eq) is None for d in drains) and cfg.path(rn, [cn], edge_ok=eq) is not None
                detail = f"phase {i + 1} is received again although it is not behind the reference (a sample of that phase is dropped)"
            if not ok:
                break
    run.check(ok, "C06.3PH", raw.qual, "every phase drained up to max(the three timestamps) before the sample is built", detail,
              node=node3, file=raw.file)
    # the sample: values in phase order from the final samples, stamped with one of them (after the drains) or the reference
    a = positional(cc, ["timestamp", "value_p1", "value_p2", "value_p3"])

    stale_value: list[str] = []

    def value_of(e: ast.AST | None, i: int) -> bool:
        o = fl.origin1(e, cn) if e is not None else None
        if not (o is not None and o.kind == "expr" and isinstance(o.node, ast.Attribute) and o.node.attr == "value"
                and phase_of(o.node.value, o.nid) == i):
            return False
        # ... of the FINAL sample of the phase: whatever receive of phase i the round executed last is what the value is read
        # from, i.e. every receive of the phase (the first one and the drain's) can supply it.  A drain that stores what it
        # received somewhere else (the loop variable of `for s, rx in zip(samples, receivers)` instead of the slot) leaves the
        # value that of the first, lagging sample
        got = {id(unawait(q.node)) for q in fl.origin(o.node.value, o.nid) if q.kind == "expr"}
        lost = [c for _n, c in recv[i] if id(c) not in got]
        if lost:
            stale_value.append(f"value_p{i + 1} is read from `{u(o.node.value)}`, which never holds what `{u(lost[0])}` "
                               f"(line {getattr(lost[0], 'lineno', '?')}) received")
        return not lost

    def stamp_ok(e: ast.AST | None) -> bool:
        if e is None:
            return False
        if is_ref(e, cn):
            return True
        o = fl.origin1(e, cn)
        if o is None or o.kind != "expr" or not (isinstance(o.node, ast.Attribute) and o.node.attr == "timestamp"):
            return False
        k = phase_of(o.node.value, o.nid)
        later = [nid for nid, _c in recv[k]] if k is not None else []
        # read when the phase is final: no receive of that phase can follow the read within the round
        return k is not None and all(cfg.path(o.nid, [d], avoid=[h.id], edge_ok=normal, include_src=False) is None for d in later if d != o.nid)

    ok = len(a) == 4 and len(cc.args) + len(cc.keywords) == 4 and all(value_of(a.get(f"value_p{i + 1}"), i) for i in range(3))
    run.check(ok, "C06.3PH", raw.qual, "Sample3Phase(.., p1.value, p2.value, p3.value) from this round's samples",
              "the three-phase sample is not built from this round's three received samples in phase order"
              + (": " + "; ".join(stale_value[:2]) + " -- the drain advances the phase's receiver but its result is bound to another "
                 "name (the loop variable instead of the per-phase slot), so the sample emitted under the common latest timestamp "
                 "still carries the lagging phase's OLD value, and the samples read meanwhile are lost" if stale_value else ""),
              node=raw.node, file=raw.file)
    run.check(stamp_ok(a.get("timestamp")), "C06.3PH", raw.qual, "stamped with the (aligned) samples' timestamp",
              "the three-phase sample is not stamped with the timestamp its three samples carry when it is built (a timestamp "
              "read before a phase was drained, or from elsewhere)", node=raw.node, file=raw.file)
    sent = [(n, x) for n, x in fl.calls(lambda k: method_call(k, None, "send")) if n in sends]
    run.check(bool(sent) and all(len(x.args) == 1 and fl.is_node(x.args[0], cc, n) for n, x in sent)
              and cfg.path(cn, [h.id], avoid=sends, edge_ok=normal) is None, "C06.3PH", raw.qual, "the sample built is what is sent",
              "the three-phase sample built in the round is not (always) the one sent", node=raw.node, file=raw.file)


def interchange_patch(prog: Program) -> tuple[str, str] | None:
    """The drain loops of the synchronisation interchanged (`for name: while ts < latest:` with the shared
    timestamp variable): the canonical way to break "every stream of a lagging group is advanced"."""
    for sy, w in ((m, x) for m in prog.cls(FE).methods.values() for x in ast.walk(m.node) if isinstance(x, ast.While)):
        if len(w.body) == 1 and isinstance(w.body[0], ast.For) and not w.orelse:
            f = w.body[0]
            ind_w = " " * w.col_offset
            ind_f = " " * f.col_offset
            head_w = f"while {seg(sy.module, w.test)}:"
            head_f = f"for {seg(sy.module, f.target)} in {seg(sy.module, f.iter)}:"
            lines = sy.module.source.splitlines(keepends=True)
            body = "".join(lines[f.body[0].lineno - 1:(f.end_lineno or f.lineno)])

            def edit(_t: str, ind_w: str = ind_w, ind_f: str = ind_f, head_w: str = head_w, head_f: str = head_f, body: str = body) -> str:
                return f"{ind_w}{head_f}\n{ind_f}{head_w}\n{body}"

            return src_patch(sy.module, w.lineno, w.end_lineno or w.lineno, edit)
    return None


def build_controls(prog: Program) -> list[tuple[str, str, str, str, str]]:
    """Seeded in-memory controls, cut out of the live source at structurally located anchors (so they
    survive renamed locals, changed log texts, introduced locals): each breaks one obligation."""
    out: list[tuple[str, str, str, str, str]] = []
    bind_sync(prog)

    def add(name: str, module: str, patch: tuple[str, str] | None, rule: str) -> None:
        if patch is not None:
            out.append((name, module, patch[0], patch[1], rule))

    def calls_in(fn: Any, pred: Callable[[ast.Call], bool]) -> list[ast.Call]:
        return [c for c in ast.walk(fn.node) if isinstance(c, ast.Call) and pred(c)]

    ev = prog.cls(FE)
    ap = prog.func(f"{FE}.apply")
    sy = prog.func(f"{FE}.{SYNC}")
    # ALL: FIRST_COMPLETED instead of ALL_COMPLETED (or a timeout when the default is relied upon)
    for m in ev.methods.values():
        ws = calls_in(m, lambda c: u(c.func) in ("asyncio.wait", "wait"))
        if ws:
            w = ws[0]
            kw = next((k for k in w.keywords if k.arg == "return_when"), None)
            if kw is not None:
                txt = seg(m.module, kw.value)
                add("FIRST_COMPLETED", EVAL, src_patch(m.module, kw.value.lineno, kw.value.end_lineno or kw.value.lineno,
                                                     lambda t, txt=txt: t.replace(txt, "asyncio.FIRST_COMPLETED", 1)), "C06.ALL")
            else:
                txt = seg(m.module, w)
                add("FIRST_COMPLETED", EVAL, stmt_patch(m, w, lambda t, txt=txt: t.replace(
                    txt, txt.rstrip()[:-1].rstrip().rstrip(",") + ", return_when=asyncio.FIRST_COMPLETED)", 1)), "C06.ALL")
            break
    # NAME: the fetch tasks lose their names
    for m in ev.methods.values():
        ts_ = calls_in(m, lambda c: u(c.func).endswith("create_task") and any(k.arg == "name" for k in c.keywords) and len(c.args) == 1)
        if ts_:
            c = ts_[0]
            txt = seg(m.module, c)
            bare = f"{seg(m.module, c.func)}({seg(m.module, c.args[0])})"
            add("fetch tasks created without a name", EVAL, stmt_patch(m, c, lambda t, txt=txt, bare=bare: t.replace(txt, bare, 1)), "C06.NAME")
            break
    # SYNC: `<` -> `<=` (resp. `>` -> `>=`) in the drain loop test
    for sy, w in ((m, x) for m in ev.methods.values() for x in ast.walk(m.node)
                  if isinstance(x, ast.While) and isinstance(x.test, ast.Compare) and len(x.test.ops) == 1):
        op = w.test.ops[0]
        sym = {ast.Lt: ("<", "<="), ast.Gt: (">", ">=")}.get(type(op))
        if sym is not None:
            l, r = seg(sy.module, w.test.left), seg(sy.module, w.test.comparators[0])
            add("<= in the sync loop", EVAL, src_patch(sy.module, w.lineno, w.test.end_lineno or w.lineno,
                                                     lambda t, l=l, r=r, sym=sym, w=w, sy=sy: t.replace(seg(sy.module, w.test), f"{l} {sym[1]} {r}", 1)), "C06.SYNC")
            break
    # TS: a Sample stamped with the wall clock
    for m in ev.methods.values():
        cs = calls_in(m, _is_sample_ctor)
        if cs:
            c = cs[-1]
            ts = positional(c, ["timestamp", "value"]).get("timestamp")
            if ts is not None:
                txt = seg(m.module, ts)
                pre = "timestamp=" if any(k.arg == "timestamp" for k in c.keywords) else ""
                add("stamped with the wall clock", EVAL, src_patch(
                    m.module, c.lineno, ts.end_lineno or c.lineno,
                    lambda t, txt=txt, pre=pre: t.replace(f"({pre}{txt}", f"({pre}datetime.now()", 1)
                    if f"({pre}{txt}" in t else t.replace(txt, "datetime.now()", 1)), "C06.TS")
                break
    # TS: the result of the synchronisation is thrown away (an arbitrary input's timestamp is used)
    for m in ev.methods.values():
        for a in (x for x in ast.walk(m.node) if isinstance(x, ast.Assign) and isinstance(x.value, ast.Await)
                  and isinstance(x.value.value, ast.Call) and _is_sync_call(x.value.value) and isinstance(x.targets[0], ast.Name)):
            arg = a.value.value.args[0] if a.value.value.args else a.value.value.keywords[0].value  # type: ignore[union-attr]
            call_txt, arg_txt, tgt = seg(m.module, a.value), seg(m.module, arg), a.targets[0].id  # type: ignore[union-attr]
            add("synchronised timestamp discarded", EVAL, stmt_patch(
                m, a, lambda t, c=call_txt, g=arg_txt, v=tgt: f"{indent_of(t)}{c}\n{indent_of(t)}{v} = next(iter({g})).result().timestamp\n"), "C06.TS")
            break
        else:
            for r in (x for x in ast.walk(m.node) if isinstance(x, ast.Return) and isinstance(x.value, ast.Await)
                      and isinstance(x.value.value, ast.Call) and _is_sync_call(x.value.value)):
                arg = r.value.value.args[0] if r.value.value.args else r.value.value.keywords[0].value  # type: ignore[union-attr]
                call_txt, arg_txt = seg(m.module, r.value), seg(m.module, arg)  # type: ignore[arg-type]
                add("synchronised timestamp discarded", EVAL, stmt_patch(
                    m, r, lambda t, c=call_txt, g=arg_txt: f"{indent_of(t)}{c}\n{indent_of(t)}return next(iter({g})).result().timestamp\n"), "C06.TS")
                break
            else:
                continue
        break
    # TS: the steps are evaluated before the synchronisation
    loops = [x for x in ap.node.body if isinstance(x, ast.For) and "_steps" in u(x.iter)]
    ifs = [x for x in ap.node.body if isinstance(x, ast.If) and any(isinstance(c, ast.Call) and _is_sync_call(c) for c in ast.walk(x))]
    if loops and ifs and ifs[0].lineno < loops[0].lineno:
        lines = ap.module.source.splitlines(keepends=True)
        i0, i1 = ifs[0].lineno - 1, ifs[0].end_lineno or ifs[0].lineno
        l0, l1 = loops[0].lineno - 1, loops[0].end_lineno or loops[0].lineno
        if_txt, mid, loop_txt = "".join(lines[i0:i1]), "".join(lines[i1:l0]), "".join(lines[l0:l1])
        add("steps before synchronisation", EVAL, src_patch(ap.module, i0 + 1, l1, lambda t: loop_txt + mid + if_txt), "C06.TS")
    # ONE: a retry receive in the error handler of _fetch_next
    unit_names = set(getattr(fetch_unit(prog).node, "_inlined", ())) | {"fetch_next"}
    for fnx, t in ((m, x) for m in prog.cls(MF).methods.values() if m.name in unit_names
                   for x in ast.walk(m.node) if isinstance(x, ast.Try)):
        if t.handlers and any(isinstance(c, ast.Call) and method_call(c, "self._stream", "receive") for b in t.body for c in ast.walk(b)):
            h = t.handlers[0]
            head = h.body[0]
            tgt = next((u(a.targets[0]) for b in t.body for a in ast.walk(b) if isinstance(a, ast.Assign)), "_retry")
            add("retry receive in _fetch_next", STEPS, src_patch(
                fnx.module, head.lineno, head.end_lineno or head.lineno,
                lambda t_, head=head, tgt=tgt: f"{' ' * head.col_offset}{tgt} = await self._stream.receive()\n" + t_), "C06.ONE")
            break
    # 3PH: one phase read twice, another never (on the first receives of the round)
    ph = prog.func(f"{ENGINE}:FormulaEngine3Phase._run")
    recs = [c for c in calls_in(ph, lambda c: method_call(c, None, "receive")) if isinstance(c.func.value, ast.Name)]  # type: ignore[union-attr]
    recs.sort(key=lambda c: (c.lineno, c.col_offset))
    if len(recs) >= 3:
        a, b = recs[2], recs[1]
        ta, tb = seg(ph.module, a.func.value), seg(ph.module, b.func.value)  # type: ignore[union-attr]
        add("phase 2 read twice", ENGINE, stmt_patch(ph, a, lambda t, ta=ta, tb=tb: t.replace(f"{ta}.receive", f"{tb}.receive", 1)), "C06.3PH")
    # 3PH alignment: no drain at all / drained against one phase instead of the maximum / drained from the wrong
    # receiver / stamped with a timestamp read before the drains
    drains = [w for w in ast.walk(ph.node) if isinstance(w, ast.While) and not (isinstance(w.test, ast.Constant))
              and any(isinstance(x, ast.Call) and method_call(x, None, "receive") for x in ast.walk(w))]
    drains.sort(key=lambda w: w.lineno)
    if drains:
        lo, hi = drains[0].lineno, max(w.end_lineno or w.lineno for w in drains)
        add("phases zipped without a drain", ENGINE, src_patch(ph.module, lo, hi, lambda t: ""), "C06.3PH")
    # 3PH: the drain advances the receiver but keeps the result in another name (the emitted value stays the lagging one)
    if drains:
        asg = next((x for x in ast.walk(drains[0]) if isinstance(x, ast.Assign) and isinstance(x.value, ast.Await) and isinstance(x.value.value, ast.Call)
                    and method_call(x.value.value, None, "receive") and len(x.targets) == 1), None)
        if asg is not None:
            ttxt = seg(ph.module, asg.targets[0])
            add("drain result bound to another name", ENGINE, stmt_patch(
                ph, asg, lambda t, ttxt=ttxt: t.replace(f"{ttxt} =", "_drained =", 1)), "C06.3PH")
    mx = next((x for x in ast.walk(ph.node) if isinstance(x, ast.Assign) and isinstance(x.value, ast.Call) and u(x.value.func) == "max"
               and len(x.value.args) == 3), None)
    if mx is not None:
        mtxt, first_arg = seg(ph.module, mx.value), seg(ph.module, mx.value.args[0])  # type: ignore[union-attr]
        add("drained against phase 1 instead of the maximum", ENGINE, stmt_patch(ph, mx, lambda t, mtxt=mtxt, first_arg=first_arg: t.replace(mtxt, first_arg, 1)), "C06.3PH")
    if len(drains) >= 2:
        c1 = next((x for x in ast.walk(drains[0]) if isinstance(x, ast.Call) and method_call(x, None, "receive")), None)
        c2 = next((x for x in ast.walk(drains[1]) if isinstance(x, ast.Call) and method_call(x, None, "receive")), None)
        if c1 is not None and c2 is not None:
            r1, r2 = seg(ph.module, c1.func.value), seg(ph.module, c2.func.value)  # type: ignore[union-attr]
            add("drained from the wrong receiver", ENGINE, stmt_patch(ph, c2, lambda t, r1=r1, r2=r2: t.replace(f"{r2}.receive", f"{r1}.receive", 1)), "C06.3PH")
    ctor3 = next((c for c in calls_in(ph, lambda c: u(c.func).split("[")[0] == "Sample3Phase")), None)
    if mx is not None and ctor3 is not None:
        tsa = positional(ctor3, ["timestamp"]).get("timestamp")
        if tsa is not None and tsa.lineno > mx.lineno:
            ttxt = seg(ph.module, tsa)
            ind = " " * mx.col_offset
            n_before = tsa.lineno - mx.lineno

            def stale(t: str, ttxt: str = ttxt, ind: str = ind, n_before: int = n_before) -> str:
                ls = t.splitlines(keepends=True)
                ls[n_before] = ls[n_before].replace(ttxt, "stamp_before_drain", 1)
                return f"{ind}stamp_before_drain = {ttxt}\n" + "".join(ls)

            add("stamped with a pre-drain timestamp", ENGINE, src_patch(ph.module, mx.lineno, tsa.end_lineno or tsa.lineno, stale), "C06.3PH")
    # SYNC (shared with C05.ALIGN): the drain loops interchanged
    add("drain loops interchanged", EVAL, interchange_patch(prog), "C06.SYNC")
    # EMIT: the residual test inverted (every well-formed round raises)
    for m in ev.methods.values():
        hit = next((c for c in ast.walk(m.node) if isinstance(c, ast.Compare) and len(c.ops) == 1 and isinstance(c.ops[0], (ast.NotEq, ast.Eq))
                    and any(isinstance(x, ast.Call) and u(x.func) == "len" for x in (c.left, c.comparators[0]))
                    and any(isinstance(x, ast.Constant) and x.value == 1 for x in (c.left, c.comparators[0]))), None)
        if hit is not None:
            l, r = seg(m.module, hit.left), seg(m.module, hit.comparators[0])
            sym = "==" if isinstance(hit.ops[0], ast.NotEq) else "!="
            add("residual test inverted", EVAL, stmt_patch(m, hit, lambda t, hit=hit, l=l, r=r, sym=sym, m=m: t.replace(seg(m.module, hit), f"{l} {sym} {r}", 1)), "C06.EMIT")
            break
    # SYNC: reaching the latest timestamp exactly is made an error (`>` -> `>=` in the overshoot guard)
    for m in ev.methods.values():
        hit2 = next((i for i in ast.walk(m.node) if isinstance(i, ast.If) and isinstance(i.test, ast.Compare) and len(i.test.ops) == 1
                     and isinstance(i.test.ops[0], (ast.Gt, ast.Lt)) and any(isinstance(b, ast.Raise) for b in i.body)
                     and "timestamp" not in u(i.test) and not any(isinstance(x, ast.Call) for x in ast.walk(i.test))), None)
        if hit2 is not None:
            c = hit2.test
            l, r = seg(m.module, c.left), seg(m.module, c.comparators[0])  # type: ignore[attr-defined]
            sym = ">=" if isinstance(c.ops[0], ast.Gt) else "<="  # type: ignore[attr-defined]
            add("aligned group raises", EVAL, src_patch(m.module, hit2.lineno, c.end_lineno or hit2.lineno,
                                                      lambda t, c=c, l=l, r=r, sym=sym, m=m: t.replace(seg(m.module, c), f"{l} {sym} {r}", 1)), "C06.SYNC")
            break
    # TOTAL: evaluated samples are not sent; a step that forgets to push its result
    rn = prog.func(f"{ENGINE}:FormulaEngine._run")
    for st_ in (x for x in ast.walk(rn.node) if isinstance(x, ast.Expr) and isinstance(x.value, ast.Await)
                and isinstance(x.value.value, ast.Call) and method_call(x.value.value, None, "send")):
        add("evaluated sample not sent", ENGINE, stmt_patch(rn, st_, lambda t: f"{indent_of(t)}pass\n"), "C06.TOTAL")
        break
    ad = prog.func(f"{STEPS}:Adder.apply")
    for st_ in (x for x in ast.walk(ad.node) if isinstance(x, ast.Expr) and isinstance(x.value, ast.Call) and method_call(x.value, None, "append")):
        add("Adder does not push its result", STEPS, stmt_patch(ad, st_, lambda t: f"{indent_of(t)}pass\n"), "C06.TOTAL")
        break
    # TOTAL: Divider without its zero-divisor arm -- a defect of this property only while the engine loop drops the round of
    # an evaluation that raised (otherwise the control has no anchor on this tree and is left out)
    dv = prog.func(f"{STEPS}:Divider.apply")
    try:
        drops = engine_drops_round(Run("C06", "quick", 0), prog, rule=None)
    except AnalysisError:
        drops = False
    for x in (x for x in ast.walk(dv.node) if drops and isinstance(x, ast.IfExp) and isinstance(x.orelse, ast.BinOp) and isinstance(x.orelse.op, ast.Div)):
        txt, keep = seg(dv.module, x), seg(dv.module, x.orelse)
        add("Divider raises on a zero divisor", STEPS, stmt_patch(dv, x, lambda t, txt=txt, keep=keep: t.replace(txt, keep, 1)), "C06.TOTAL")
        break
    # SEND: the sample of the previous round is sent again after a failed evaluation -- try/except/else flattened without a
    # `continue` (or, where the loop already is flat, the handler's `continue` dropped)
    try:
        gt = engine_loop(prog).guarding_try()
    except AnalysisError:
        gt = None
    if gt is not None:
        holder, t = gt
        src_lines = holder.module.source.splitlines(keepends=True)
        is_send = lambda st: any(isinstance(c, ast.Call) and method_call(c, None, "send") for c in ast.walk(st))  # noqa: E731
        if t.orelse and any(is_send(st) for st in t.orelse) and not t.finalbody:
            first_, last_ = t.orelse[0], t.orelse[-1]
            else_ln = next((ln for ln in range(first_.lineno - 1, t.lineno, -1) if src_lines[ln - 1].strip() == "else:"), None)
            if else_ln is not None:
                shift = first_.col_offset - t.col_offset

                def flatten(txt: str, shift: int = shift) -> str:
                    body = txt.splitlines(keepends=True)[1:]
                    return "".join(l[shift:] if l[:shift].strip() == "" else l for l in body)

                add("send after a failed evaluation", ENGINE, src_patch(holder.module, else_ln, last_.end_lineno or last_.lineno, flatten), "C06.SEND")
        else:
            for h in t.handlers:
                if h.body and isinstance(h.body[-1], ast.Continue) and (h.type is None or u(h.type).split(".")[-1] in ("Exception", "BaseException")):
                    add("send after a failed evaluation", ENGINE, stmt_patch(holder, h.body[-1], lambda tx: f"{indent_of(tx)}pass\n"), "C06.SEND")
                    break
    # FRESH: the primary-error path hands out the cached fallback sample instead of reading the fallback stream
    fwf = prog.func(f"{MF}.fetch_next_with_fallback")
    for hd in (h for t_ in ast.walk(fwf.node) if isinstance(t_, ast.Try) for h in t_.handlers):
        ret = next((r_ for r_ in hd.body if isinstance(r_, ast.Return) and isinstance(r_.value, ast.Await)
                    and isinstance(r_.value.value, ast.Call) and method_call(r_.value.value, None, "receive")), None)
        if ret is not None:
            add("cached fallback sample handed out again", STEPS, stmt_patch(
                fwf, ret, lambda tx: f"{indent_of(tx)}return self._latest_fallback_sample\n"), "C06.FRESH")
            break
    # REALIGN: the steady-state re-synchronisation made conditional on something that is not a timestamp (a flag of the
    # evaluator); anchored at the branch that awaits the synchronisation: the operand(s) beside `_first_run`
    for m in ev.methods.values():
        hit3 = next((i for i in ast.walk(m.node) if isinstance(i, ast.If) and isinstance(i.test, ast.BoolOp) and isinstance(i.test.op, ast.Or)
                     and any(u(v) == "self._first_run" for v in i.test.values) and len(i.test.values) == 2
                     and any(isinstance(c, ast.Call) and _is_sync_call(c) for b in i.body for c in ast.walk(b))), None)
        if hit3 is not None:
            other = next(v for v in hit3.test.values if u(v) != "self._first_run")
            otxt = seg(m.module, other)
            add("re-synchronisation only when a flag of the evaluator says so", EVAL, src_patch(
                m.module, other.lineno, other.end_lineno or other.lineno,
                lambda t, otxt=otxt: t.replace(otxt, f"(self._resync_enabled and {otxt})", 1)), "C06.REALIGN")
            break
    # 3PH: the phases are aligned until they were in step once, then zipped as they arrive
    loop3 = next((w for w in ast.walk(ph.node) if isinstance(w, ast.While) and isinstance(w.test, ast.Constant)
                  and any(d is x for d in drains for x in ast.walk(w))), None)
    if loop3 is not None and mx is not None and drains and all(d.col_offset == mx.col_offset for d in drains) and mx.lineno > loop3.lineno:
        lo3, hi3 = mx.lineno, max(w.end_lineno or w.lineno for w in drains)
        ind_w, ind_b = " " * loop3.col_offset, " " * mx.col_offset

        def once(txt: str, lo3: int = lo3, hi3: int = hi3, base: int = loop3.lineno, ind_w: str = ind_w, ind_b: str = ind_b) -> str:
            ls = txt.splitlines(keepends=True)
            a_, b_ = lo3 - base, hi3 - base + 1
            block = "".join(("    " + l if l.strip() else l) for l in ls[a_:b_])
            return (f"{ind_w}_aligned_once = False\n" + "".join(ls[:a_]) + f"{ind_b}if not _aligned_once:\n" + block
                    + f"{ind_b}    _aligned_once = True\n" + "".join(ls[b_:]))

        add("phases aligned only until they were in step once", ENGINE, src_patch(ph.module, loop3.lineno, hi3, once), "C06.3PH")
    if len(out) < 6:
        raise AnalysisError(f"C06: only {len(out)} of 23 seeded controls could be derived from the source ({[o[0] for o in out]})")
    return out


def run_rules(run: Run, prog: Program) -> None:
    bind_sync(prog)
    try:
        rnd: Round | None = Round(prog)
    except RoundBroken as exc:
        rnd = None
        raw = prog.func(f"{FE}.apply")
        run.analysed(raw.qual)
        run.violation(exc.rule, raw.qual, exc.what, exc.message, node=raw.node, file=raw.file)
    if rnd is not None:
        check_all(run, prog, rnd)
        check_ts(run, prog, rnd)
        check_emit(run, prog, rnd)
        check_names(run, prog, rnd)
    check_one(run, prog)
    check_fresh(run, prog)
    check_send(run, prog)
    check_plain_primary(run, prog, "C06.ONE")
    check_sync(run, prog)
    check_realign(run, prog)
    fallback_sync(run, prog, rule="C06.FSYNC")
    check_3ph(run, prog)
    # no timestamp is skipped: a step that raises (or leaves the stack malformed) makes FormulaEngine._run drop the
    # whole round; and every sample apply() returns is sent
    drops = engine_drops_round(run, prog, rule="C06.TOTAL")
    check_steps(run, prog, drops, total_rule="C06.TOTAL", only_total=True)
    check_fetcher(run, prog, rule="C06.TOTAL", only_total=True)


def check(run: Run, prog: Program, tier: str) -> str:
    run.rule("C06.ALL", "one fetch per input per round, all awaited; incomplete rounds abort")
    run.rule("C06.ONE", "each input's primary stream is received exactly once per round; steps never receive")
    run.rule("C06.TS", "output timestamp from fetched samples only; steps evaluated after it is fixed; first run synchronises")
    run.rule("C06.SYNC", "first-run synchronisation drains every stream of every lagging group up to the latest first timestamp")
    run.rule("C06.FSYNC", "fallback synchronisation keeps per-timestamp alignment")
    run.rule("C06.3PH", "three-phase zip: every phase received each round and drained up to max(the three timestamps) before the "
             "sample is built from the three (now equally stamped) samples in phase order, stamped with their timestamp, and sent")
    run.rule("C06.EMIT", "a complete round (all inputs delivered, one residual value) makes apply() return its sample; "
             "assertions about delivered samples hold")
    run.rule("C06.TOTAL", "no abstract path of a step's apply() raises: FormulaEngine._run drops the round on any exception, "
             "after one sample was consumed from every input, i.e. the timestamp is skipped (shared with C13.TOTAL)")
    run.rule("C06.NAME", "a finished fetch task is mapped back to its stream by task name: apply() names the task of the fetcher "
             "stored under key K with K, the key the synchronisation looks up")
    run.rule("C06.SEND", "the loop that drives a formula sends the sample of this round, once: nothing is sent after an evaluation "
             "that raised, the argument of send is the value this round's apply() returned, one send per evaluation")
    run.rule("C06.FRESH", "every sample the fallback-aware fetch hands to a round was read from a stream in this call (or is the "
             "result of the fallback synchronisation called in it), never state kept from an earlier round")
    run.rule("C06.REALIGN", "in the steady state a round whose fetched samples carry different timestamps is never evaluated: it "
             "awaits the synchronisation routine, and nothing but the samples' timestamps (and the first run) decides that")
    run_rules(run, prog)
    run.floor("C06.REALIGN", 1)
    run.floor("C06.SEND", 3)
    run.floor("C06.FRESH", 2)
    run.floor("C06.NAME", 1)
    run.floor("C06.ALL", 3)
    run.floor("C06.ONE", 15)
    run.floor("C06.TS", 4)
    run.floor("C06.SYNC", 4)
    run.floor("C06.3PH", 8)
    run.floor("C06.TOTAL", 20)
    run.floor("C06.EMIT", 2)
    from ..engine.controls import run_controls

    run_controls(run, [] if run.violations else build_controls(prog), run_rules, tier)
    run.assume("input streams are themselves timestamp-synchronous once aligned (resampler output): one "
               "receive per stream per round then keeps them aligned")
    run.undecided("behaviour when receiver buffers overflow; a per-phase engine that skips a timestamp after the "
                  "three have been aligned (the drain handles a lagging phase, an overshooting one is re-aligned in "
                  "the next round)")
    return ("Exactly-once / must-precede path rules on the exception-aware CFGs of the evaluator and the "
            "metric fetcher; provenance of the emitted timestamp by reaching definitions (through locals, "
            "tuple unpacking and private helpers); three-valued path conditions (pending / None results, "
            "_first_run, ts <,=,> latest) deciding which CFG branches a scenario can take in the evaluator "
            "and in the first-run synchronisation; and the shared fallback-synchronisation rules.")
