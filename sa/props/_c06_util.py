"""Def-use / path-condition helpers shared by the formula-evaluator rules (C05.EVAL, C06, C13.OUT, C19.LAZY).

Nothing here knows a local-variable name of the analysed code: roles are bound by dataflow.

  Flow            one function: CFG + exception-aware reaching definitions + `origin()` (where does
                  the value of this expression come from?), followed through plain copies, tuple
                  unpacking, parameters of private helpers (back to the caller's argument) and the
                  return values of private helpers.
  Org             a leaf of that resolution ("expr" evaluated at a CFG node / "item" i of an unpacked
                  value / "iter" element of an iterated expression / "param" / "global" / "other").
  tri()           three-valued evaluation of a branch condition under an assignment of atoms.
  pruned()        edge filter for CFG.path()/reachable(): branches contradicting the assignment are cut.
  result_sites()  constructor calls that produce a function's return value, also inside private
                  helpers the function returns through.
  spliced() / inline_all()   analysis copies with private helpers read in.  Before that, on the copy:
                  desugar_branches() turns `T = A if c else B` / `if a and b:` that hide an await or a
                  private call into the if-statements they abbreviate, and _hoist_helper_call() gives a
                  helper called in the middle of an expression (`if await self._h(x) > y:`, a tuple
                  element, a call argument) a statement of its own when it is evaluated unconditionally
                  and first -- so a loop moved into a helper *that returns a value used in a condition*
                  is read like the loop written in line.
"""
from __future__ import annotations

import ast
import copy
from dataclasses import dataclass
from typing import Any, Callable, Iterable, Iterator

from ..engine.cfg import CFG, own_parts
from ..engine.normalize import ANCHOR_NAMES, _bind, _simple_helper, _strip_doc, _suite_lists, inline_helpers
from ..engine.report import AnalysisError
from ..engine.resolver import FuncInfo, FuncNode, Program
from ..engine.util import _flatten_target, u

Tri = bool | None


def parts_of(n: Any) -> list[ast.AST]:
    """own_parts() of a CFG node, except that a nested def / class statement contributes nothing: its
    body is not evaluated where it is defined."""
    if isinstance(n.ast, (ast.FunctionDef, ast.AsyncFunctionDef, ast.ClassDef)):
        return []
    return own_parts(n)


def unawait(e: ast.AST | None) -> ast.AST | None:
    while isinstance(e, ast.Await):
        e = e.value
    return e


# functions bound by role (see first_run_sync_name): like the engine's ANCHOR_NAMES they are analysed in
# their own right and never spliced into their callers
KEEP_NAMES: set[str] = set()


def first_run_sync_name(prog: Program) -> str:
    """Name of the first-run synchronisation of FormulaEvaluator, bound by role: the method (other than
    __init__) that clears `self._first_run`; `_synchronize_metric_timestamps` is only the hint."""
    cls = prog.cls("timeseries.formula_engine._formula_evaluator:FormulaEvaluator")
    hint = "_synchronize_metric_timestamps"
    if hint in cls.methods:
        KEEP_NAMES.add(hint)
        return hint
    cands = []
    for m in cls.methods.values():
        if m.name == "__init__":
            continue
        for x in ast.walk(m.node):
            if isinstance(x, (ast.Assign, ast.AnnAssign)) and isinstance(x.value, ast.Constant) and x.value.value is False and any(
                    isinstance(t, ast.Attribute) and t.attr == "_first_run" for t in (x.targets if isinstance(x, ast.Assign) else [x.target])):
                cands.append(m.name)
                break
    # a trivial flag-clearing helper does not count when its only caller is another candidate... keep it simple:
    cands = [c for c in cands if any(isinstance(x, (ast.For, ast.AsyncFor, ast.While)) for x in ast.walk(cls.methods[c].node))] or cands
    if len(cands) != 1:
        raise AnalysisError(f"{cls.qual}: no method plays the role of the first-run synchronisation (candidates: {cands})")
    KEEP_NAMES.add(cands[0])
    return cands[0]


VALID_HINT = "_is_value_valid"


def validity_name(prog: Program) -> str | None:
    """The shared validity predicate of MetricFetcher, bound by role: the private method (instance or static)
    that fetch_next_with_fallback() -- or, failing that, the paths of fetch_next() -- consult on `<the received
    primary sample>.value`.  `_is_value_valid` is only the hint; None when the test is written in line."""
    cls = prog.cls("timeseries.formula_engine._formula_steps:MetricFetcher")
    if VALID_HINT in cls.methods:
        return VALID_HINT
    cands: set[str] = set()
    order = [m for m in cls.methods.values() if m.name == "fetch_next_with_fallback"] + \
        [m for m in cls.methods.values() if m.name != "fetch_next_with_fallback"]
    for holder in order:
        fl = Flow(prog, holder)
        recv = [c for _n, c in fl.calls(lambda c: isinstance(c.func, ast.Attribute) and c.func.attr == "receive" and u(c.func.value) == "self._stream")]
        for nid, c in fl.calls(lambda c: isinstance(c.func, ast.Attribute) and isinstance(c.func.value, ast.Name)
                               and c.func.value.id in ("self", "cls", cls.name) and c.func.attr.startswith("_") and c.func.attr in cls.methods
                               and not cls.methods[c.func.attr].is_async):
            args = list(c.args) + [k.value for k in c.keywords]
            if len(args) != 1:
                continue
            o = fl.origin1(args[0], nid)
            if o is not None and o.kind == "expr" and isinstance(o.node, ast.Attribute) and o.node.attr == "value" \
                    and fl.is_node_any(o.node.value, recv, o.nid):
                cands.add(c.func.attr)  # type: ignore[union-attr]
        if cands:
            break
    if len(cands) > 1:
        raise AnalysisError(f"{cls.qual}: several methods judge the received sample's value: {sorted(cands)}")
    name = cands.pop() if cands else None
    if name is not None:
        KEEP_NAMES.add(name)
    return name


def is_validity_call(e: ast.AST, name: str | None) -> ast.AST | None:
    """The argument of a call of the validity predicate (`self.` / `cls.` / `MetricFetcher.` <name>(x)), else None."""
    if name is not None and isinstance(e, ast.Call) and isinstance(e.func, ast.Attribute) and e.func.attr == name \
            and isinstance(e.func.value, ast.Name) and len(e.args) + len(e.keywords) == 1:
        return (list(e.args) + [k.value for k in e.keywords])[0]
    return None


def private_callee(prog: Program, fn: FuncInfo, call: ast.Call) -> FuncInfo | None:
    """The private, non-anchored helper of the same class / module a call resolves to."""
    f = call.func
    tgt: FuncInfo | None = None
    if isinstance(f, ast.Name) and f.id.startswith("_") and f.id in fn.module.functions:
        tgt = fn.module.functions[f.id]
    elif isinstance(f, ast.Attribute) and isinstance(f.value, ast.Name) and fn.cls is not None \
            and f.attr.startswith("_") and not f.attr.startswith("__") \
            and f.value.id in ("self", "cls", fn.cls.name):
        m = prog.resolve_method(fn.cls, f.attr)
        if m is not None and not any(f.attr in sub.methods for sub in prog.subclasses(fn.cls)):
            tgt = m
    if tgt is None or tgt.name in ANCHOR_NAMES or tgt.name in KEEP_NAMES or tgt.node is fn.node:
        return None
    return tgt


def _wants_statement(e: ast.AST) -> bool:
    """The expression awaits something or calls a private function: only a statement of its own lets the
    splicers read the callee in / lets the CFG see the suspension point on its own branch."""
    for x in ast.walk(e):
        if isinstance(x, ast.Await):
            return True
        if isinstance(x, ast.Call):
            f = x.func
            if (isinstance(f, ast.Name) and f.id.startswith("_")) or (
                    isinstance(f, ast.Attribute) and isinstance(f.value, ast.Name) and f.value.id in ("self", "cls") and f.attr.startswith("_")
                    and not f.attr.startswith("__")):
                return True
    return False


def desugar_branches(root: FuncNode) -> bool:
    """Expression-level branching that hides an await / a private call is rewritten (in place, on an analysis copy)
    as the statement-level branching it abbreviates:

        T = A if c else B            ->  if c: T = A
        return A if c else B             else: T = B              (likewise `return`, annotated assignment)
        if a and b: <body>           ->  if a:
                                             if b: <body>         (no else arm; a later operand awaits / calls)

    Both are exact: the same operands are evaluated in the same order under the same conditions."""
    changed_any = False
    for _ in range(4):
        changed = False
        for suite in list(_suite_lists(root)):
            for i, s in enumerate(suite):
                if isinstance(s, (ast.Assign, ast.AnnAssign, ast.Return)) and isinstance(s.value, ast.IfExp) \
                        and (_wants_statement(s.value.body) or _wants_statement(s.value.orelse)) \
                        and (not isinstance(s, ast.Assign) or all(isinstance(t, ast.Name) for t in s.targets)) \
                        and (not isinstance(s, ast.AnnAssign) or isinstance(s.target, ast.Name)):
                    arms = []
                    for v in (s.value.body, s.value.orelse):
                        s2 = copy.copy(s)
                        s2.value = v
                        arms.append(s2)
                    suite[i] = ast.copy_location(ast.If(test=s.value.test, body=[arms[0]], orelse=[arms[1]]), s)
                    changed = True
                elif isinstance(s, ast.If) and not s.orelse and isinstance(s.test, ast.BoolOp) and isinstance(s.test.op, ast.And):
                    vals = s.test.values
                    k = next((j for j in range(1, len(vals)) if _wants_statement(vals[j])), None)
                    if k is not None:
                        head = vals[0] if k == 1 else ast.copy_location(ast.BoolOp(op=ast.And(), values=vals[:k]), s.test)
                        rest = vals[k] if k == len(vals) - 1 else ast.copy_location(ast.BoolOp(op=ast.And(), values=vals[k:]), s.test)
                        inner = ast.copy_location(ast.If(test=rest, body=s.body, orelse=[]), s)
                        suite[i] = ast.copy_location(ast.If(test=head, body=[inner], orelse=[]), s)
                        changed = True
        changed_any = changed_any or changed
        if not changed:
            break
    if changed_any:
        ast.fix_missing_locations(root)
    return changed_any


def _evaluated_before(parent: ast.AST, child: ast.AST) -> list[ast.AST] | None:
    """The sub-expressions of `parent` evaluated before its operand `child`, when `child` is evaluated on every
    evaluation of `parent`; None when it is conditional (short-circuit, IfExp arm, chained comparison) or sits in
    a scope of its own (lambda, comprehension)."""
    def upto(seq: list[Any]) -> list[ast.AST] | None:
        out: list[ast.AST] = []
        for x in seq:
            if x is child:
                return out
            if x is not None:
                out.append(x)
        return None

    if isinstance(parent, ast.UnaryOp):
        return [] if parent.operand is child else None
    if isinstance(parent, (ast.Await, ast.keyword)):
        return [] if parent.value is child else None
    if isinstance(parent, (ast.Attribute, ast.Starred, ast.NamedExpr, ast.FormattedValue)):
        return [] if parent.value is child else upto([parent.value, getattr(parent, "format_spec", None)])
    if isinstance(parent, ast.BinOp):
        return upto([parent.left, parent.right])
    if isinstance(parent, ast.Compare):
        return upto([parent.left, parent.comparators[0]])
    if isinstance(parent, ast.BoolOp):
        return [] if parent.values[0] is child else None
    if isinstance(parent, ast.IfExp):
        return [] if parent.test is child else None
    if isinstance(parent, ast.Subscript):
        return upto([parent.value, parent.slice])
    if isinstance(parent, ast.Slice):
        return upto([parent.lower, parent.upper, parent.step])
    if isinstance(parent, ast.Call):
        before = upto([parent.func, *parent.args, *parent.keywords])
        return None if before is None else [b.value if isinstance(b, ast.keyword) else b for b in before]
    if isinstance(parent, (ast.Tuple, ast.List, ast.Set)):
        return upto(list(parent.elts))
    if isinstance(parent, ast.Dict):
        return upto([x for kv in zip(parent.keys, parent.values) for x in kv])
    if isinstance(parent, ast.JoinedStr):
        return upto(list(parent.values))
    return None


def _hoist_helper_call(s: ast.stmt, tmp: str, target_of: Callable[[ast.Call], FuncInfo | None]) -> ast.stmt | None:
    """A helper called in the middle of an expression (`if await self._h(a) > b:`, `return f(self._h(a))`,
    `x = 1 + await h(a)`, `return (await h(a), await h(b))`, `for y in self._h(a):`): when the call is evaluated on
    every execution of the statement, exactly once, and before everything else in it that could have or see an
    effect, it is moved in front of the statement (`tmp = await self._h(a)`; the statement reads `tmp`) -- the new
    statement is returned, and is then a whole-statement call the splicers can read in.  `target_of` says which
    calls are worth it (the callee the splicer would accept).  None when there is no such call."""
    if isinstance(s, (ast.If, ast.Assert)):
        own: ast.AST | None = s.test
    elif isinstance(s, (ast.For, ast.AsyncFor)):
        own = s.iter
    elif isinstance(s, (ast.Return, ast.Expr, ast.Assign, ast.AnnAssign)) or (isinstance(s, ast.AugAssign) and isinstance(s.target, ast.Name)):
        own = s.value
    else:
        own = None
    if own is None:
        return None
    parent: dict[int, ast.AST] = {}
    for p in ast.walk(own):
        for c in ast.iter_child_nodes(p):
            parent[id(c)] = p
    for call in ast.walk(own):
        if not isinstance(call, ast.Call):
            continue
        top: ast.AST = call
        if isinstance(parent.get(id(call)), ast.Await):
            top = parent[id(call)]
        if top is own:
            continue
        tgt = target_of(call)
        if tgt is None or tgt.is_async != (top is not call):
            continue
        # every ancestor evaluates it unconditionally, and what is evaluated earlier is a plain local / constant
        # (or the method looked up for an enclosing call): nothing the helper could change, nothing that acts
        node, good = top, True
        while good and node is not own:
            par = parent[id(node)]
            before = _evaluated_before(par, node)
            good = before is not None and all(
                isinstance(b, (ast.Name, ast.Constant)) or (isinstance(par, ast.Call) and b is par.func and isinstance(b, ast.Attribute)
                                                           and isinstance(b.value, ast.Name)) for b in before)
            node = par
        if not good:
            continue
        par = parent[id(top)]
        new = ast.copy_location(ast.Name(id=tmp, ctx=ast.Load()), top)
        for field, val in ast.iter_fields(par):
            if val is top:
                setattr(par, field, new)
            elif isinstance(val, list):
                for k, x in enumerate(val):
                    if x is top:
                        val[k] = new
        return ast.copy_location(ast.Assign(targets=[ast.Name(id=tmp, ctx=ast.Store())], value=top), s)
    return None


def splice_blocks(prog: Program, fn: FuncInfo, depth: int = 3) -> FuncNode:
    """Copy of `fn` in which every statement that is just a call of a simple private helper
    (`h(...)`, `x = h(...)`, `return h(...)`, awaited or not) is replaced by
    `param__k = argument ...; <helper body, its names suffixed>; x = <returned expression>`.
    Unlike substitution this keeps every argument evaluated once, in order, and works for helpers
    that re-assign their parameters; reaching definitions see through the parameter copies."""
    root = copy.deepcopy(fn.node)
    counter = hoists = 0
    for _ in range(depth):
        changed = desugar_branches(root)
        nested = {n.name: n for n in ast.walk(root) if isinstance(n, (ast.FunctionDef, ast.AsyncFunctionDef)) and n is not root}
        for suite in list(_suite_lists(root)):
            i = 0
            while i < len(suite):
                s = suite[i]
                val = s.value if isinstance(s, (ast.Expr, ast.Assign, ast.AnnAssign, ast.Return)) else None
                call = unawait(val) if val is not None else None
                tgt = private_callee(prog, fn, call) if isinstance(call, ast.Call) else None
                if tgt is None and isinstance(call, ast.Call) and isinstance(call.func, ast.Name) and call.func.id in nested \
                        and not any(s is x for x in ast.walk(nested[call.func.id])):
                    # a closure defined in this very function: its free variables are this function's locals
                    tgt = FuncInfo(call.func.id, fn.module, nested[call.func.id], None, fn)
                if tgt is None and hoists < 24 and not isinstance(s, (ast.FunctionDef, ast.AsyncFunctionDef, ast.ClassDef)):
                    # a block helper called in the middle of the statement's expression: moved in front of it first
                    def block_helper(c: ast.Call, s: ast.stmt = s) -> FuncInfo | None:
                        t = private_callee(prog, fn, c)
                        if t is None and isinstance(c.func, ast.Name) and c.func.id in nested \
                                and not any(s is x for x in ast.walk(nested[c.func.id])):
                            t = FuncInfo(c.func.id, fn.module, nested[c.func.id], None, fn)
                        if t is None or _simple_helper(t.node) != "block" or _bind(t.node, c) is None \
                                or any(isinstance(x, (ast.Yield, ast.YieldFrom, ast.Global, ast.Nonlocal)) for x in ast.walk(t.node)):
                            return None
                        return t

                    moved = _hoist_helper_call(s, f"hoisted__{hoists + 1}", block_helper)
                    if moved is not None:
                        hoists += 1
                        suite.insert(i, moved)
                        changed = True
                        continue
                if tgt is None or counter >= 24 or _simple_helper(tgt.node) is None or tgt.is_async != isinstance(val, ast.Await) \
                        or any(isinstance(x, (ast.Yield, ast.YieldFrom, ast.Global, ast.Nonlocal)) for x in ast.walk(tgt.node)):
                    i += 1
                    continue
                assert isinstance(call, ast.Call)
                binds = _bind(tgt.node, call)
                hbody = _strip_doc(tgt.node.body)
                early = any(isinstance(x, ast.Return) and x is not hbody[-1] for st in hbody for x in ast.walk(st))
                if binds is None or (early and not isinstance(s, ast.Return)):
                    # (a helper's early `return` is the caller's only in `return h(...)`: left to the substituting splicer)
                    i += 1
                    continue
                counter += 1
                hb = copy.deepcopy(_strip_doc(tgt.node.body))
                ren = {n: f"{n}__{tgt.name.strip('_')}{counter}" for n in set(binds) | {
                    x.id for st in hb for x in ast.walk(st) if isinstance(x, ast.Name) and isinstance(x.ctx, (ast.Store, ast.Del))}}
                for st in hb:
                    for x in ast.walk(st):
                        if isinstance(x, ast.Name) and x.id in ren:
                            x.id = ren[x.id]
                        elif isinstance(x, ast.ExceptHandler) and x.name in ren:
                            x.name = ren[x.name]
                pre: list[ast.stmt] = [ast.copy_location(ast.Assign(
                    targets=[ast.Name(id=ren[p], ctx=ast.Store())], value=copy.deepcopy(a)), s) for p, a in binds.items()]
                tail = hb[-1] if hb and isinstance(hb[-1], ast.Return) else None
                body = hb[:-1] if tail is not None else hb
                new: list[ast.stmt] = pre + body
                if not isinstance(s, ast.Expr):
                    s2 = copy.copy(s)
                    s2.value = tail.value if tail is not None and tail.value is not None else ast.Constant(None)  # type: ignore[attr-defined]
                    new.append(s2)
                elif tail is not None and tail.value is not None:
                    new.append(ast.copy_location(ast.Expr(value=tail.value), s))
                suite[i:i + 1] = new or [ast.copy_location(ast.Pass(), s)]
                changed = True
                i += len(pre)  # continue inside the spliced body on the next round
        if not changed:
            break
    ast.fix_missing_locations(root)
    return root


def spliced(prog: Program, fn: FuncInfo) -> FuncInfo:
    """`fn` with simple private helpers spliced into its body (analysis-only copy)."""
    node = splice_blocks(prog, fn)
    # the engine's substitution-based splicer cannot bind parameters a helper re-assigns: leave those calls alone
    cands = list(fn.module.functions.values()) + (list(fn.cls.methods.values()) if fn.cls is not None else [])
    rebinds = set()
    for h in cands:
        ps = {a.arg for a in h.node.args.posonlyargs + h.node.args.args + h.node.args.kwonlyargs}
        if any(isinstance(x, ast.Name) and isinstance(x.ctx, (ast.Store, ast.Del)) and x.id in ps for x in ast.walk(h.node)):
            rebinds.add(h.name)
    return FuncInfo(fn.name, fn.module, inline_helpers(prog, fn, node=node, exclude=rebinds | KEEP_NAMES), fn.cls, fn.outer)


# ---------------------------------------------------------------------------------------------
@dataclass
class Org:
    kind: str  # expr | item | iter | param | global | other
    flow: "Flow"
    node: ast.AST | None = None  # expr: the expression; item: the unpacked value; iter: the iterated expression
    nid: int | None = None
    idx: int | None = None
    name: str = ""

    def call(self) -> ast.Call | None:
        """The (possibly awaited) call this origin is, if it is one."""
        e = unawait(self.node) if self.kind == "expr" else None
        return e if isinstance(e, ast.Call) else None

    def text(self) -> str:
        if self.kind in ("expr", "item", "iter"):
            return f"{self.kind}:{u(self.node)}" + (f"[{self.idx}]" if self.idx is not None else "")
        return f"{self.kind}:{self.name}"


class Flow:
    def __init__(self, prog: Program, fn: FuncInfo, binds: dict[str, tuple["Flow", int, ast.AST]] | None = None,
                 depth: int = 0) -> None:
        self.prog = prog
        self.fn = fn
        self.cfg = CFG(fn.node, fn.file)
        self.binds = binds
        self.depth = depth
        a = fn.node.args
        self.params = [x.arg for x in a.posonlyargs + a.args + a.kwonlyargs]
        if a.vararg:
            self.params.append(a.vararg.arg)
        if a.kwarg:
            self.params.append(a.kwarg.arg)
        self._nid_of: dict[int, int] = {}
        self._parent: dict[int, ast.AST] = {}
        for n in self.cfg.nodes:
            if n.ast is None:
                continue
            for part in parts_of(n):
                for x in ast.walk(part):
                    self._nid_of.setdefault(id(x), n.id)
                    for ch in ast.iter_child_nodes(x):
                        self._parent.setdefault(id(ch), x)
        self._children: dict[int, Flow | None] = {}
        self.live = self.cfg.reachable([self.cfg.entry])

    # ---------------------------------------------------------------- locating
    def node_of(self, expr: ast.AST) -> int:
        nid = self._nid_of.get(id(expr))
        if nid is None:
            raise AnalysisError(f"{self.fn.qual}: expression `{u(expr)}` is not part of the function's CFG")
        return nid

    def nodes_calling(self, pred: Callable[[ast.Call], bool]) -> list[int]:
        out = []
        for n in self.cfg.nodes:
            if n.ast is None or n.id not in self.live:
                continue
            if any(isinstance(x, ast.Call) and pred(x) for part in parts_of(n) for x in ast.walk(part)):
                out.append(n.id)
        return out

    def calls(self, pred: Callable[[ast.Call], bool]) -> list[tuple[int, ast.Call]]:
        out = []
        for n in self.cfg.nodes:
            if n.ast is None or n.id not in self.live:
                continue
            for part in parts_of(n):
                for x in ast.walk(part):
                    if isinstance(x, ast.Call) and pred(x):
                        out.append((n.id, x))
        return out

    def _comp_binding(self, name: ast.Name) -> ast.comprehension | None:
        """The comprehension clause that binds `name`, when it is a comprehension variable."""
        cur: ast.AST = name
        prev: ast.AST = name
        while id(cur) in self._parent:
            prev, cur = cur, self._parent[id(cur)]
            if isinstance(cur, (ast.ListComp, ast.SetComp, ast.GeneratorExp, ast.DictComp)):
                gens = list(cur.generators)
                if isinstance(prev, ast.comprehension):  # inside clause k: bound by clauses before it (+ itself in its ifs)
                    k = gens.index(prev)
                    in_iter = any(x is name for x in ast.walk(prev.iter))
                    gens = gens[:k] if in_iter else gens[:k + 1]
                for g in reversed(gens):
                    if any(isinstance(t, ast.Name) and t.id == name.id for t in ast.walk(g.target)):
                        return g
        return None

    # ---------------------------------------------------------------- reaching definitions
    def _writes(self, nid: int) -> list[ast.AST]:
        n = self.cfg.nodes[nid]
        out: list[ast.AST] = []
        if n.ast is None:
            return out
        if n.kind == "for":
            return _flatten_target(n.ast.target)  # type: ignore[attr-defined]
        if n.kind == "with":
            ov = getattr(n.ast, "optional_vars", None)
            return _flatten_target(ov) if ov is not None else []
        if n.kind == "handler":
            nm = getattr(n.ast, "name", None)
            return [ast.Name(id=nm, ctx=ast.Store())] if nm else []
        for part in parts_of(n):
            for x in ast.walk(part):
                if isinstance(x, (ast.FunctionDef, ast.AsyncFunctionDef, ast.ClassDef)) and x is not part:
                    continue
                if isinstance(x, ast.Assign):
                    for t in x.targets:
                        out.extend(_flatten_target(t))
                elif isinstance(x, ast.AugAssign):
                    out.append(x.target)
                elif isinstance(x, ast.AnnAssign) and x.value is not None:
                    out.append(x.target)
                elif isinstance(x, ast.NamedExpr):
                    out.append(x.target)
                elif isinstance(x, (ast.Import, ast.ImportFrom)):
                    out.extend(ast.Name(id=(al.asname or al.name).split(".")[0], ctx=ast.Store()) for al in x.names)
                elif isinstance(x, (ast.FunctionDef, ast.AsyncFunctionDef, ast.ClassDef)):
                    out.append(ast.Name(id=x.name, ctx=ast.Store()))
        return out

    def defs(self, nid: int, name: str, edge_ok: Callable[[int, int, str], bool] | None = None) -> tuple[list[int], bool]:
        """Nodes whose completed write of `name` reaches the entry of node `nid`; and whether the
        function entry reaches it without any write (parameter / global / unbound)."""
        out: list[int] = []
        from_entry = False
        seen: set[int] = set()
        stack = [nid]
        # under a scenario only what the scenario can execute (forward from the entry) counts
        live = self.live if edge_ok is None else self.cfg.reachable([self.cfg.entry], edge_ok=edge_ok)
        while stack:
            n = stack.pop()
            for p, lab in self.cfg.pred[n]:
                if p not in live or (edge_ok is not None and not edge_ok(p, n, lab)):
                    continue
                completed = not lab.startswith("exc:")
                if completed and any(isinstance(w, ast.Name) and w.id == name for w in self._writes(p)):
                    if p not in out:
                        out.append(p)
                    continue
                if p == self.cfg.entry:
                    from_entry = True
                    continue
                if p in seen:
                    continue
                seen.add(p)
                stack.append(p)
        return sorted(out), from_entry

    def _def_value(self, d: int, name: str) -> tuple[str, ast.AST | None, int | None]:
        """('expr', value, None) | ('item', value, i) | ('iter', iterable, i|None) | ('other', None, None)."""
        n = self.cfg.nodes[d]
        a = n.ast
        if n.kind == "for":
            tgt = a.target  # type: ignore[union-attr]
            if isinstance(tgt, ast.Name):
                return "iter", a.iter, None  # type: ignore[union-attr]
            if isinstance(tgt, (ast.Tuple, ast.List)):
                for i, e in enumerate(tgt.elts):
                    if isinstance(e, ast.Name) and e.id == name:
                        return "iter", a.iter, i  # type: ignore[union-attr]
            return "other", None, None
        if n.kind != "stmt":
            return "other", None, None
        if isinstance(a, ast.AnnAssign) and isinstance(a.target, ast.Name) and a.target.id == name and a.value is not None:
            return "expr", a.value, None
        if isinstance(a, ast.Assign):
            for t in a.targets:
                if isinstance(t, ast.Name) and t.id == name:
                    return "expr", a.value, None
                if isinstance(t, (ast.Tuple, ast.List)):
                    for i, e in enumerate(t.elts):
                        if isinstance(e, ast.Name) and e.id == name:
                            if isinstance(a.value, (ast.Tuple, ast.List)) and len(a.value.elts) == len(t.elts) \
                                    and not any(isinstance(x, ast.Starred) for x in a.value.elts + t.elts):
                                return "expr", a.value.elts[i], None
                            return "item", a.value, i
        return "other", None, None

    # ---------------------------------------------------------------- helpers of this class / module
    def callee(self, call: ast.Call) -> FuncInfo | None:
        return private_callee(self.prog, self.fn, call)

    def child(self, call: ast.Call, nid: int | None = None) -> "Flow | None":
        """Flow of the helper called by `call`, its parameters bound to this call's arguments."""
        key = id(call)
        if key in self._children:
            return self._children[key]
        res: Flow | None = None
        tgt = self.callee(call)
        if tgt is not None and self.depth < 4:
            b = _bind(tgt.node, call)
            if b is not None:
                at = nid if nid is not None else self.node_of(call)
                res = Flow(self.prog, tgt, {k: (self, at, v) for k, v in b.items()}, self.depth + 1)
        self._children[key] = res
        return res

    # ---------------------------------------------------------------- origin resolution
    def origin(self, expr: ast.AST, nid: int | None = None, through_helpers: bool = True, _fuel: int = 24,
               scenario: Callable[["Flow"], Callable[[int, int, str], bool]] | None = None) -> list[Org]:
        """Where the value of `expr` (evaluated at CFG node `nid`) comes from.  With `scenario` (an
        edge filter per function, see pruned()) only definitions that reach along branches the scenario
        can take are followed."""
        if nid is None:
            nid = self.node_of(expr)
        if _fuel <= 0:
            return [Org("other", self, name="<too deep>")]
        if isinstance(expr, ast.Name) and isinstance(expr.ctx, ast.Load):
            g = self._comp_binding(expr) if id(expr) in self._parent else None
            if g is not None:
                idx = None
                if isinstance(g.target, (ast.Tuple, ast.List)):
                    idx = next((i for i, e in enumerate(g.target.elts) if isinstance(e, ast.Name) and e.id == expr.id), None)
                return [Org("iter", self, g.iter, nid, idx, expr.id)]
            defs, from_entry = self.defs(nid, expr.id, scenario(self) if scenario is not None else None)
            out: list[Org] = []
            if from_entry:
                if expr.id in self.params:
                    if self.binds is not None and expr.id in self.binds:
                        cf, cn, arg = self.binds[expr.id]
                        out.extend(cf.origin(arg, cn, through_helpers, _fuel - 1, scenario))
                    else:
                        out.append(Org("param", self, name=expr.id))
                elif not defs:
                    out.append(Org("global", self, name=expr.id))
                else:
                    out.append(Org("other", self, name=f"{expr.id} (possibly unbound)"))
            for d in defs:
                kind, val, i = self._def_value(d, expr.id)
                if kind == "expr" and isinstance(val, ast.Constant) and val.value is None and len(defs) > 1 \
                        and not self._none_reaches(d, nid, expr.id, defs):
                    continue  # `v = None` is cut off from this use by `v is None` / `v is not None` tests
                if kind == "expr":
                    assert val is not None
                    out.extend(self.origin(val, d, through_helpers, _fuel - 1, scenario))
                elif kind in ("item", "iter"):
                    out.append(Org(kind, self, val, d, i, expr.id))
                else:
                    out.append(Org("other", self, nid=d, name=expr.id))
            return out
        if through_helpers:
            c = unawait(expr)
            if isinstance(c, ast.Call):
                ch = self.child(c, nid)
                if ch is not None:
                    out = []
                    taken = ch.cfg.reachable([ch.cfg.entry], edge_ok=scenario(ch)) if scenario is not None else ch.live
                    for r in ch.returns():
                        if r not in taken:
                            continue
                        v = ch.cfg.nodes[r].ast.value  # type: ignore[union-attr]
                        if v is None:
                            out.append(Org("expr", ch, ast.Constant(None), r))
                        else:
                            out.extend(ch.origin(v, r, through_helpers, _fuel - 1, scenario))
                    return out
        return [Org("expr", self, expr, nid)]

    def _none_reaches(self, d: int, use: int, name: str, defs: list[int]) -> bool:
        """Can the value None assigned to `name` at node d reach node `use`, given the None-tests on the way?"""
        def atom(e: ast.AST, _nid: int) -> Tri:
            ta = truth_atom(e)
            if ta is not None and isinstance(ta[0], ast.Name) and ta[0].id == name:
                return ta[1]
            if isinstance(e, ast.Name) and e.id == name:
                return False
            return None
        others = [x for x in defs if x != d]
        if d == use:
            return True
        return self.cfg.path(d, [use], avoid=others, edge_ok=pruned(self.cfg, atom, normal_only=False), include_src=False) is not None

    def origin1(self, expr: ast.AST, nid: int | None = None) -> Org | None:
        o = self.origin(expr, nid)
        return o[0] if len(o) == 1 else None

    def is_node(self, expr: ast.AST, target: ast.AST, nid: int | None = None) -> bool:
        """Does `expr` denote exactly the value produced by the expression node `target`?"""
        o = self.origin(expr, nid)
        return bool(o) and all(x.kind == "expr" and (x.node is target or unawait(x.node) is unawait(target)) for x in o)

    def is_node_any(self, expr: ast.AST, targets: Iterable[ast.AST], nid: int | None = None) -> bool:
        tg = [unawait(t) for t in targets]
        o = self.origin(expr, nid)
        return bool(o) and all(x.kind == "expr" and any(unawait(x.node) is t for t in tg) for x in o)

    def returns(self) -> list[int]:
        return [n.id for n in self.cfg.nodes if isinstance(n.ast, ast.Return) and n.id in self.live and n.kind == "stmt"]


# ---------------------------------------------------------------------------------------------
def tri(expr: ast.AST, atom: Callable[[ast.AST], Tri]) -> Tri:
    """Kleene evaluation of a condition; `atom` decides the non-boolean-operator leaves (or None)."""
    if isinstance(expr, ast.BoolOp):
        vals = [tri(v, atom) for v in expr.values]
        if isinstance(expr.op, ast.And):
            if any(v is False for v in vals):
                return False
            return True if all(v is True for v in vals) else None
        if any(v is True for v in vals):
            return True
        return False if all(v is False for v in vals) else None
    if isinstance(expr, ast.UnaryOp) and isinstance(expr.op, ast.Not):
        v = tri(expr.operand, atom)
        return None if v is None else (not v)
    if isinstance(expr, ast.Constant) and isinstance(expr.value, bool):
        return expr.value
    if isinstance(expr, ast.Compare) and len(expr.ops) > 1:
        vals = []
        left = expr.left
        for op, right in zip(expr.ops, expr.comparators):
            vals.append(atom(ast.Compare(left=left, ops=[op], comparators=[right])))
            left = right
        if any(v is False for v in vals):
            return False
        return True if all(v is True for v in vals) else None
    return atom(expr)


def pruned(cfg: CFG, atom: Callable[[ast.AST, int], Tri], normal_only: bool = True) -> Callable[[int, int, str], bool]:
    """edge_ok for CFG searches: a branch whose condition is decided by `atom` only goes that way."""
    cache: dict[int, Tri] = {}
    busy: set[int] = set()
    subject_of: dict[int, ast.AST] = {}
    for st in ast.walk(cfg.fn):
        if isinstance(st, ast.Match):
            for c in st.cases:
                subject_of[id(c)] = st.subject

    def as_test(pat: ast.pattern, subj: ast.AST) -> ast.AST | None:
        """`case <pattern>` read as a condition on the subject (value / or / wildcard patterns)."""
        if isinstance(pat, ast.MatchValue):
            return ast.Compare(left=subj, ops=[ast.Eq()], comparators=[pat.value])
        if isinstance(pat, ast.MatchSingleton):
            return ast.Compare(left=subj, ops=[ast.Is()], comparators=[ast.Constant(pat.value)])
        if isinstance(pat, ast.MatchOr):
            parts = [as_test(x, subj) for x in pat.patterns]
            return ast.BoolOp(op=ast.Or(), values=parts) if all(x is not None for x in parts) else None  # type: ignore[arg-type]
        if isinstance(pat, ast.MatchAs) and pat.pattern is None:
            return ast.Constant(True)
        return None

    def ok(a: int, _b: int, lab: str) -> bool:
        if normal_only and lab.startswith("exc:"):
            return False
        n = cfg.nodes[a]
        if n.kind == "case" and lab in ("case", "nocase") and id(n.ast) in subject_of:
            if a not in cache:
                t = as_test(n.ast.pattern, subject_of[id(n.ast)])  # type: ignore[union-attr]
                v0: Tri = None
                if t is not None and a not in busy:
                    busy.add(a)
                    try:
                        v0 = tri(t, lambda e: atom(e, a))
                        if v0 is True and n.ast.guard is not None:  # type: ignore[union-attr]
                            v0 = tri(n.ast.guard, lambda e: atom(e, a))  # type: ignore[union-attr]
                    finally:
                        busy.discard(a)
                cache[a] = v0
            v1 = cache[a]
            return v1 is None or v1 == (lab == "case")
        if lab not in ("true", "false"):
            return True
        if n.kind == "test":
            test = n.ast
        elif n.kind == "while":
            test = n.ast.test  # type: ignore[union-attr]
        else:
            return True
        if a not in cache:
            if a in busy:  # an atom that asks about reaching definitions may come back here (loops): undecided
                return True
            busy.add(a)
            try:
                cache[a] = tri(test, lambda e: atom(e, a))  # type: ignore[arg-type]
            finally:
                busy.discard(a)
        v = cache[a]
        return v is None or v == (lab == "true")

    return ok


def lifted(flow: Flow, atom: Callable[[ast.AST, int], Tri], fuel: int = 4,
           scenario: Callable[[Flow], Callable[[int, int, str], bool]] | None = None) -> Callable[[ast.AST, int], Tri]:
    """`atom` extended to boolean locals: a name holding a condition computed earlier in the same
    function (`bad = isnan(x) or isinf(x)` ... `if bad:`, or a flag set to a constant in one arm and to a
    condition in another) is decided by evaluating what it was assigned -- every definition that can
    reach (under `scenario`, if given) must give the same verdict."""
    def atom2(e: ast.AST, nid: int) -> Tri:
        v = atom(e, nid)
        if v is None:
            ta = truth_atom(e)
            if ta is not None and isinstance(ta[0], ast.Name):
                o = flow.origin(ta[0], nid, scenario=scenario)
                if o and all(q.kind == "expr" and isinstance(q.node, ast.Constant) and q.node.value is None for q in o):
                    return ta[1]  # every definition that can reach assigns None
        if v is None and isinstance(e, ast.Name) and fuel > 0:
            verdicts: set[Tri] = set()
            for o in flow.origin(e, nid, scenario=scenario):
                if o.kind == "expr" and o.flow is flow and o.node is not None and o.nid is not None \
                        and isinstance(o.node, (ast.BoolOp, ast.UnaryOp, ast.Compare, ast.Call, ast.Attribute, ast.Constant)):
                    inner = lifted(flow, atom, fuel - 1, scenario)
                    at = o.nid
                    if isinstance(o.node, ast.Constant) and not isinstance(o.node.value, bool):
                        verdicts.add(None if o.node.value is None else bool(o.node.value))
                    else:
                        verdicts.add(tri(o.node, lambda x: inner(x, at)))
                else:
                    verdicts.add(None)
            if len(verdicts) == 1:
                return verdicts.pop()
        return v

    return atom2


def truth_atom(e: ast.AST) -> tuple[ast.AST, bool] | None:
    """`x is None` / `x is not None` / `x == None`...: (x, is_none_when_true)."""
    if isinstance(e, ast.Compare) and len(e.ops) == 1:
        a, b, op = e.left, e.comparators[0], e.ops[0]
        if isinstance(b, ast.Constant) and b.value is None:
            x = a
        elif isinstance(a, ast.Constant) and a.value is None:
            x = b
        else:
            return None
        if isinstance(op, (ast.Is, ast.Eq)):
            return x, True
        if isinstance(op, (ast.IsNot, ast.NotEq)):
            return x, False
    return None


def cmp_eval(op: ast.cmpop, a: Any, b: Any) -> Tri:
    try:
        if isinstance(op, ast.Lt):
            return a < b
        if isinstance(op, ast.LtE):
            return a <= b
        if isinstance(op, ast.Gt):
            return a > b
        if isinstance(op, ast.GtE):
            return a >= b
        if isinstance(op, ast.Eq):
            return a == b
        if isinstance(op, ast.NotEq):
            return a != b
    except TypeError:
        return None
    return None


# ---------------------------------------------------------------------------------------------
@dataclass
class Site:
    flow: Flow
    nid: int  # node evaluating the constructor call
    call: ast.Call
    chain: list[tuple[Flow, int]]  # (flow, node) pairs that must all be passed to produce this value: call sites + returns

    def args(self, params: list[str]) -> dict[str, ast.AST]:
        out: dict[str, ast.AST] = {}
        for p, a in zip(params, self.call.args):
            out[p] = a
        for k in self.call.keywords:
            if k.arg is not None:
                out[k.arg] = k.value
        return out


def result_sites(flow: Flow, is_ctor: Callable[[ast.Call], bool], _chain: list[tuple[Flow, int]] | None = None,
                 _fuel: int = 6) -> list[Site]:
    """Constructor calls whose result `flow`'s function returns (directly, through locals, conditional
    expressions or private helpers).  Anything else being returned is an AnalysisError."""
    out: list[Site] = []
    chain = _chain or []
    if _fuel <= 0:
        raise AnalysisError(f"{flow.fn.qual}: helper nesting too deep while following the returned value")
    for r in flow.returns():
        v = flow.cfg.nodes[r].ast.value  # type: ignore[union-attr]
        if v is None:
            raise AnalysisError(f"{flow.fn.qual}: bare return where a sample is expected")
        out.extend(_value_sites(flow, r, v, is_ctor, chain + [(flow, r)], _fuel))
    return out


def _value_sites(flow: Flow, nid: int, expr: ast.AST, is_ctor: Callable[[ast.Call], bool],
                 chain: list[tuple[Flow, int]], fuel: int) -> list[Site]:
    e = unawait(expr)
    assert e is not None
    if isinstance(e, ast.Call) and is_ctor(e):
        return [Site(flow, nid, e, chain)]
    if isinstance(e, ast.IfExp):
        return _value_sites(flow, nid, e.body, is_ctor, chain, fuel) + _value_sites(flow, nid, e.orelse, is_ctor, chain, fuel)
    if isinstance(e, ast.Name):
        out: list[Site] = []
        for o in flow.origin(e, nid, through_helpers=False):
            if o.kind != "expr" or o.node is None or o.nid is None or isinstance(unawait(o.node), ast.Name):
                raise AnalysisError(f"{flow.fn.qual}: cannot tell what `{u(e)}` holds when it is returned ({o.text()})")
            out.extend(_value_sites(o.flow, o.nid, o.node, is_ctor, chain + [(o.flow, o.nid)], fuel))
        return out
    if isinstance(e, ast.Call):
        ch = flow.child(e, nid)
        if ch is not None:
            return result_sites(ch, is_ctor, chain, fuel - 1)
    raise AnalysisError(f"{flow.fn.qual}: cannot interpret the returned value `{u(e)}`")


def site_live(site: Site, atom_for: Callable[[Flow], Callable[[ast.AST, int], Tri]],
              start: dict[int, int] | None = None) -> bool:
    """Can the site's value be produced under the assignment?  Every (flow, node) of its chain must
    be reachable from its function's entry along branches consistent with the assignment."""
    for fl, nid in site.chain:
        src = fl.cfg.entry
        if fl.cfg.path(src, [nid], edge_ok=pruned(fl.cfg, atom_for(fl))) is None and nid != src:
            return False
    return True


def select_ifexp(expr: ast.AST, atom: Callable[[ast.AST], Tri]) -> list[ast.AST]:
    """The alternatives of a (nested) conditional expression consistent with the assignment."""
    if isinstance(expr, ast.IfExp):
        v = tri(expr.test, atom)
        out: list[ast.AST] = []
        if v is not False:
            out.extend(select_ifexp(expr.body, atom))
        if v is not True:
            out.extend(select_ifexp(expr.orelse, atom))
        return out
    return [expr]


def walk_calls(node: ast.AST) -> Iterator[ast.Call]:
    for x in ast.walk(node):
        if isinstance(x, ast.Call):
            yield x


def transitive_helpers(flow: Flow, limit: int = 12) -> list[FuncInfo]:
    """Private non-anchored helpers reachable from the function through calls (for whole-body scans)."""
    out: list[FuncInfo] = []
    todo = [flow]
    seen = {id(flow.fn.node)}
    while todo and len(out) < limit:
        f = todo.pop()
        for c in walk_calls(f.fn.node):
            t = f.callee(c)
            if t is not None and id(t.node) not in seen:
                seen.add(id(t.node))
                out.append(t)
                todo.append(Flow(f.prog, t, None, f.depth + 1))
    return out


def names_eq(a: Iterable[Org], b: Iterable[Org]) -> bool:
    ka = {(o.kind, id(unawait(o.node)) if o.node is not None else o.name, o.idx) for o in a}
    kb = {(o.kind, id(unawait(o.node)) if o.node is not None else o.name, o.idx) for o in b}
    return ka == kb


# ---------------------------------------------------------------------------------------------
# seeded controls derived from the live source: the anchor is found by structure, the textual patch is
# cut out of the module's own text, so renamed locals / changed log texts do not make a control vanish
def src_patch(module: Any, first: int, last: int, edit: Callable[[str], str]) -> tuple[str, str] | None:
    """(old, new) for sa.engine.controls: lines first..last (1-based, inclusive) of the module's source
    rewritten by `edit`; context lines are added above until `old` occurs exactly once."""
    lines = module.source.splitlines(keepends=True)
    lo, hi = first - 1, last
    if lo < 0 or hi > len(lines) or lo >= hi:
        return None
    old = "".join(lines[lo:hi])
    new = edit(old)
    while module.source.count(old) != 1 and lo > 0:
        lo -= 1
        old = lines[lo] + old
        new = lines[lo] + new
    return (old, new) if module.source.count(old) == 1 and old != new else None


def seg(module: Any, node: ast.AST) -> str:
    return ast.get_source_segment(module.source, node) or ""


def stmt_patch(fn: FuncInfo, node: ast.AST, edit: Callable[[str], str]) -> tuple[str, str] | None:
    """Patch covering the source lines of `node` (a statement or expression of fn)."""
    return src_patch(fn.module, node.lineno, getattr(node, "end_lineno", node.lineno), edit)  # type: ignore[attr-defined]


def indent_of(line: str) -> str:
    return line[: len(line) - len(line.lstrip())]


# ---------------------------------------------------------------------------------------------
class HelperCalls:
    """Mixin for sa.engine.absint.Interp subclasses: a call of a private function of the analysed
    module, or of a (non-property) method the analysed class defines or inherits, is *interpreted* in
    the same abstract run -- several returns, tuple results, re-assigned parameters, try/except in the
    helper are all just code.  Set `helper_prog` / `helper_module` / `helper_cls` before exploring.
    `helper_keep` names methods the concrete interpreter models itself (they are left to it)."""

    helper_prog: Any = None
    helper_module: Any = None
    helper_cls: Any = None
    helper_keep: tuple[str, ...] = ()

    def bind_helpers(self, prog: Program, fn: FuncInfo, keep: Iterable[str] = ()) -> Any:
        self.helper_prog, self.helper_module, self.helper_cls = prog, fn.module, fn.cls
        self.helper_keep = tuple(keep)
        return self

    def unknown_name(self, ident: str, node: ast.AST) -> Any:
        from ..engine.absint import Closure

        m = self.helper_module
        if m is not None and ident in m.functions:
            return Closure(m.functions[ident].node, {})
        return super().unknown_name(ident, node)  # type: ignore[misc]

    def get_attr(self, base: Any, attr: str, node: ast.AST) -> Any:
        from ..engine.absint import Closure, Obj

        if isinstance(base, Obj) and attr not in base.fields and attr not in self.helper_keep \
                and self.helper_cls is not None and self.helper_prog is not None and getattr(base, "cls", None) in ("self", "Builder"):
            meth = self.helper_prog.resolve_method(self.helper_cls, attr)
            if meth is not None:
                decos = {u(d) for d in meth.node.decorator_list}
                if "staticmethod" in decos:
                    return Closure(meth.node, {})
                if not (decos & {"property", "abstractmethod"}) and not any(d.endswith(".setter") for d in decos):
                    return ("boundmethod", meth.node, base)
        return super().get_attr(base, attr, node)  # type: ignore[misc]

    def apply_other(self, fn: Any, pos: list[Any], kw: dict[str, Any], node: ast.AST) -> Any:
        if isinstance(fn, tuple) and fn and fn[0] == "boundmethod":
            args = self.bind_args(fn[1], pos, kw, self_value=fn[2])  # type: ignore[attr-defined]
            return self.call_node(fn[1], args, {})  # type: ignore[attr-defined]
        return super().apply_other(fn, pos, kw, node)  # type: ignore[misc]


# ---------------------------------------------------------------------------------------------
def inline_all(prog: Program, fn: FuncInfo, stop: Iterable[str] = (), depth: int = 5) -> FuncInfo:
    """The *unit of behaviour* view of `fn`: every statement that is just a call of a private method /
    module function / local closure (`h(..)`, `x = h(..)`, `return h(..)`, awaited or not) is replaced
    by the callee's body, whatever its shape and whether or not the engine lists it as an anchor:

        p__k = <argument> ...                      # parameters, evaluated once and in order
        while True:                                # only when the callee has early returns
            <body, `return v` -> `__ret_k = v; break`>
            __ret_k = None; break
        x = __ret_k

    so that rules can be stated on the paths of the public entry point (one tick, one call) and do not
    care which private function holds which part.  Callees named in `stop`, callees whose `return` sits
    inside one of their own loops, generators and recursive calls are left as calls.  The names of
    the functions read in are recorded in `node._inlined`."""
    stop_s = set(stop)
    root = copy.deepcopy(fn.node)
    inlined: set[str] = set()
    counter = 0

    def callee_of(call: ast.Call, nested: dict[str, FuncNode]) -> FuncInfo | None:
        f = call.func
        tgt: FuncInfo | None = None
        if isinstance(f, ast.Name) and f.id in nested:
            tgt = FuncInfo(f.id, fn.module, nested[f.id], None, fn)
        elif isinstance(f, ast.Name) and f.id.startswith("_") and f.id in fn.module.functions:
            tgt = fn.module.functions[f.id]
        elif isinstance(f, ast.Attribute) and isinstance(f.value, ast.Name) and fn.cls is not None \
                and f.attr.startswith("_") and not f.attr.startswith("__") and f.value.id in ("self", "cls", fn.cls.name):
            m = prog.resolve_method(fn.cls, f.attr)
            if m is not None and not any(f.attr in sub.methods for sub in prog.subclasses(fn.cls)):
                tgt = m
        if tgt is None or tgt.name in stop_s or tgt.node is fn.node:
            return None
        if any(u(d) in ("property", "abstractmethod") for d in tgt.node.decorator_list):
            return None
        return tgt

    def returns_in_loops(body: list[ast.stmt]) -> bool:
        def walk(stmts: list[ast.stmt], in_loop: bool) -> bool:
            for st in stmts:
                if isinstance(st, (ast.FunctionDef, ast.AsyncFunctionDef, ast.ClassDef)):
                    continue
                if isinstance(st, ast.Return) and in_loop:
                    return True
                loop = in_loop or isinstance(st, (ast.For, ast.AsyncFor, ast.While))
                for field in ("body", "orelse", "finalbody"):
                    sub = getattr(st, field, None)
                    if isinstance(sub, list) and sub and isinstance(sub[0], ast.stmt) and walk(sub, loop):
                        return True
                for h in getattr(st, "handlers", []):
                    if walk(h.body, loop):
                        return True
                for c in getattr(st, "cases", []):
                    if walk(c.body, loop):
                        return True
            return False
        return walk(body, False)

    def replace_returns(stmts: list[ast.stmt], ret: str) -> list[ast.stmt]:
        out: list[ast.stmt] = []
        for st in stmts:
            if isinstance(st, (ast.FunctionDef, ast.AsyncFunctionDef, ast.ClassDef)):
                out.append(st)
                continue
            if isinstance(st, ast.Return):
                val = st.value if st.value is not None else ast.Constant(None)
                out.append(ast.copy_location(ast.Assign(targets=[ast.Name(id=ret, ctx=ast.Store())], value=val), st))
                out.append(ast.copy_location(ast.Break(), st))
                continue
            for field in ("body", "orelse", "finalbody"):
                sub = getattr(st, field, None)
                if isinstance(sub, list) and sub and isinstance(sub[0], ast.stmt):
                    setattr(st, field, replace_returns(sub, ret))
            for h in getattr(st, "handlers", []):
                h.body = replace_returns(h.body, ret)
            for c in getattr(st, "cases", []):
                c.body = replace_returns(c.body, ret)
            out.append(st)
        return out

    def simple(e: ast.AST) -> bool:
        """Evaluating `e` has no effect and cannot observe one (so a later argument may be computed before it)."""
        return isinstance(e, (ast.Name, ast.Constant)) or (isinstance(e, ast.Attribute) and simple(e.value))

    hoists = 0
    for _ in range(depth):
        changed = desugar_branches(root)
        nested = {n.name: n for n in ast.walk(root) if isinstance(n, (ast.FunctionDef, ast.AsyncFunctionDef)) and n is not root}
        # `f(a, self._h(..))` / `x = g(await self._h(..))`: a private-helper call that is a direct argument of the
        # statement's outermost call, all earlier arguments being plain names, is given a name of its own first
        for suite in list(_suite_lists(root)):
            i = 0
            while i < len(suite):
                s = suite[i]
                val = s.value if isinstance(s, (ast.Expr, ast.Assign, ast.AnnAssign, ast.Return)) else None
                outer_call = unawait(val) if val is not None else None
                if isinstance(outer_call, ast.Call) and simple(outer_call.func if not isinstance(outer_call.func, ast.Attribute) else outer_call.func.value) \
                        and not any(isinstance(a, ast.Starred) for a in outer_call.args):
                    slots: list[tuple[Any, Any]] = [(outer_call.args, j) for j in range(len(outer_call.args))] + \
                        [(k, "value") for k in outer_call.keywords]
                    for holder, key in slots:
                        arg = holder[key] if isinstance(holder, list) else getattr(holder, key)
                        inner = unawait(arg)
                        if isinstance(inner, ast.Call) and callee_of(inner, nested) is not None and hoists < 20:
                            hoists += 1
                            tmp = f"__arg_{hoists}"
                            suite.insert(i, ast.copy_location(ast.Assign(targets=[ast.Name(id=tmp, ctx=ast.Store())], value=arg), s))
                            new_arg = ast.copy_location(ast.Name(id=tmp, ctx=ast.Load()), arg)
                            if isinstance(holder, list):
                                holder[key] = new_arg
                            else:
                                setattr(holder, key, new_arg)
                            changed = True
                            i += 1
                            break
                        if not simple(arg):
                            break
                i += 1
        for suite in list(_suite_lists(root)):
            i = 0
            while i < len(suite):
                s = suite[i]
                val = s.value if isinstance(s, (ast.Expr, ast.Assign, ast.AnnAssign, ast.Return)) else None
                call = unawait(val) if val is not None else None
                tgt = callee_of(call, nested) if isinstance(call, ast.Call) else None
                if tgt is not None and isinstance(call.func, ast.Name) and call.func.id in nested \
                        and any(s is x for x in ast.walk(nested[call.func.id])):
                    tgt = None  # a closure calling itself
                if tgt is None and hoists < 20 and not isinstance(s, (ast.FunctionDef, ast.AsyncFunctionDef, ast.ClassDef)):
                    # a callee in the middle of the statement's expression (a tuple element, an operand of a comparison, an
                    # `if` test ...), evaluated unconditionally and first: given a statement of its own, then read in
                    def readable(c: ast.Call, s: ast.stmt = s) -> FuncInfo | None:
                        t = callee_of(c, nested)
                        if t is None or (isinstance(c.func, ast.Name) and c.func.id in nested and any(s is x for x in ast.walk(nested[c.func.id]))):
                            return None
                        b0 = _strip_doc(t.node.body)
                        if _bind(t.node, c) is None or not b0 or returns_in_loops(b0) \
                                or any(isinstance(x, (ast.Yield, ast.YieldFrom, ast.Global, ast.Nonlocal)) for x in ast.walk(t.node)):
                            return None
                        return t

                    moved = _hoist_helper_call(s, f"__mid_{hoists + 1}", readable)
                    if moved is not None:
                        hoists += 1
                        suite.insert(i, moved)
                        changed = True
                        continue
                if tgt is None or counter >= 40 or tgt.is_async != isinstance(val, ast.Await) \
                        or any(isinstance(x, (ast.Yield, ast.YieldFrom, ast.Global, ast.Nonlocal)) for x in ast.walk(tgt.node)):
                    i += 1
                    continue
                assert isinstance(call, ast.Call)
                body0 = _strip_doc(tgt.node.body)
                binds = _bind(tgt.node, call)
                if binds is None or not body0 or returns_in_loops(body0):
                    i += 1
                    continue
                counter += 1
                tag = f"{tgt.name.strip('_')}{counter}"
                hb = copy.deepcopy(body0)
                ren = {n: f"{n}__{tag}" for n in set(binds) | {
                    x.id for st in hb for x in ast.walk(st) if isinstance(x, ast.Name) and isinstance(x.ctx, (ast.Store, ast.Del))}}
                for st in hb:
                    for x in ast.walk(st):
                        if isinstance(x, ast.Name) and x.id in ren:
                            x.id = ren[x.id]
                        elif isinstance(x, ast.ExceptHandler) and x.name in ren:
                            x.name = ren[x.name]
                pre: list[ast.stmt] = [ast.copy_location(ast.Assign(
                    targets=[ast.Name(id=ren[p], ctx=ast.Store())], value=copy.deepcopy(a)), s) for p, a in binds.items()]
                n_ret = sum(1 for st in hb for x in ast.walk(st) if isinstance(x, ast.Return))
                straight = n_ret == 0 or (n_ret == 1 and isinstance(hb[-1], ast.Return))
                new: list[ast.stmt]
                if straight:
                    tail = hb[-1] if isinstance(hb[-1], ast.Return) else None
                    new = pre + (hb[:-1] if tail is not None else hb)
                    result: ast.AST = tail.value if tail is not None and tail.value is not None else ast.Constant(None)
                else:
                    ret = f"__ret_{tag}"
                    wbody = replace_returns(hb, ret) + [
                        ast.copy_location(ast.Assign(targets=[ast.Name(id=ret, ctx=ast.Store())], value=ast.Constant(None)), s),
                        ast.copy_location(ast.Break(), s)]
                    new = pre + [ast.copy_location(ast.While(test=ast.Constant(True), body=wbody, orelse=[]), s)]
                    result = ast.Name(id=ret, ctx=ast.Load())
                if not isinstance(s, ast.Expr):
                    s2 = copy.copy(s)
                    s2.value = result  # type: ignore[attr-defined]
                    new.append(s2)
                suite[i:i + 1] = new or [ast.copy_location(ast.Pass(), s)]
                inlined.add(tgt.name)
                changed = True
                i += len(pre)
        if not changed:
            break
    ast.fix_missing_locations(root)
    root._inlined = inlined  # type: ignore[attr-defined]
    return FuncInfo(fn.name, fn.module, root, fn.cls, fn.outer)


def expr_guards(flow: Flow, sub: ast.AST) -> list[tuple[ast.AST, bool]]:
    """Conditions inside the same statement under which the sub-expression `sub` is evaluated at all:
    (test, required outcome) for every enclosing conditional expression arm and every earlier operand of an
    enclosing `and` / `or` (short-circuit)."""
    out: list[tuple[ast.AST, bool]] = []
    cur: ast.AST = sub
    while id(cur) in flow._parent:
        par = flow._parent[id(cur)]
        if isinstance(par, ast.IfExp):
            if cur is par.body:
                out.append((par.test, True))
            elif cur is par.orelse:
                out.append((par.test, False))
        elif isinstance(par, ast.BoolOp):
            need = isinstance(par.op, ast.And)
            for v in par.values:
                if v is cur:
                    break
                out.append((v, need))
        elif isinstance(par, (ast.ListComp, ast.SetComp, ast.GeneratorExp, ast.DictComp, ast.Lambda)):
            break
        cur = par
    return out


# ---------------------------------------------------------------------------------------------
def rereport(run: Any, scratch: Any, rules: Iterable[str], as_rule: str) -> None:
    """A clause decided by a sibling checker is also a clause of this property: its obligations (run on the
    scratch Run of the sibling) are counted, and its violations reported, under this property's rule id."""
    wanted = tuple(rules)
    for q in sorted(scratch.functions):
        run.analysed(q)
    for rid in wanted:
        for item in scratch.rules.get(rid, {}).get("items", []):
            run.ok(as_rule, f"{rid}: {item}")
    bad = [v for v in scratch.violations if v.rule in wanted]
    for v in bad:
        file, _, line = v.where.rpartition(":")
        node = ast.Pass(lineno=int(line), col_offset=0) if line.isdigit() else None
        # the obligation was counted as discharged above: take that back through the violation bookkeeping
        run.violation(as_rule, v.function, v.construct, f"[{v.rule}] {v.message}", node=node,
                      file=(file if line.isdigit() else v.where) or None, path=v.path)


# ---------------------------------------------------------------------------------------------
EVAL_CLS = "timeseries.formula_engine._formula_evaluator:FormulaEvaluator"


def resyncs_on_divergence(prog: Program) -> tuple[bool, str]:
    """Does the consumer re-align its inputs whenever they are out of step?  Decided on FormulaEvaluator.apply()
    (private helpers read in, the synchronisation routine kept as a call), in the steady state (`_first_run` false),
    for rounds whose fetched samples carry 2 and 3 distinct timestamps: no path reaches a `return` without passing
    an awaited call of the synchronisation routine; with one distinct timestamp a return is reachable without it.
    The "distinct timestamps" test is recognised as len(<set of .timestamp>) against a constant, any/all over a
    (in)equality of .timestamp values, or min(..) against max(..) of .timestamp values."""
    hit = getattr(prog, "_resync_verdict", None)    # cached on the program itself (a control builds its own Program)
    if hit is None:
        hit = _resyncs_on_divergence(prog)
        prog._resync_verdict = hit  # type: ignore[attr-defined]
    return hit


def _resyncs_on_divergence(prog: Program) -> tuple[bool, str]:
    raw = prog.func(f"{EVAL_CLS}.apply")
    sync = first_run_sync_name(prog)
    fn = inline_all(prog, raw, stop={sync})
    fl = Flow(prog, fn)
    cfg = fl.cfg
    sync_nodes = [nid for nid, c in fl.calls(lambda c: isinstance(c.func, ast.Attribute) and c.func.attr == sync and u(c.func.value) == "self")
                  if isinstance(fl._parent.get(id(c)), ast.Await)]
    if not sync_nodes:
        raise AnalysisError(f"{raw.qual}: no awaited call of the synchronisation routine `{sync}`")
    rets = fl.returns()
    if not rets:
        raise AnalysisError(f"{raw.qual}: no return")

    def ts_elems(e: ast.AST) -> bool:
        """a comprehension / generator whose element is `<x>.timestamp`"""
        return isinstance(e, (ast.SetComp, ast.ListComp, ast.GeneratorExp)) and isinstance(e.elt, ast.Attribute) and e.elt.attr == "timestamp"

    def filled_with_timestamps(f: Flow, name: str, want_set: bool) -> bool:
        """the local `name` starts empty and is only ever grown by `.add(<x>.timestamp)` (a set; `.append` for a list)"""
        grow, other = 0, 0
        for c in ast.walk(f.fn.node):
            if isinstance(c, ast.Call) and isinstance(c.func, ast.Attribute) and isinstance(c.func.value, ast.Name) and c.func.value.id == name:
                ok_m = c.func.attr == "add" or (not want_set and c.func.attr == "append")
                if ok_m and len(c.args) == 1 and not c.keywords and isinstance(c.args[0], ast.Attribute) and c.args[0].attr == "timestamp":
                    grow += 1
                elif c.func.attr in ("add", "append", "update", "extend", "discard", "remove", "pop", "clear", "insert",
                                     "difference_update", "intersection_update", "symmetric_difference_update"):
                    other += 1
        return grow > 0 and other == 0

    def ts_collection(f: Flow, e: ast.AST, nid: int, want_set: bool) -> bool:
        if ts_elems(e) and (isinstance(e, ast.SetComp) or not want_set):
            return True
        org = f.origin(e, nid)
        if isinstance(e, ast.Name) and org and all(
                q.kind == "expr" and ((isinstance(q.node, ast.Call) and u(q.node.func).split("[")[0] in (("set",) if want_set else ("set", "list"))
                                       and not q.node.args and not q.node.keywords)
                                      or (not want_set and isinstance(q.node, ast.List) and not q.node.elts)) for q in org) \
                and filled_with_timestamps(f, e.id, want_set):
            return True
        for q in org:
            x = q.node if q.kind == "expr" else None
            if isinstance(x, ast.SetComp) and ts_elems(x):
                continue
            if isinstance(x, ast.Call) and u(x.func) in ("set", "frozenset") and len(x.args) == 1 and (
                    ts_elems(x.args[0]) or (q.nid is not None and ts_collection(q.flow, x.args[0], q.nid, False))):
                continue
            if not want_set and x is not None and ts_elems(x):
                continue
            return False
        return bool(org)

    def scene(distinct: int, f: Flow, depth: int = 0) -> Any:
        def atom(e: ast.AST, nid: int) -> bool | None:
            if isinstance(e, (ast.Name, ast.Attribute)):
                o = f.origin(e, nid, through_helpers=False)
                if o and all(x.kind == "expr" and u(x.node) == "self._first_run" for x in o):
                    return False
            if isinstance(e, ast.Compare) and len(e.ops) == 1:
                a, b, op = e.left, e.comparators[0], e.ops[0]
                for x, y, flip in ((a, b, False), (b, a, True)):
                    if isinstance(x, ast.Call) and u(x.func) == "len" and len(x.args) == 1 and isinstance(y, ast.Constant) \
                            and isinstance(y.value, int) and not isinstance(y.value, bool) and ts_collection(f, x.args[0], nid, True):
                        return cmp_eval(op, y.value, distinct) if flip else cmp_eval(op, distinct, y.value)
                    if isinstance(x, ast.Call) and isinstance(y, ast.Call) and u(x.func) == "min" and u(y.func) == "max" \
                            and len(x.args) == 1 and len(y.args) == 1 and ts_collection(f, x.args[0], nid, False) \
                            and ts_collection(f, y.args[0], nid, False):
                        lo, hi = (0, 0) if distinct == 1 else (0, 1)
                        return cmp_eval(op, hi, lo) if flip else cmp_eval(op, lo, hi)
            if isinstance(e, ast.Call) and u(e.func) in ("any", "all") and len(e.args) == 1 and isinstance(e.args[0], (ast.GeneratorExp, ast.ListComp)):
                c = e.args[0].elt
                if isinstance(c, ast.Compare) and len(c.ops) == 1 and isinstance(c.ops[0], (ast.Eq, ast.NotEq)) and all(
                        (isinstance(z, ast.Attribute) and z.attr == "timestamp") or isinstance(z, ast.Name) for z in (c.left, c.comparators[0])) and any(
                        isinstance(z, ast.Attribute) and z.attr == "timestamp" for z in (c.left, c.comparators[0])) and not e.args[0].generators[0].ifs:
                    differ_somewhere = distinct > 1
                    if isinstance(c.ops[0], ast.NotEq):
                        return differ_somewhere if u(e.func) == "any" else None
                    return (not differ_somewhere) if u(e.func) == "all" else None
            if isinstance(e, ast.Call) and depth < 3:
                # a private predicate helper: decided when all of its returns agree
                ch = f.child(e, nid)
                if ch is not None and not ch.fn.is_async:
                    inner = lifted(ch, scene(distinct, ch, depth + 1))
                    verdicts = set()
                    for r in ch.returns():
                        v = ch.cfg.nodes[r].ast.value  # type: ignore[union-attr]
                        verdicts.add(None if v is None else tri(v, lambda x, r=r: inner(x, r)))
                    if len(verdicts) == 1:
                        return verdicts.pop()
            return None
        return atom

    normal = {d: pruned(cfg, lifted(fl, scene(d, fl))) for d in (1, 2, 3)}

    def escapes(w: list[tuple[int, str]], d: int) -> list[tuple[ast.AST, list[str]]]:
        """(test, its undecided leaves) of every branch on the witness that decides between re-synchronising and not: the
        witness takes one arm, the other arm leads to the synchronisation, and the round's timestamps (and `_first_run`)
        do not decide the test -- so something else does."""
        at = lifted(fl, scene(d, fl))
        out: list[tuple[ast.AST, list[str]]] = []
        for (a, _l), (b, lab) in zip(w, w[1:]):
            n = cfg.nodes[a]
            test = n.ast if n.kind == "test" else (n.ast.test if n.kind == "while" else None)  # type: ignore[union-attr]
            if test is None or lab not in ("true", "false"):
                continue
            other = [m for m, l2 in cfg.succ[a] if l2 in ("true", "false") and l2 != lab]
            if not other or not (set(sync_nodes) & cfg.reachable(other, edge_ok=normal[d])):
                continue
            loose: list[str] = []

            def walk(e: ast.AST, a: int = a, loose: list[str] = loose) -> None:
                if isinstance(e, ast.BoolOp):
                    for v in e.values:
                        walk(v)
                elif isinstance(e, ast.UnaryOp) and isinstance(e.op, ast.Not):
                    walk(e.operand)
                elif tri(e, lambda x: at(x, a)) is None:
                    loose.append(u(e))

            walk(test)
            if loose:
                out.append((test, loose))
        return out

    for d in (2, 3):
        w = cfg.path(cfg.entry, rets, avoid=sync_nodes, edge_ok=normal[d])
        if w is not None:
            esc = escapes(w, d)
            prog._resync_blame = [t for t, _ls in esc]  # type: ignore[attr-defined]
            extra = ""
            if esc:
                extra = ("; whether the round is re-synchronised is decided by " + ", ".join(f"`{x}`" for _t, ls in esc for x in ls)
                         + f" (in `{u(esc[0][0])[:90]}`), which is not a fact about the round's timestamps")
            return False, (f"in the steady state a round whose samples carry {d} different timestamps can be evaluated without "
                           f"the synchronisation routine `{sync}` being awaited: " + " -> ".join(cfg.describe_path(w)[-6:]) + extra)
    if cfg.path(cfg.entry, rets, avoid=sync_nodes, edge_ok=normal[1]) is None:
        return False, "no steady-state path evaluates an aligned round without re-synchronising (the recognised test was not found)"
    return True, f"{raw.qual}: a round whose samples carry different timestamps always awaits `{sync}` before it is evaluated"



# ---------------------------------------------------------------------------------------------
# A local that mirrors an attribute of `self` (`latest = self._cache` ... `latest = await self._read_and_store(..)`):
# decided by a path-sensitive copy / None-ness analysis, not by the spelling
_NONE, _TRUE, _FALSE = 0, -1, -2
AliasState = tuple[tuple[tuple[str, Any], ...], frozenset[int]]


def _boolean_expr(e: ast.AST) -> bool:
    if isinstance(e, ast.Compare) or (isinstance(e, ast.Constant) and isinstance(e.value, bool)):
        return True
    if isinstance(e, ast.UnaryOp) and isinstance(e.op, ast.Not):
        return True
    return isinstance(e, ast.BoolOp) and all(_boolean_expr(v) for v in e.values)


def attr_writers(cls: Any, attr: str) -> set[str]:
    """Methods of `cls` that store `self.<attr>`, directly or through `self.<m>(..)` calls."""
    if cls is None:
        return set()
    out = {m.name for m in cls.methods.values() if any(
        isinstance(x, ast.Attribute) and isinstance(x.ctx, (ast.Store, ast.Del)) and x.attr == attr and u(x.value) == "self"
        for x in ast.walk(m.node))}
    changed = True
    while changed:
        changed = False
        for m in cls.methods.values():
            if m.name not in out and any(isinstance(c.func, ast.Attribute) and u(c.func.value) == "self" and c.func.attr in out
                                         for c in walk_calls(m.node)):
                out.add(m.name)
                changed = True
    return out


class AliasStates:
    """All the (copy-equality, None-ness) states in which each CFG node of `flow` can be entered, for the local
    names of the function and ONE attribute `self.<attr>` (written `@`).

    A state is a partition of these variables into classes holding the same value, a class being None / True /
    False / an unknown value (possibly known not to be None).  The exploration is path-sensitive: states are never
    joined, `x is None` / `x is not None` / flag tests cut the branches a state cannot take and refine the state
    on the branches it can, a condition assigned to a local forks the state (so the flag is decided later on).
    An await -- anything may run meanwhile -- and a call of a method of the class that stores the attribute make
    the attribute's value unknown; a statement left through an exception has done that but not its assignment.

    `init`: None (attribute unknown on entry) | "none" | "some"; `avoid`: nodes the exploration does not pass
    (it records that they were reached).  `same(e, nid)`: whenever node nid is entered, `e` holds the attribute's
    current value (`e` is the attribute itself, or a local in its class in every state).

    `mark`: a node whose assignment binds a value that has to end up in the attribute (written `$`; it is an object,
    not None).  The obligation is open from the completion of that node until a state in which the attribute holds
    that very value; `pending(nid)`: node nid can be entered with the obligation open.  (An exception in between
    drops the obligation: what happens to a sample when the routine fails is another clause.)
    """

    def __init__(self, flow: Flow, attr: str, init: str | None = None, avoid: Iterable[int] = (), limit: int = 6000,
                 mark: int | None = None) -> None:
        self.fl = flow
        self.cfg = flow.cfg
        self.attr = attr
        self.mark = mark
        self.writers = attr_writers(flow.fn.cls, attr)
        self.tracked = {"@"}
        for n in self.cfg.nodes:
            for w in flow._writes(n.id):
                if isinstance(w, ast.Name):
                    self.tracked.add(w.id)
        self.at: dict[int, set[AliasState]] = {}
        self._explore(init, set(avoid), limit)

    # ---------------------------------------------------------------- states
    @staticmethod
    def _freeze(env: dict[str, Any], nn: set[int]) -> AliasState:
        """Canonical form: values renumbered in the order of the (sorted) variables; a variable holding a value of
        its own nothing is known about is left out (that is the default)."""
        cnt: dict[int, int] = {}

        def count(v: Any) -> None:
            if isinstance(v, tuple):
                for x in v:
                    count(x)
            else:
                cnt[v] = cnt.get(v, 0) + 1

        for v in env.values():
            count(v)
        ren: dict[int, int] = {}

        def rn(v: Any) -> Any:
            if isinstance(v, tuple):
                return tuple(rn(x) for x in v)
            if v <= 0:
                return v
            if v not in ren:
                ren[v] = len(ren) + 1
            return ren[v]

        items: list[tuple[str, Any]] = []
        for k in sorted(env):
            v = env[k]
            if not isinstance(v, tuple) and v > 0 and cnt[v] == 1 and v not in nn:
                continue
            items.append((k, rn(v)))
        return tuple(items), frozenset(ren[v] for v in nn if v in ren)

    @staticmethod
    def _fresh(env: dict[str, Any]) -> int:
        top = 0
        todo = list(env.values())
        while todo:
            v = todo.pop()
            if isinstance(v, tuple):
                todo.extend(v)
            elif v > top:
                top = v
        return top + 1

    @staticmethod
    def _subst(env: dict[str, Any], old: int, new: int) -> None:
        def sub(v: Any) -> Any:
            if isinstance(v, tuple):
                return tuple(sub(x) for x in v)
            return new if v == old else v
        for k in list(env):
            env[k] = sub(env[k])

    def _is_attr(self, e: ast.AST) -> bool:
        return isinstance(e, ast.Attribute) and e.attr == self.attr and u(e.value) == "self"

    def _var(self, e: ast.AST) -> str | None:
        if isinstance(e, ast.Name) and e.id in self.tracked:
            return e.id
        return "@" if self._is_attr(e) else None

    def _val(self, e: ast.AST | None, env: dict[str, Any], nn: set[int]) -> Any:
        if isinstance(e, ast.Constant):
            return _NONE if e.value is None else _TRUE if e.value is True else _FALSE if e.value is False else None
        if e is None:
            return _NONE
        v = self._var(e)
        if v is not None and (not isinstance(e, ast.Name) or isinstance(e.ctx, ast.Load)):
            if v not in env:
                env[v] = self._fresh(env)
            return env[v]
        if isinstance(e, ast.IfExp):
            t = tri(e.test, lambda x: self._atom(x, env, nn))
            if t is not None:
                return self._val(e.body if t else e.orelse, env, nn)
        if isinstance(e, ast.Tuple) and isinstance(e.ctx, ast.Load) and not any(isinstance(x, ast.Starred) for x in e.elts):
            out = []
            for x in e.elts:
                v = self._val(x, env, nn)
                if v is None:
                    v = self._fresh({**env, "?": tuple(out)})
                out.append(v)
            return tuple(out)
        return None

    def _atom(self, e: ast.AST, env: dict[str, Any], nn: set[int]) -> Tri:
        ta = truth_atom(e)
        if ta is not None:
            v = self._val(ta[0], env, nn)
            if v is None:
                return None
            if isinstance(v, tuple):
                return not ta[1]
            if v == _NONE:
                return ta[1]
            return (not ta[1]) if (v in nn or v < 0) else None
        if isinstance(e, (ast.Name, ast.Attribute)):
            v = self._val(e, env, nn)
            if isinstance(v, tuple):
                return len(v) > 0
            if v == _NONE or v == _FALSE:
                return False
            if v == _TRUE:
                return True
            if v is not None and v in nn and v == env.get("@"):
                return True  # the cached object is not a container / number: a sample is truthy
        return None

    def _refine(self, test: ast.AST, outcome: bool, env: dict[str, Any], nn: set[int]) -> bool:
        """Narrow (env, nn) in place by `test == outcome`; False when that is impossible in this state."""
        if isinstance(test, ast.UnaryOp) and isinstance(test.op, ast.Not):
            return self._refine(test.operand, not outcome, env, nn)
        if isinstance(test, ast.BoolOp):
            if isinstance(test.op, ast.And) == outcome:  # `a and b` true / `a or b` false: every operand decided
                return all(self._refine(v, outcome, env, nn) for v in test.values)
            return tri(test, lambda x: self._atom(x, env, nn)) is not (not outcome)
        t = tri(test, lambda x: self._atom(x, env, nn))
        if t is not None:
            return t == outcome
        ta = truth_atom(test)
        if ta is not None:
            v = self._val(ta[0], env, nn)
            if isinstance(v, int) and v > 0:
                if ta[1] == outcome:  # it is None
                    self._subst(env, v, _NONE)
                else:
                    nn.add(v)
            return True
        if isinstance(test, (ast.Name, ast.Attribute)):
            v = self._val(test, env, nn)
            if isinstance(v, int) and v > 0 and outcome:
                nn.add(v)
        return True

    def _assign(self, tgt: ast.AST, v: Any, env: dict[str, Any]) -> None:
        if isinstance(tgt, (ast.Tuple, ast.List)) and isinstance(v, tuple) and len(v) == len(tgt.elts) \
                and not any(isinstance(x, ast.Starred) for x in tgt.elts):
            for t, x in zip(tgt.elts, v):  # `ok, sample = <pair>`: element by element
                self._assign(t, x, env)
            return
        for t in _flatten_target(tgt):
            k = self._var(t)
            if k is None:
                continue
            env[k] = (self._fresh(env) if v is None else v) if t is tgt else self._fresh(env)

    def _kills(self, nid: int, env: dict[str, Any]) -> None:
        n = self.cfg.nodes[nid]
        if n.ast is None:
            return
        hit = self.cfg.is_await(nid)
        if not hit and self.writers:
            hit = any(isinstance(c.func, ast.Attribute) and u(c.func.value) == "self" and c.func.attr in self.writers
                      for part in parts_of(n) for c in walk_calls(part))
        if hit:
            env["@"] = self._fresh(env)

    def _post(self, nid: int, st: AliasState) -> tuple[list[tuple[dict[str, Any], set[int]]], tuple[dict[str, Any], set[int]]]:
        """(states after the node completed, state when it is left through an exception)."""
        n = self.cfg.nodes[nid]
        env, nn = dict(st[0]), set(st[1])
        self._kills(nid, env)
        exc = (dict(env), set(nn))
        a = n.ast
        if n.kind == "stmt" and isinstance(a, (ast.Assign, ast.AnnAssign)) and a.value is not None:
            tgts = a.targets if isinstance(a, ast.Assign) else [a.target]
            if _boolean_expr(a.value) and not isinstance(a.value, ast.Constant):
                t = tri(a.value, lambda x: self._atom(x, env, nn))
                outs = []
                for o in ([t] if t is not None else [True, False]):
                    e2, n2 = dict(env), set(nn)
                    if self._refine(a.value, o, e2, n2):
                        for tg in tgts:
                            self._assign(tg, _TRUE if o else _FALSE, e2)
                        outs.append((e2, n2))
                return outs, exc
            v = self._val(a.value, env, nn)
            if v is None:
                v = self._fresh(env)
            for tg in tgts:
                self._assign(tg, v, env)
            if nid == self.mark and isinstance(v, int) and v > 0:
                env["$"] = v
                nn.add(v)
            return [(env, nn)], exc
        for w in self.fl._writes(nid):
            k = self._var(w)
            if k is not None:
                env[k] = self._fresh(env)
        return [(env, nn)], exc

    def _explore(self, init: str | None, avoid: set[int], limit: int) -> None:
        env0: dict[str, Any] = {}
        nn0: set[int] = set()
        if init == "none":
            env0["@"] = _NONE
        elif init == "some":
            env0["@"] = 1
            nn0.add(1)
        start = self._freeze(env0, nn0)
        todo = [(self.cfg.entry, start)]
        self.at[self.cfg.entry] = {start}
        total = 0
        while todo:
            nid, st = todo.pop()
            if nid in avoid:
                continue
            n = self.cfg.nodes[nid]
            posts, exc = self._post(nid, st)
            for m, lab in self.cfg.succ[nid]:
                outs: list[tuple[dict[str, Any], set[int]]]
                if lab.startswith("exc:"):
                    outs = [({k: v for k, v in exc[0].items() if k != "$"}, exc[1])]
                elif lab in ("true", "false") and n.kind in ("test", "while"):
                    test = n.ast if n.kind == "test" else n.ast.test  # type: ignore[union-attr]
                    outs = []
                    for e1, n1 in posts:
                        e2, n2 = dict(e1), set(n1)
                        if self._refine(test, lab == "true", e2, n2):  # type: ignore[arg-type]
                            outs.append((e2, n2))
                else:
                    outs = posts
                for e1, n1 in outs:
                    if "$" in e1 and e1.get("@") == e1["$"]:
                        e1 = {k: v for k, v in e1.items() if k != "$"}  # the value is in the attribute: discharged
                    fz = self._freeze(e1, n1)
                    seen = self.at.setdefault(m, set())
                    if fz not in seen:
                        seen.add(fz)
                        total += 1
                        if total > limit:
                            raise AnalysisError(f"{self.fl.fn.qual}: too many copy states while following self.{self.attr}")
                        todo.append((m, fz))

    # ---------------------------------------------------------------- queries
    def reached(self, nid: int) -> bool:
        return bool(self.at.get(nid))

    def pending(self, nid: int) -> bool:
        return any("$" in dict(items) for items, _nn in self.at.get(nid, ()))

    def same(self, e: ast.AST, nid: int) -> bool:
        if self._is_attr(e):
            return True
        k = self._var(e)
        if k is None:
            return False
        sts = self.at.get(nid)
        if not sts:
            return False
        for items, _nn in sts:
            env = dict(items)
            if k not in env or "@" not in env or env[k] != env["@"]:
                return False
        return True


# ---------------------------------------------------------------------------------------------
# The loop that drives one formula: FormulaEngine._run (`msg = await evaluator.apply()` ... `await sender.send(msg)`)
ENGINE_CLS = "timeseries.formula_engine._formula_engine:FormulaEngine"


class EngineLoop:
    """FormulaEngine._run as one unit of behaviour (private helpers read in): the awaited `evaluator.apply()` of a
    round (node `a`, call `apply`), the awaited `send(..)` calls (`sends`), and where an Exception raised by the
    round goes (`exc_targets`: the successors of `a` along an Exception-family edge)."""

    def __init__(self, prog: Program) -> None:
        self.raw = prog.func(f"{ENGINE_CLS}._run")
        self.fn = inline_all(prog, self.raw)
        self.fl = fl = Flow(prog, self.fn)
        self.cfg = cfg = fl.cfg
        applies = [(nid, c) for nid, c in fl.calls(lambda c: isinstance(c.func, ast.Attribute) and c.func.attr == "apply"
                                                   and not c.args and not c.keywords)
                   if isinstance(fl._parent.get(id(c)), ast.Await)]
        if len(applies) != 1:
            raise AnalysisError(f"{self.raw.qual}: expected one awaited evaluator.apply(), found {len(applies)}")
        self.a, self.apply = applies[0]
        self.sends = [(nid, c) for nid, c in fl.calls(lambda c: isinstance(c.func, ast.Attribute) and c.func.attr == "send")
                      if isinstance(fl._parent.get(id(c)), ast.Await)]
        self.send_nodes = sorted({nid for nid, _c in self.sends})
        self.exc_targets = [(m, lab) for m, lab in cfg.succ[self.a] if lab.startswith("exc:")]

    def explicit(self, a: int, _b: int, lab: str) -> bool:
        """Edge filter: normal control flow plus explicit `raise` statements (not "any call may raise")."""
        return not lab.startswith("exc:") or isinstance(self.cfg.nodes[a].ast, ast.Raise)

    def guarding_try(self) -> tuple[FuncInfo, ast.Try] | None:
        """(function, try statement) of the raw source whose body holds the awaited apply(), for seeded controls."""
        cls = self.raw.cls
        holders = [self.raw] + ([m for m in cls.methods.values() if m.name in getattr(self.fn.node, "_inlined", ())] if cls else [])
        for h in holders:
            for t in ast.walk(h.node):
                if isinstance(t, ast.Try) and any(isinstance(x, ast.Await) and isinstance(x.value, ast.Call)
                                                  and isinstance(x.value.func, ast.Attribute) and x.value.func.attr == "apply"
                                                  and not x.value.args for b in t.body for x in ast.walk(b)):
                    return h, t
        return None


def engine_loop(prog: Program) -> EngineLoop:
    hit = getattr(prog, "_engine_loop", None)
    if hit is None:
        hit = EngineLoop(prog)
        prog._engine_loop = hit  # type: ignore[attr-defined]
    return hit
