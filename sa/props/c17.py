"""C17  Power inside a pool's advertised bounds is never rejected as out of bounds.

  C17.AGG  the advertised aggregation (PowerBoundsCalculator.calculate) and the enforced one
           (BatteryManager._get_bounds) are extracted into aggregation terms over (group, battery
           aggregate, inverter): inclusion lower/upper identical; advertised exclusion at least as
           wide as enforced by the lattice lemmas Σ_g max(a_g, b_g) >= max(Σa, Σb) and its dual;
           the group minimum power max(b, min_i x_i) <= max(b, Σ_i x_i) for x_i >= 0; both sides
           aggregate batteries with the same _aggregate_battery_power_bounds, count every group
           once and use the whole group's batteries and inverters; the positional metric tables of
           the calculator agree with the PowerBounds fields.
  C17.TOPO both sides take the partition of the batteries into groups, and the inverters of a group, from the same
           entry of the same topology function's result (provenance of the maps the two aggregations index), and
           nothing else writes or patches these maps.
  C17.ACC  order-domain: with advertised inclusion == enforced inclusion and advertised exclusion ⊇
           enforced exclusion, every non-zero P with SystemBounds.__contains__(P) true is admitted by
           _check_request, for adjust_power true and false.
  C17.DIST the last clause ('... at least the sum of the minimum powers of the groups involved, so it can be distributed
           without entering any exclusion zone'): the premises the distribution has to supply -- the per-inverter split
           stays out of every inverter's zone, the bound tables hold each component's own bound (the minimum power
           C17.AGG reasons about is the one computed; the battery's zone is left to the group sum), the books of the
           reservation balance (no negative remainder pushes a group back below its minimum power) -- decided by C02's
           rule functions and re-issued here.

How the terms are read (refactor-robust): both functions are walked symbolically (engine/sympath) with
their simple private helpers spliced in, so every local is substituted into its uses; an accumulation
loop `acc += inc` is read as `sum(inc for …)` (_c17_util.fold_loops); comprehension variables are
substituted away (_c17_util.elem_of).  The role of a value is where it flows (which PowerBounds field /
which Bounds slot of the returned SystemBounds) and which data it reads (battery aggregate of the group /
the group's inverters), never the name of a local.
"""
from __future__ import annotations

import ast
import copy
from typing import Any

from ..engine.absint import Obj
from ..engine.normalize import _bind, _helper_target, positional
from ..engine.order import Atom
from ..engine.report import AnalysisError, Run, first_line
from ..engine.resolver import FuncNode, Program, walk_no_nested
from ..engine.sympath import SymUnsupported, sym_block
from ..engine.util import find_calls, method_call, u
from ._c17_util import (FIELDS, GROUP, Side, agg_term, availability, bind_target, dewalrus_comprehensions, elem_of, fold_list_loops, nonempty_test, fold_loops, index_fields,
                        inline_straightline, is_name, loop_passes, name, path_follower, prepared, project_records, record_fields, returns_of, seg, set_elem, simple_call, splice, strip_doc)

MC = "timeseries.battery_pool._metric_calculator"
BMM = "microgrid._power_distributing._component_managers._battery_manager"
BDA_MOD = "microgrid._power_distributing._distribution_algorithm._battery_distribution_algorithm"
RESULT_MOD = "microgrid._power_distributing.result"
BT = "timeseries._base_types"
AGG_FN = "_aggregate_battery_power_bounds"

INV_ATTR = {"active_power_inclusion_lower_bound": "il", "active_power_exclusion_lower_bound": "el",
            "active_power_exclusion_upper_bound": "eu", "active_power_inclusion_upper_bound": "iu"}


def _is_none(e: ast.AST | None) -> bool:
    return isinstance(e, ast.Constant) and e.value is None


def _callee(e: ast.AST) -> str:
    """Last component of a call's function text (`timeseries.Bounds` -> `Bounds`)."""
    return u(e.func).split(".")[-1] if isinstance(e, ast.Call) else ""


def _is_aggregator(prog: Program, module: Any, e: ast.AST) -> bool:
    """`e` is a call (one argument) of the shared battery aggregation function."""
    if not (isinstance(e, ast.Call) and isinstance(e.func, ast.Name) and len(e.args) == 1 and not e.keywords):
        return False
    tgt = prog.resolve_name(module, e.func.id)
    return getattr(tgt, "qual", None) == f"{BDA_MOD}:{AGG_FN}"


def _agree(dicts: list[dict[str, Any]]) -> dict[str, Any]:
    """Terms of several return paths: a field on which they disagree is not a known aggregate."""
    out = dict(dicts[0])
    for d in dicts[1:]:
        for k in set(out) | set(d):
            if out.get(k) != d.get(k):
                out[k] = ("other", "the return paths disagree")
    return out


# ------------------------------------------------------------------------------------------ advertised
class Validated:
    """The function that builds ONE component's PowerBounds from its metrics, found by role: a closure
    of `calculate`, a private method or a private module function that is still called from the
    (helper-spliced) body of `calculate` and constructs a PowerBounds.  It may return the record or a
    tuple carrying it (`index`).  `id_param` / `metric_param` are the parameters playing the component
    id (`<data source>.get(id)` / `[id]` yields the data object; or `data_param` when the caller does that
    lookup and passes the data object) and the requested metric ids (the list of `<data>.get(metric)`
    values, built by a loop or a comprehension, is indexed into the record); `pos` maps list position ->
    PowerBounds field."""

    def __init__(self, prog: Program, fn: Any, node: FuncNode) -> None:
        self.prog, self.fn = prog, fn
        self.nested = {n.name: n for n in ast.walk(node)
                       if isinstance(n, (ast.FunctionDef, ast.AsyncFunctionDef)) and n is not node}
        cands: dict[int, Any] = {}
        seen: set[int] = {id(node)}
        frontier: list[Any] = [node]
        for _ in range(4):                              # helpers called by helpers
            nxt = []
            for f in frontier:
                for c in ast.walk(f):
                    if isinstance(c, ast.Call):
                        h = _helper_target(prog, fn, c, self.nested)
                        if h is None or id(h) in seen or not isinstance(h, ast.FunctionDef):
                            continue
                        seen.add(id(h))
                        nxt.append(h)
                        # the per-component reader indexes a list of metric values into the record
                        if any(isinstance(a, ast.Subscript) for k in find_calls(h, lambda k: _callee(k) == "PowerBounds")
                               for a in list(k.args) + [w.value for w in k.keywords]) \
                                or (f is node and find_calls(h, lambda k: _callee(k) == "PowerBounds")):
                            cands[id(h)] = h
            frontier = nxt
        if len(cands) > 1:                              # prefer the reader proper (record built from list items)
            readers = {i: h for i, h in cands.items() if any(
                isinstance(a, ast.Subscript) for k in find_calls(h, lambda k: _callee(k) == "PowerBounds")
                for a in list(k.args) + [w.value for w in k.keywords])}
            cands = readers or cands
        if len(cands) != 1:
            raise AnalysisError(f"{fn.qual}: the function building a component's PowerBounds from its metrics "
                                f"is not identified ({sorted(h.name for h in cands.values())})")
        self.node: ast.FunctionDef = next(iter(cands.values()))
        self.name = self.node.name
        a = self.node.args
        self.params = [x.arg for x in a.posonlyargs + a.args + a.kwonlyargs]
        self.index: int | None = None
        self.pos: dict[int, str] = {}
        self.id_param = self.metric_param = self.data_param = ""
        self.reader_ok = self._analyse()

    def _analyse(self) -> bool:  # noqa: C901
        vfn = self.node
        pb_fields = record_fields(self.prog, RESULT_MOD, "PowerBounds")
        # the list of metric values read as ONE comprehension, however it is built (append loop,
        # comprehension, walrus filter)
        vcopy = copy.deepcopy(vfn)
        dewalrus_comprehensions(vcopy)
        fold_list_loops(vcopy)
        records: list[ast.Call] = []
        indices: set[int | None] = set()
        for p in returns_of(vcopy, f"{self.fn.qual}.{vfn.name}"):
            r = p.ret
            slots = list(enumerate(r.elts)) if isinstance(r, ast.Tuple) else [(None, r)]
            for i, e in slots:
                if isinstance(e, ast.Call) and _callee(e) == "PowerBounds":
                    args = positional(e, pb_fields)
                    if any(isinstance(v, ast.Subscript) and isinstance(v.value, ast.List) and not v.value.elts
                           for v in args.values()):
                        continue                         # `[][i]`: the path on which no data was read cannot get here
                    records.append(e)
                    indices.add(i)
        if not records or len(indices) != 1 or len({u(r) for r in records}) != 1:
            return False
        self.index = next(iter(indices))
        bases: dict[str, ast.AST] = {}
        a = positional(records[0], pb_fields)
        for f, v in a.items():
            if isinstance(v, ast.Subscript) and isinstance(v.slice, ast.Constant) and isinstance(v.slice.value, int) \
                    and not isinstance(v.slice.value, bool):
                self.pos[v.slice.value] = f
                bases[u(v.value)] = v.value
        if not (set(a) == set(pb_fields) and sorted(self.pos) == [0, 1, 2, 3] and len(bases) == 1):
            return False
        # the indexed list holds, in request order, `<data>.get(<i-th metric id>)` (None values left out)
        lst = next(iter(bases.values()))
        roots: list[ast.AST] = []
        el = elem_of(lst, roots, keep_order=True)
        if el is None or len(roots) != 1 or not (isinstance(roots[0], ast.Name) and roots[0].id in self.params):
            return False
        self.metric_param = roots[0].id
        if not (isinstance(el, ast.Call) and isinstance(el.func, ast.Attribute) and el.func.attr == "get"
                and len(el.args) == 1 and not el.keywords and is_name(el.args[0], f"<elem of {self.metric_param}>")):
            return False
        # the data object is a parameter, or is looked up under the component-id parameter
        src: ast.AST = el.func.value
        if isinstance(src, ast.Name) and src.id in self.params and src.id != self.metric_param:
            self.data_param = src.id
            return True
        key = self._lookup_key(src)
        if not (isinstance(key, ast.Name) and key.id in self.params and key.id != self.metric_param):
            return False
        self.id_param = key.id
        return True

    @staticmethod
    def _lookup_key(src: ast.AST | None) -> ast.AST | None:
        """K in `<source>.get(K)` / `<source>[K]`."""
        if isinstance(src, ast.Call) and isinstance(src.func, ast.Attribute) and src.func.attr == "get" \
                and len(src.args) == 1 and not src.keywords:
            return src.args[0]
        if isinstance(src, ast.Subscript):
            return src.slice
        return None

    def match(self, e: ast.AST | None) -> tuple[ast.AST, ast.AST] | None:
        """(component-id argument, metric-ids argument) if `e` is the PowerBounds | None a call yields."""
        if self.index is not None:
            if not (isinstance(e, ast.Subscript) and isinstance(e.slice, ast.Constant) and e.slice.value == self.index):
                return None
            e = e.value
        if isinstance(e, ast.Call) and self.reader_ok and _helper_target(self.prog, self.fn, e, self.nested) is self.node:
            b = _bind(self.node, e)
            if b is None or self.metric_param not in b:
                return None
            if self.id_param and self.id_param in b:
                return b[self.id_param], b[self.metric_param]
            if self.data_param and self.data_param in b:    # the caller looks the data object up
                key = self._lookup_key(b[self.data_param])
                if key is not None:
                    return key, b[self.metric_param]
        return None


def _lift_filters(e: ast.AST, guards: list[Any]) -> ast.AST:
    """`sum([inc for g in groups if c1 if c2])` -- the per-group values collected in a list (a loop with `continue`
    guards folded into a comprehension) and summed afterwards -- is read like the accumulating loop: the filters
    become guards of the adding pass (`not c` -> c with outcome False), judged by the caller."""
    if not (isinstance(e, ast.Call) and u(e.func) == "sum" and len(e.args) == 1 and not e.keywords
            and isinstance(e.args[0], (ast.ListComp, ast.GeneratorExp)) and len(e.args[0].generators) == 1
            and e.args[0].generators[0].ifs):
        return e
    comp = e.args[0]
    g = comp.generators[0]
    for c in g.ifs:
        if isinstance(c, ast.UnaryOp) and isinstance(c.op, ast.Not):
            guards.append((c.operand, False))
        else:
            guards.append((c, True))
    gen = ast.GeneratorExp(elt=comp.elt, generators=[ast.comprehension(target=g.target, iter=g.iter, ifs=[], is_async=0)])
    out = ast.Call(func=e.func, args=[gen], keywords=[])
    return ast.fix_missing_locations(ast.copy_location(out, e))


def advertised(prog: Program) -> dict[str, Any]:
    fn = prog.func(f"{MC}:PowerBoundsCalculator.calculate")
    if len(fn.params) != 3:
        raise AnalysisError(f"{fn.qual}: expected (self, metrics_data, working_batteries)")
    node = prepared(prog, fn, fold_lists=False)
    vfn = Validated(prog, fn, node)
    vcall = vfn.match
    follow = path_follower(prog, fn, stop=(vfn.name,))   # helpers still called are executed on the path
    prov: list[tuple[str, str, str]] = []          # (kind, ids the bounds are read for, metric list)

    def leaf_bat(e: ast.AST) -> str | None:
        if isinstance(e, ast.Attribute) and e.attr in FIELDS and _is_aggregator(prog, fn.module, e.value):
            vc = vcall(elem_of(e.value.args[0]))  # type: ignore[attr-defined]
            if vc is not None:
                prov.append(("bat", u(vc[0]), u(vc[1])))
                return FIELDS[e.attr]
        return None

    def leaf_inv(e: ast.AST, _roots: list[ast.AST]) -> str | None:
        if isinstance(e, ast.Attribute) and e.attr in FIELDS:
            vc = vcall(e.value)
            if vc is not None:
                prov.append(("inv", u(vc[0]), u(vc[1])))
                return FIELDS[e.attr]
        return None

    records = {"PowerBounds": record_fields(prog, RESULT_MOD, "PowerBounds")}
    side = Side(groups_ok=lambda _r: True, norm=lambda e: project_records(e, records), leaf_bat=leaf_bat,
                leaf_inv=leaf_inv)
    per_return: list[dict[str, Any]] = []
    guards: list[Any] = []
    wiring_ok = True
    for p in returns_of(node, fn.qual, follow):
        r = p.ret
        if not (isinstance(r, ast.Call) and _callee(r) == "SystemBounds" and not r.args):
            raise AnalysisError(f"{fn.qual}: line {p.lineno}: the result is not a SystemBounds(...) record")
        kw = {k.arg: k.value for k in r.keywords}
        inc, exc = kw.get("inclusion_bounds"), kw.get("exclusion_bounds")
        if _is_none(inc) and _is_none(exc):
            continue                                # the 'no data' answer
        slots: dict[str, ast.AST] = {}
        for zone, val in (("i", inc), ("e", exc)):
            if isinstance(val, ast.Call) and _callee(val) == "Bounds":
                a = positional(val, ["lower", "upper"])
                for slot, key in (("lower", "l"), ("upper", "u")):
                    w = a.get(slot)
                    if isinstance(w, ast.Call) and u(w.func) == "Power.from_watts" and len(w.args) == 1 and not w.keywords:
                        slots[zone + key] = w.args[0]
        if len(slots) != 4:
            wiring_ok = False
            continue
        per_return.append({role: agg_term(_lift_filters(fold_loops(node, e, guards, follow), guards), side)
                           for role, e in slots.items()})
    if not per_return:
        wiring_ok = False

    def data_guard(test: ast.AST, outcome: bool) -> bool:
        """the adding pass requires exactly: a list of validated component bounds is not empty"""
        if isinstance(test, ast.Compare) and len(test.ops) == 1 and isinstance(test.ops[0], (ast.Is, ast.IsNot)) \
                and _is_none(test.comparators[0]) and isinstance(test.left, ast.Call) and _callee(test.left) in records:
            return isinstance(test.ops[0], ast.IsNot) == outcome      # a freshly built record is never None
        lst = nonempty_test(test, outcome)
        return lst is not None and vcall(elem_of(lst)) is not None

    guards_ok = all(data_guard(t, o) for t, o in guards)
    terms = _agree(per_return) if per_return else {}
    loops = [s for s in strip_doc(node.body) if isinstance(s, ast.For)
             and find_calls(s, lambda c: _is_aggregator(prog, fn.module, c))]
    return {"fn": fn, "node": node, "loop": loops[0] if len(loops) == 1 else fn.node, "terms": terms,
            "wiring_ok": wiring_ok, "guards_ok": guards_ok, "prov": prov, "groups": side.groups, "validated": vfn}


# ------------------------------------------------------------------------------------------ enforced
def enforced(prog: Program) -> dict[str, Any]:
    """{'fn': _get_bounds, 'terms': PowerBounds field -> aggregation term}  (also used by C02.ADM)."""
    from ._admission import bounds_source_or_none, check_request_fn

    src = bounds_source_or_none(prog)              # `_get_bounds`, bound by role
    if src is not None:
        fn = src
        own = [p for p in fn.params if p not in ("self", "cls")]
        if len(own) != 1:
            raise AnalysisError(f"{fn.qual}: expected the pairs data as the only parameter, found {own}")
        pairs = own[0]
    else:                                          # inlined: the record the request check rejects with
        fn = check_request_fn(prog)
        pairs = fn.params[2]
    node = prepared(prog, fn)
    pair_fields = record_fields(prog, BDA_MOD, "InvBatPair")
    pb_fields = record_fields(prog, RESULT_MOD, "PowerBounds")
    inv_elem = f"<elem of {GROUP}[1]>"

    def leaf_bat(e: ast.AST) -> str | None:
        if isinstance(e, ast.Attribute) and e.attr in FIELDS and isinstance(e.value, ast.Attribute) \
                and e.value.attr == "power_bounds" and u(e.value.value) == f"{GROUP}[0]":
            return FIELDS[e.attr]
        return None

    def leaf_inv(e: ast.AST, roots: list[ast.AST]) -> str | None:
        if isinstance(e, ast.Attribute) and e.attr in INV_ATTR and is_name(e.value, inv_elem) \
                and len(roots) == 1 and u(roots[0]) == f"{GROUP}[1]":
            return INV_ATTR[e.attr]
        return None

    records = {"PowerBounds": pb_fields}
    side = Side(groups_ok=lambda r: is_name(r, pairs),
                norm=lambda e: index_fields(project_records(e, records), GROUP, pair_fields),
                leaf_bat=leaf_bat, leaf_inv=leaf_inv)
    per_return = []
    for p in returns_of(node, fn.qual):
        if src is not None:
            recs = [p.ret]
        else:
            oob = record_fields(prog, RESULT_MOD, "OutOfBounds")
            recs = [positional(c.node, oob).get("bounds") for c in p.calls(lambda c: _callee(c) == "OutOfBounds")]  # type: ignore[arg-type]
        for r in recs:
            if not (isinstance(r, ast.Call) and _callee(r) == "PowerBounds"):
                raise AnalysisError(f"{fn.qual}: PowerBounds(...) not found")
            a = positional(r, pb_fields)
            per_return.append({f: agg_term(fold_loops(node, v), side) for f, v in a.items() if f in pb_fields})
    if not per_return:
        raise AnalysisError(f"{fn.qual}: PowerBounds(...) not found")
    return {"fn": fn, "terms": _agree(per_return)}


def min_power_shape_ok(prog: Program) -> tuple[Any, bool]:
    """min_power_g == max(battery exclusion, min_i inverter exclusion) in the availability ratio
    (battery = the group's aggregate, i ranges over exactly the group's inverters)."""
    from ._admission import method_by_role

    ar = method_by_role(prog, f"{BDA_MOD}:BatteryDistributionAlgorithm", "_compute_battery_availability_ratio",
                        lambda m: any(isinstance(c, ast.Call) and _callee(c) == "AvailabilityRatio" for c in ast.walk(m.node)),
                        "builds the AvailabilityRatio records (minimum power of a group)")
    if len(ar.params) != 4:
        raise AnalysisError(f"{ar.qual}: expected (self, components, available_soc, excl_bounds)")
    comps, excl = ar.params[1], ar.params[3]
    node = prepared(prog, ar)
    pair_fields = record_fields(prog, BDA_MOD, "InvBatPair")
    ctor_fields = record_fields(prog, BDA_MOD, "AvailabilityRatio")

    def norm(e: ast.AST) -> ast.AST:
        return index_fields(e, GROUP, pair_fields)

    def shape_ok(c: ast.Call) -> bool:
        mp = positional(c, ctor_fields).get("min_power")
        args = simple_call(norm(mp), ("max",), 2) if mp is not None else None
        if args is None:
            return False
        kinds = []
        for a in args:
            if u(a) == f"{excl}[{GROUP}[0].component_id]":
                kinds.append("bat")
                continue
            inner = simple_call(a, ("min",), 1)
            roots: list[ast.AST] = []
            el = elem_of(inner[0], roots, None, norm) if inner is not None else None
            if el is not None and [u(r) for r in roots] == [f"{GROUP}[1]"] \
                    and u(norm(el)) == f"{excl}[<elem of {GROUP}[1]>.component_id]":
                kinds.append("min_inv")
        return sorted(kinds) == ["bat", "min_inv"]

    loops = [s for s in walk_no_nested(node) if isinstance(s, ast.For)
             and find_calls(s, lambda c: _callee(c) == "AvailabilityRatio")]
    loops = [s for s in loops if not any(t is not s and t in list(walk_no_nested(s)) for t in loops)]  # innermost
    ok = False
    if len(loops) == 1 and is_name(loops[0].iter, comps):
        env = bind_target(loops[0].target, name(GROUP))
        if env is not None:
            try:
                ctors = [c.node for p, _st in sym_block(loops[0].body, env)
                         for c in p.calls(lambda c: _callee(c) == "AvailabilityRatio")]
            except SymUnsupported:
                ctors = []
            ok = bool(ctors) and all(shape_ok(c) for c in ctors)  # type: ignore[arg-type]
    return ar, ok


# ------------------------------------------------------------------------------------------ C17.AGG
def _aggregate_input_ok(prog: Program) -> tuple[Any, bool]:
    """Enforced side: AggregatedBatteryData.power_bounds = aggregator(PowerBounds of *each* battery given,
    each bound read from the battery metric of the same name)."""
    abd = prog.func(f"{BDA_MOD}:AggregatedBatteryData.__init__")
    if len(abd.params) != 2:
        raise AnalysisError(f"{abd.qual}: expected (self, batteries)")
    bats = abd.params[1]
    pb_fields = record_fields(prog, RESULT_MOD, "PowerBounds")
    n = 0
    ok = True
    for p in returns_of(prepared(prog, abd), abd.qual):
        writes = [e.node.elts[1] for e in p.effects if e.kind == "write"  # type: ignore[attr-defined]
                  and u(e.node.elts[0]) == f"{abd.params[0]}.power_bounds"]  # type: ignore[attr-defined]
        if len(writes) != 1:
            return abd, False
        n += 1
        v = writes[0]
        good = _is_aggregator(prog, abd.module, v)
        if good:
            roots: list[ast.AST] = []
            el = elem_of(v.args[0], roots)  # type: ignore[attr-defined]
            good = el is not None and len(roots) == 1 and is_name(roots[0], bats) and isinstance(el, ast.Call) \
                and _callee(el) == "PowerBounds"
            if good:
                a = positional(el, pb_fields)  # type: ignore[arg-type]
                good = set(a) == set(pb_fields) and all(
                    u(a[f]) == f"<elem of {bats}>.power_{f}_bound" for f in pb_fields)
        ok = ok and good
    return abd, ok and n > 0


def _pair_data_fn(prog: Program) -> Any:
    """Role of `_get_battery_inverter_data`: the BatteryManager method (self, battery ids, inverter ids)
    that builds the InvBatPair of one group."""
    from ._admission import method_by_role

    return method_by_role(prog, f"{BMM}:BatteryManager", "_get_battery_inverter_data",
                          lambda m: len(m.params) == 3 and any(
                              isinstance(c, ast.Call) and _callee(c) == "InvBatPair" for c in ast.walk(m.node)),
                          "builds the InvBatPair of one battery group")


def _components_data_fn(prog: Program, gbi: Any) -> Any:
    """Role of `_get_components_data`: the (outermost) BatteryManager method that loops over the battery
    groups fetching each group's pair (itself or through a private method it calls)."""
    from ._admission import check_request_fn, method_by_role, reach

    chk = check_request_fn(prog)

    def collects(m: Any) -> bool:
        if m.node is gbi.node or any(r.node is chk.node for r in reach(prog, m)):
            return False                                # not the request handler that calls both
        return any(isinstance(lp, ast.For) and find_calls(lp, lambda c: method_call(c, None, gbi.name))
                   for f in reach(prog, m, 2) for lp in ast.walk(f.node))

    return method_by_role(prog, f"{BMM}:BatteryManager", "_get_components_data", collects,
                          "collects the (battery, inverters) data pairs of the requested groups")


def _pair_data_ok(prog: Program) -> tuple[Any, bool]:
    """_get_battery_inverter_data(batteries, inverters) -> InvBatPair(AggregatedBatteryData(latest data of
    every battery given), latest data of every inverter given)."""
    gbi = _pair_data_fn(prog)
    if len(gbi.params) != 3:
        raise AnalysisError(f"{gbi.qual}: expected (self, battery_ids, inverter_ids)")
    me, bids, iids = gbi.params
    pair_fields = record_fields(prog, BDA_MOD, "InvBatPair")
    n = 0
    ok = True
    node = prepared(prog, gbi)
    for p in returns_of(node, gbi.qual):
        r = p.ret
        if r is None or _is_none(r):
            continue
        n += 1
        good = isinstance(r, ast.Call) and _callee(r) == "InvBatPair"
        # the pair is returned exactly when the data is there: every condition on the way says "available"
        for _k, _ko, test, _ln, outcome in p.conds:
            kind = availability(prog, gbi, node, test)
            good = good and ((kind == "present" and outcome) or (kind == "missing" and not outcome))
        if good:
            a = positional(r, pair_fields)  # type: ignore[arg-type]
            bat, inv = a.get(pair_fields[0]), a.get(pair_fields[1])
            good = isinstance(bat, ast.Call) and _callee(bat) == "AggregatedBatteryData" and len(bat.args) == 1 \
                and not bat.keywords and inv is not None
            if good:
                rb: list[ast.AST] = []
                ri: list[ast.AST] = []
                eb, ei = elem_of(bat.args[0], rb), elem_of(inv, ri)  # type: ignore[union-attr,arg-type]
                good = eb is not None and ei is not None and [u(x) for x in rb] == [bids] and [u(x) for x in ri] == [iids] \
                    and u(eb) == f"{me}._battery_caches[<elem of {bids}>].get()" \
                    and u(ei) == f"{me}._inverter_caches[<elem of {iids}>].get()"
        ok = ok and good
    return gbi, ok and n > 0


def _enforced_groups(prog: Program) -> tuple[Any, bool, bool, bool]:
    """_get_components_data: (fn, groups form a set of _bat_bats_map images, every group's data is read
    for the whole group and the inverters of one of its batteries, every group's pair is appended to the
    returned list unless its data is None)."""
    gbi = _pair_data_fn(prog)
    gcd = _components_data_fn(prog, gbi)
    node = prepared(prog, gcd)

    def is_data_call(c: ast.Call) -> bool:
        return method_call(c, gcd.params[0], gbi.name)

    loops = [s for s in strip_doc(node.body) if isinstance(s, ast.For) and find_calls(s, is_data_call)]
    if len(loops) != 1 or not isinstance(loops[0].target, ast.Name):
        return gcd, False, False, False
    loop = loops[0]
    results = {r.value.id if isinstance(r.value, ast.Name) else "" for r in walk_no_nested(node)
               if isinstance(r, ast.Return)}
    res = next(iter(results)) if len(results) == 1 else ""
    lp = loop_passes(node, loop, symbolic=(res,))
    if lp is None:
        return gcd, False, False, False
    it, _env, _full, passes = lp
    g = loop.target.id
    el = set_elem(it)
    once = el is not None and isinstance(el, ast.Subscript) and u(el.value) == f"{gcd.params[0]}._bat_bats_map" \
        and isinstance(el.slice, ast.Name) and el.slice.id.startswith("<elem of ")
    calls = [c.node for p in passes for c in p.calls(is_data_call)]
    whole = bool(calls)
    for c in calls:
        a = positional(c, gbi.params[1:])  # type: ignore[arg-type]
        whole = whole and len(c.args) + len(c.keywords) == 2 and set(a) == set(gbi.params[1:]) \
            and u(a[gbi.params[1]]) == g \
            and u(a[gbi.params[2]]) == f"{gcd.params[0]}._bat_invs_map[next(iter({g}))]"
    kept = bool(res)
    n_kept = 0
    for p in passes:
        if p.exit == "raise":
            continue
        stored = [c for c in p.calls(lambda c: method_call(c, res, "append"))
                  if len(c.node.args) == 1 and isinstance(c.node.args[0], ast.Call) and is_data_call(c.node.args[0])]
        no_data = any(isinstance(t, ast.Compare) and len(t.ops) == 1 and isinstance(t.ops[0], (ast.Is, ast.IsNot))
                      and isinstance(t.left, ast.Call) and is_data_call(t.left) and _is_none(t.comparators[0])
                      and isinstance(t.ops[0], ast.Is) == o for _k, _ko, t, _ln, o in p.conds)
        n_kept += 1 if stored else 0
        kept = kept and (bool(stored) != no_data)
    return gcd, once, whole, kept and n_kept > 0


def _metric_tables(prog: Program, adv: dict[str, Any]) -> tuple[Any, dict[str, bool]]:
    """Writer's and reader's positional tables: `results[i] -> PowerBounds field` in the closure, where
    results[i] is the value of the i-th requested metric, against the order of the metric id lists."""
    vfn = adv["validated"]
    reader_ok, pos = vfn.reader_ok, vfn.pos
    init = prog.func(f"{MC}:PowerBoundsCalculator.__init__")
    written: dict[str, set[tuple[str, ...] | None]] = {"_battery_metrics": set(), "_inverter_metrics": set()}
    for p in returns_of(prepared(prog, init), init.qual):
        for attr in written:
            ws = [e.node.elts[1] for e in p.effects if e.kind == "write"  # type: ignore[attr-defined]
                  and u(e.node.elts[0]) == f"{init.params[0]}.{attr}"]  # type: ignore[attr-defined]
            if len(ws) == 1 and isinstance(ws[0], ast.List):
                written[attr].add(tuple(u(x).split(".")[-1] for x in ws[0].elts))
            else:
                written[attr].add(None)
    out = {}
    for attr, prefix in (("_battery_metrics", "POWER_"), ("_inverter_metrics", "ACTIVE_POWER_")):
        lst = next(iter(written[attr])) if len(written[attr]) == 1 else None
        out[attr] = reader_ok and lst is not None and len(lst) == 4 and all(
            nm == prefix + pos[i].upper() + "_BOUND" for i, nm in enumerate(lst))
    return init, out


def check_agg(run: Run, prog: Program) -> None:
    adv = advertised(prog)
    enf = enforced(prog)
    afn, efn = adv["fn"], enf["fn"]
    run.analysed(afn.qual)
    run.analysed(efn.qual)
    names = {"il": "inclusion_bounds.lower", "iu": "inclusion_bounds.upper",
             "el": "exclusion_bounds.lower", "eu": "exclusion_bounds.upper"}
    want_adv = {
        "il": ("sum_g", "max", (("leaf", ("bat", "il")), ("sum_i", ("inv", "il")))),
        "iu": ("sum_g", "min", (("leaf", ("bat", "iu")), ("sum_i", ("inv", "iu")))),
        "el": ("sum_g", "min", (("leaf", ("bat", "el")), ("sum_i", ("inv", "el")))),
        "eu": ("sum_g", "max", (("leaf", ("bat", "eu")), ("sum_i", ("inv", "eu")))),
    }
    efield = {"il": "inclusion_lower", "iu": "inclusion_upper", "el": "exclusion_lower", "eu": "exclusion_upper"}
    for f in ("il", "iu"):
        a, e = adv["terms"].get(f), enf["terms"].get(efield[f])
        run.check(a is not None and a == e, "C17.AGG", afn.qual, f"{names[f]} term",
                  f"advertised and enforced inclusion {'lower' if f == 'il' else 'upper'} bounds are not the "
                  f"same aggregate: advertised {a}, enforced {e}", node=adv["loop"], file=afn.file,
                  instance=f"inclusion {f}: advertised == enforced == {e}")
        run.check(a == want_adv[f], "C17.AGG", afn.qual, f"{names[f]} = Σ_g {want_adv[f][1]}(battery aggregate, Σ inverters)",
                  f"the advertised inclusion bound is not Σ_g {want_adv[f][1]}(battery aggregate, Σ_i inverter): {a}",
                  node=adv["loop"], file=afn.file)
    for f, op, lemma in (("eu", "max", "Σ_g max(a_g, b_g) >= max(Σ a_g, Σ b_g)"),
                         ("el", "min", "Σ_g min(a_g, b_g) <= min(Σ a_g, Σ b_g)")):
        a, e = adv["terms"].get(f), enf["terms"].get(efield[f])
        ok_a = a == want_adv[f]
        # enforced: either the same per-group aggregate (identical zones) or op(Σ_g battery, Σ_all inverter),
        # which the lemma puts inside the advertised one
        ok_e = e == a or e == (op, tuple(sorted((("sum_gleaf", ("bat", f)), ("sum_all", ("inv", f))))))
        run.check(ok_a and ok_e, "C17.AGG", afn.qual, f"{names[f]}: {lemma}",
                  f"the advertised exclusion bound is not provably at least as wide as the enforced one: "
                  f"advertised {a} (needs Σ_g {op}(battery, Σ_i inverter)), enforced {e} (needs "
                  f"the same aggregate or {op}(Σ_g battery, Σ_all inverter)); the lemma `{lemma}` no longer applies, so a power "
                  "outside the advertised exclusion zone can fall inside the enforced one",
                  node=adv["loop"], file=afn.file, instance=f"exclusion {f}: lemma {lemma} applies")
    # group minimum power <= advertised exclusion (x_i >= 0):  max(b, min_i x_i) <= max(b, Σ_i x_i)
    ar, ok = min_power_shape_ok(prog)
    run.analysed(ar.qual)
    run.check(ok, "C17.AGG", ar.qual, "min_power_g = max(b_g, min_i x_i) <= max(b_g, Σ_i x_i) = advertised share",
              "a group's minimum power is not max(battery exclusion, smallest inverter exclusion): it may "
              "exceed the group's share of the advertised exclusion bound", node=ar.node, file=ar.file)
    # same battery aggregation on both sides (the advertised battery leaves are only recognised on a call of
    # the shared aggregator; the enforced aggregate must be fed each battery's four bounds)
    n_bat = sum(1 for k, _i, _m in adv["prov"] if k == "bat")
    abd, ok = _aggregate_input_ok(prog)
    run.analysed(abd.qual)
    run.check(ok and n_bat >= 1, "C17.AGG", afn.qual, "both sides aggregate a group's batteries with _aggregate_battery_power_bounds",
              "advertised and enforced bounds aggregate the batteries of a group with different functions "
              "(or the enforced aggregate is not fed every battery's own four bounds)",
              node=afn.node, file=afn.file)
    gbi, ok = _pair_data_ok(prog)
    run.analysed(gbi.qual)
    run.check(ok, "C17.AGG", gbi.qual, "InvBatPair(AggregatedBatteryData(battery_data), inverter_data)",
              "the enforced side does not aggregate the group's batteries through AggregatedBatteryData (all "
              "batteries and all inverters it was given), or does not return the pair exactly when every cache "
              "has a value and no crucial metric is NaN", node=gbi.node, file=gbi.file)
    # every group counted once, with all its batteries and inverters, on both sides
    me, working = afn.params[0], afn.params[2]
    groups = adv["groups"]
    ok = bool(groups)
    for g in groups:
        el = set_elem(g)
        ok = ok and el is not None and u(el) == f"{me}._bat_bats_map[<elem of {working}>]"
    run.check(ok, "C17.AGG", afn.qual, "battery_sets = {bat_bats_map[b] for b in working_batteries}",
              "the advertised side does not count every battery group exactly once (a set of groups): a "
              "group with several working batteries would be added once per battery", node=afn.node, file=afn.file)
    gcd, once, whole, kept = _enforced_groups(prog)
    run.analysed(gcd.qual)
    run.check(once, "C17.AGG", gcd.qual, "battery_sets = frozenset(bat_bats_map[b] for b in working_batteries)",
              "the enforced side does not count every battery group exactly once", node=gcd.node, file=gcd.file)
    want_prov = {"bat": (f"<elem of {GROUP}>", f"{me}._battery_metrics"),
                 "inv": (f"<elem of {me}._bat_inv_map[next(iter({GROUP}))]>", f"{me}._inverter_metrics")}
    kinds = {k for k, _i, _m in adv["prov"]}
    ok = kinds == {"bat", "inv"} and all((i, m) == want_prov[k] for k, i, m in adv["prov"])
    run.check(ok, "C17.AGG", afn.qual, "advertised side reads all batteries and inverters of the group",
              "the advertised side does not read the whole group's batteries and inverters (each with its own "
              f"metric list): {sorted(set(adv['prov']))}", node=adv["loop"], file=afn.file)
    run.check(whole, "C17.AGG", gcd.qual, "enforced side reads all batteries and inverters of the group",
              "the enforced side reads a different battery/inverter set for a group than the advertised side "
              "(e.g. only the working batteries of the group): for the same component data the two "
              "inclusion bounds differ", node=gcd.node, file=gcd.file)
    run.check(kept, "C17.AGG", gcd.qual, "every group with data is appended to the returned pairs",
              "the enforced side does not hand every group whose data is available to the bounds aggregation "
              "(pair not appended, or appended / skipped under another condition than `data is None`): the "
              "enforced bounds leave out a group the advertised ones count", node=gcd.node, file=gcd.file)
    # positional tables of the calculator
    init, tables = _metric_tables(prog, adv)
    run.analysed(init.qual)
    for attr, ok in tables.items():
        run.check(ok, "C17.AGG", init.qual, f"{attr} order matches PowerBounds(results[0..3])",
                  f"the metric list {attr} and the positional mapping results[i] -> PowerBounds field disagree: "
                  "a bound would be read from the wrong metric", node=init.node, file=init.file)
    run.check(adv["guards_ok"], "C17.AGG", afn.qual, "a group's bounds are added unless the group has no data",
              "the advertised side adds a group's share under a condition other than 'bounds of the group's "
              "batteries / inverters are available': for complete data a group can be left out of the advertised "
              "bounds while the enforced ones count it", node=adv["loop"], file=afn.file)
    # result wiring: the roles above are *defined* by the slot each aggregate is returned in
    run.check(adv["wiring_ok"], "C17.AGG", afn.qual, "SystemBounds(inclusion=(il, iu), exclusion=(el, eu))",
              "the streamed SystemBounds does not carry the four aggregates in their places", node=afn.node, file=afn.file)


# ------------------------------------------------------------------------------------------ C17.TOPO
# the maps the two aggregations index (the names are those C17.AGG demands in `battery_sets = {…}` and in the reads
# of a group's inverters): role -> attribute of the advertised side, attribute of the enforced side
TOPO_MAPS = {"the battery groups (battery -> batteries of its group)": ("_bat_bats_map", "_bat_bats_map"),
             "a group's inverters (battery -> its inverters)": ("_bat_inv_map", "_bat_invs_map")}
_MUTATORS = ("update", "pop", "popitem", "setdefault", "clear", "__setitem__", "__delitem__")


def _entry_of(prog: Program, module: Any, v: ast.AST) -> tuple[str, ...]:
    """('entry', function, key) for `<call of a resolvable function>(…)[<literal key>]` (or `.get(<literal key>)`),
    else ('other', text)."""
    call, key = None, None
    if isinstance(v, ast.Subscript) and isinstance(v.slice, ast.Constant) and isinstance(v.slice.value, str):
        call, key = v.value, v.slice.value
    elif isinstance(v, ast.Call) and isinstance(v.func, ast.Attribute) and v.func.attr == "get" and len(v.args) == 1 \
            and not v.keywords and isinstance(v.args[0], ast.Constant) and isinstance(v.args[0].value, str):
        call, key = v.func.value, v.args[0].value
    if isinstance(call, ast.Call) and isinstance(call.func, (ast.Name, ast.Attribute)):
        tgt = prog.resolve_name(module, u(call.func))
        qual = getattr(tgt, "qual", None)
        if qual is not None and hasattr(tgt, "node") and isinstance(tgt.node, ast.FunctionDef):
            return ("entry", qual, key)  # type: ignore[return-value]
    return ("other", first_line(u(v), 90))


def map_sources(prog: Program, cls_qual: str, attr: str) -> tuple[Any, set[tuple[str, ...]], ast.AST]:
    """Where `self.<attr>` of a class comes from: (the constructor, the set of sources, a statement to point at).
    A source is ('entry', function, key) -- the value a constructor path leaves in the attribute is that entry of the
    function's result, locals and straight-line private helpers substituted --, ('unset',) for a constructor path
    that does not bind it, ('other', text) for any other value, and ('patched', where) for every further store,
    item store or mutating call on the attribute anywhere in the class.  The topology function itself stays an
    opaque call (it is the common source, not a helper to look into)."""
    ci = prog.cls(cls_qual)
    init = prog.func(f"{cls_qual}.__init__")
    me = init.params[0]
    out: set[tuple[str, ...]] = set()
    node = inline_straightline(prog, init, copy.deepcopy(init.node))
    for p in returns_of(node, init.qual):
        ws = [e.node.elts[1] for e in p.effects if e.kind == "write"  # type: ignore[attr-defined]
              and u(e.node.elts[0]) == f"{me}.{attr}"]  # type: ignore[attr-defined]
        out.add(_entry_of(prog, init.module, ws[-1]) if ws else ("unset",))
        for w in ws[:-1]:
            out.add(("patched", f"bound more than once in {init.name} (line {getattr(w, 'lineno', '?')})"))
    at: ast.AST = init.node
    for m in ci.methods.values():
        mine = m.params[0] if m.params else "self"

        def is_map(e: ast.AST, mine: str = mine) -> bool:
            return isinstance(e, ast.Attribute) and e.attr == attr and is_name(e.value, mine)
        for n in ast.walk(m.node):
            if is_map(n) and isinstance(n.ctx, (ast.Store, ast.Del)):  # type: ignore[attr-defined]
                if m.node is init.node:
                    at = next((s for s in ast.walk(init.node) if isinstance(s, (ast.Assign, ast.AnnAssign, ast.AugAssign))
                               and any(t is n for t in ast.walk(s))), at) if at is init.node else at
                else:
                    out.add(("patched", f"bound again in {m.name} (line {n.lineno})"))
            elif isinstance(n, ast.Subscript) and is_map(n.value) and isinstance(n.ctx, (ast.Store, ast.Del)):
                out.add(("patched", f"item stored in {m.name} (line {n.lineno})"))
            elif isinstance(n, ast.Call) and isinstance(n.func, ast.Attribute) and n.func.attr in _MUTATORS and is_map(n.func.value):
                out.add(("patched", f"{n.func.attr}() in {m.name} (line {n.lineno})"))
    return init, out, at


def check_topo(run: Run, prog: Program) -> None:
    """'For every battery/inverter topology (shared inverters, shared batteries) … the inclusion bounds advertised and
    enforced are identical': the two aggregations are the same function of (groups, group -> inverters, data) by
    C17.AGG, so they agree on every topology only if they are handed the same partition into groups and the same
    inverter set per group.  The pool and the distributor build their maps in two constructors; the rule demands the
    same provenance on both sides rather than judging two graph computations equivalent."""
    sides = (("advertised", f"{MC}:PowerBoundsCalculator"), ("enforced", f"{BMM}:BatteryManager"))
    for role, attrs in TOPO_MAPS.items():
        got = [map_sources(prog, cls, attr) for (_label, cls), attr in zip(sides, attrs)]
        for init, _s, _at in got:
            run.analysed(init.qual)
        (a_init, a_src, a_at), (e_init, e_src, e_at) = got
        good = len(a_src) == 1 and a_src == e_src and next(iter(a_src))[0] == "entry"
        # point at the side that left the common source (the advertised one when both or neither did)
        a_clean = len(a_src) == 1 and next(iter(a_src))[0] == "entry"
        e_clean = len(e_src) == 1 and next(iter(e_src))[0] == "entry"
        init, at = (e_init, e_at) if a_clean and not e_clean else (a_init, a_at)

        def show(src: set[tuple[str, ...]]) -> str:
            return " | ".join(f"{s[1].split(':')[-1]}(…)[{s[2]!r}]" if s[0] == "entry" else
                              "not bound on a constructor path" if s[0] == "unset" else f"{s[0]}: {s[1]}" for s in sorted(src))
        run.check(good, "C17.TOPO", init.qual, at if at is not init.node else f"{init.qual}: self.{attrs[0]}",
                  f"the pool (advertised bounds) and the distributor (enforced bounds) do not take {role} from the same source: "
                  f"advertised self.{attrs[0]} = {show(a_src)}; enforced self.{attrs[1]} = {show(e_src)}.  Both must be one and "
                  "the same entry of the same topology function's result, bound once in the constructor and never patched.  A "
                  "map rebuilt on one side (batteries with *equal* inverter sets, groups cut down to the pool's batteries, "
                  "another entry of the result, entries added or removed later) agrees for 1:1 pairs and for batteries that "
                  "share all their inverters, but not for partially shared ones (A behind I1+I2, B behind I2 only): the pool "
                  "then sums over other groups / inverter sets than the distributor, the advertised inclusion bounds differ "
                  "from the enforced ones and a power inside the advertised bounds is answered OutOfBounds",
                  node=at, file=init.file,
                  instance=f"{role}: both sides read {show(a_src)}")


def check_acc(run: Run, prog: Program) -> None:
    from ._admission import explore_admission, reached_bounds
    from .c03 import _report_orderings

    # SystemBounds.__contains__ / Bounds.__contains__ are interpreted too (order-only code)
    sbc = prog.func(f"{BT}:SystemBounds.__contains__")
    run.analysed(sbc.qual)
    run.analysed(f"{BT}:Bounds.__contains__")

    def extra(it, ctx):
        zero = ctx["zero"]
        a_el, a_eu = Atom("adv_excl_lower"), Atom("adv_excl_upper")
        it.assume("<=", a_el, ctx["el"])       # advertised exclusion zone contains the enforced one
        it.assume("<=", ctx["eu"], a_eu)
        it.assume("<=", ctx["il"], a_el)
        it.assume("<=", a_eu, ctx["iu"])
        adv = Obj("SystemBounds", timestamp=Obj("ts"),
                  inclusion_bounds=Obj("Bounds", lower=ctx["il"], upper=ctx["iu"]),
                  exclusion_bounds=Obj("Bounds", lower=a_el, upper=a_eu))
        it.module_stack.append(prog.module(BT))
        inside = it.call_func(sbc, [adv, ctx["P"]], {})
        it.module_stack.pop()
        ctx["advertised_contains"] = inside
        # P != 0
        if it.cmp3(ctx["P"], zero, "P ? 0") == "=":
            ctx["advertised_contains"] = False

    def post(it, res, ctx):
        if not ctx.get("advertised_contains"):
            return None
        if getattr(res, "cls", None) == "OutOfBounds":
            return ("bad", [f"P is inside the advertised bounds but the request is rejected as OutOfBounds "
                            f"(adjust_power={ctx['adjust']})"])
        if ctx["ids"] == "known ids" and res is not None:
            return ("bad", [f"P is inside the advertised bounds and the request names known batteries, but it is "
                            f"not accepted: answered {getattr(res, 'cls', res)!s} (adjust_power={ctx['adjust']})"])
        return None

    fn, outs = explore_admission(prog, post, extra)
    run.analysed(fn.qual)
    # the obligation lives on the paths that get as far as the bounds comparison (the id-validation
    # prefix answers Error, never OutOfBounds); anything raising or violating is kept whatever it reached
    outs = [o for o in outs if reached_bounds(o) or o.kind == "raise" or o.post is not None]
    _report_orderings(run, "C17.ACC", fn, outs, "advertised membership implies admission")
    if len(outs) < 30:
        raise AnalysisError(f"C17.ACC: only {len(outs)} abstract paths")
    run.extra_cov.setdefault("abstract_paths", {})["admission"] = len(outs)


CONTROLS = [
    ("advertised exclusion is max of sums per field", MC,
     "            exclusion_bounds_upper += max(\n                aggregated_bat_bounds.exclusion_upper,\n                sum(bound.exclusion_upper for bound in inverter_bounds),\n            )",
     "            exclusion_bounds_upper += min(\n                aggregated_bat_bounds.exclusion_upper,\n                sum(bound.exclusion_upper for bound in inverter_bounds),\n            )",
     "C17.AGG"),
    ("adjustable requests rejected up to the inclusion bound", BMM,
     "            if bounds.exclusion_lower < power < bounds.exclusion_upper:",
     "            if bounds.exclusion_lower < power < bounds.inclusion_upper:", "C17.ACC"),
    ("two metric ids swapped", MC,
     "            ComponentMetricId.POWER_EXCLUSION_LOWER_BOUND,\n            ComponentMetricId.POWER_EXCLUSION_UPPER_BOUND,",
     "            ComponentMetricId.POWER_EXCLUSION_UPPER_BOUND,\n            ComponentMetricId.POWER_EXCLUSION_LOWER_BOUND,", "C17.AGG"),
    ("enforced inclusion uses the battery bound only", BMM,
     "            inclusion_upper=sum(\n                min(\n                    battery.power_bounds.inclusion_upper,\n                    sum(\n                        inverter.active_power_inclusion_upper_bound\n                        for inverter in inverters\n                    ),\n                )\n                for battery, inverters in pairs_data\n            ),",
     "            inclusion_upper=sum(\n                battery.power_bounds.inclusion_upper\n                for battery, inverters in pairs_data\n            ),", "C17.AGG"),
    ("groups counted per battery", MC,
     "        battery_sets = {\n            self._bat_bats_map[battery_id] for battery_id in working_batteries\n        }",
     "        battery_sets = [\n            self._bat_bats_map[battery_id] for battery_id in sorted(working_batteries)\n        ]", "C17.AGG"),
    ("non-adjustable range excludes the inclusion bound itself", BMM,
     "            in_upper_range = bounds.exclusion_upper <= power <= bounds.inclusion_upper",
     "            in_upper_range = bounds.exclusion_upper <= power < bounds.inclusion_upper", "C17.ACC"),
    ("inverter exclusion guard dropped", BDA_MOD,
     "                        not is_close_to_zero(remaining_power)\n                        and excl_bounds[inverter_id] <= remaining_power\n",
     "                        not is_close_to_zero(remaining_power)\n", "C17.DIST"),
    ("requests naming batteries are answered 'empty ids'", BMM,
     "        if not request.component_ids:\n", "        if request.component_ids:\n", "C17.ACC"),
    ("a group with exactly one battery reading is left out of the advertised bounds", MC,
     "            if len(battery_bounds) == 0:\n", "            if len(battery_bounds) == 1:\n", "C17.AGG"),
    ("a group's pair is not handed to the bounds aggregation", BMM,
     "            pairs_data.append(data)\n", "            pass\n", "C17.AGG"),
    ("the pair is returned only when a crucial battery metric is NaN", BMM,
     "        if nan_metric_in_list(battery_data, crucial_metrics_bat):\n",
     "        if not nan_metric_in_list(battery_data, crucial_metrics_bat):\n", "C17.AGG"),
    ("a computed distribution with left-over power is answered out-of-bounds", BMM,
     "        return distribution\n\n    async def _distribute_power(",
     "        if not request.adjust_power and not is_close_to_zero(distribution.remaining_power):\n"
     "            return OutOfBounds(request=request, bounds=self._get_bounds(pairs_data))\n"
     "        return distribution\n\n    async def _distribute_power(", "C17.ONLY"),
    ("the enforced inclusion bound is summed with the built-in sum()", BMM,
     "            inclusion_lower=math.fsum(\n", "            inclusion_lower=sum(\n", "C17.EXACT"),
    ("the advertised inverter totals are summed with the built-in sum()", MC,
     "                    math.fsum(bound.inclusion_lower for bound in inverter_bounds),\n",
     "                    sum(bound.inclusion_lower for bound in inverter_bounds),\n", "C17.EXACT"),
    ("the pool builds its battery groups itself (batteries with equal inverter sets)", MC,
     '        self._bat_bats_map = mappings["bat_bats"]\n',
     "        self._bat_bats_map = {\n            b: frozenset(o for o, i in self._bat_inv_map.items() if i == v)\n"
     "            for b, v in self._bat_inv_map.items()\n        }\n", "C17.TOPO"),
    ("the distributor looks a group's inverters up in another entry of the topology maps", BMM,
     '        self._bat_invs_map = maps["bat_invs"]\n', '        self._bat_invs_map = maps["inv_invs"]\n', "C17.TOPO"),
    ("an inverter's exclusion entry is raised to the exclusion bound of the battery behind it", BDA_MOD,
     "                    excl_bounds[inverter.component_id] = (\n                        inverter.active_power_exclusion_upper_bound\n                    )\n",
     "                    excl_bounds[inverter.component_id] = max(\n                        inverter.active_power_exclusion_upper_bound,\n"
     "                        battery.power_bounds.exclusion_upper,\n                    )\n", "C17.DIST"),
    ("deficit covering zeroes a snapshot of the donor's reserve, not the donor's entry", BDA_MOD,
     "                    excess_reserved[largest.inverter_ids] = 0.0\n", "                    largest.power = 0.0\n", "C17.DIST"),
]


# the premises of the property's last clause, each decided by a rule function of C02 (which owns the set-point
# clauses): (C02 rule function, C02 rule ids it reports with their instance floors, what the premise is for C17)
DIST_PARTS = (
    ("check_inv", {"C02.INV": 4},
     "the split of a group's allocation over its inverters",
     "an admitted power is split over the inverters of a group into an exclusion zone: ", ""),
    ("check_tab", {"C02.TAB": 6},
     "the bound tables of the distribution",
     "a power inside the advertised bounds is distributed with a bound table that does not hold the component's own bound: ",
     ".  [The group minimum power max(excl[battery], min_i excl[inverter_i]) that C17.AGG puts below the group's share "
     "max(b, Σ_i x_i) of the advertised exclusion bound, and the split's guard excl[i] <= rest, are proved for "
     "excl[battery] = b and excl[inverter_i] = x_i (own bounds, requested direction) only.  The battery's zone is kept "
     "by the SUM over the group's inverters (what the advertised bound is computed from): an inverter entry raised to "
     "the battery's bound -- the mirror image of the inclusion clamp -- makes the split pass over an inverter when the "
     "rest is below the battery's bound, the rest stays undistributed and the battery runs inside its own exclusion "
     "zone; an entry that is scaled, read from another component, the other direction or the other table moves the "
     "minimum power off the advertised bound likewise]"),
    ("check_book", {"C02.BOOK": 3, "C02.RES": 5},
     "the books of the reservation (minimum powers handed out, reserve, deficits, remainder of the top-up)",
     "a power inside the advertised bounds is distributed with books that do not balance: ",
     ".  ['At least the sum of the groups' minimum powers, so it can be distributed without entering any exclusion "
     "zone' needs every group to keep the minimum power it is handed up front: the top-up gets request - (what the "
     "cells received), deficit covering takes from the donor's own entry what the deficit gains.  An update that goes "
     "to a snapshot / copy of the entry (never written back), to another key or nowhere, a reserve counted twice, a "
     "group booked without being served: the ledger exceeds the request and the negative remainder is taken back from "
     "a group, which ends below its minimum power, inside its exclusion zone]"),
)


def check_dist(run: Run, prog: Program) -> None:
    """Last clause of the property: an admitted power 'is at least the sum of the minimum powers of the battery
    groups involved, so it can be distributed without entering any exclusion zone'.  C17.AGG proves the inequality
    (Σ_g min_power_g below the advertised exclusion bound) for the *shape* max(excl[b], min_i excl[i]); the 'so it can
    be distributed' rests on three premises about the distribution, which C02 owns and decides:

      split   every stored inverter set-point is zero, the whole allocation of a one-inverter set, or min(incl[i], R)
              on a path that established excl[i] <= R, R the power still to be placed            (C02.INV)
      tables  excl[·] / incl[·] hold each component's own bound of the requested direction (an inclusion entry may be
              clipped further, an exclusion entry may not be raised): the minimum power C17.AGG reasons about is the
              one computed, and the battery's zone is left to the group sum                     (C02.TAB)
      books   per path the distributed-power ledger grows by what the cells receive, the reservation by
              max(share, min_power), deficit covering takes from the donor's own entry what the deficit gains: the
              remainder handed to the top-up is never negative because of the books, so no group is pushed back
              below the minimum power it was handed                                             (C02.BOOK, C02.RES)

    C02's rule functions are run as they are into a scratch run and their verdicts re-issued under C17.DIST (one source
    of truth for the clause; a tree C02 cannot read is one C17 cannot read either: fail closed)."""
    try:
        from . import c02
    except ImportError as exc:  # fail closed: the clause would silently go undecided
        raise AnalysisError(f"C17.DIST: the distribution rules of C02 are not importable ({exc})") from None
    guarded = getattr(c02, "_guarded", None)
    reported: set[tuple[str, str, str]] = set()             # a wrong anchor shared by two parts is reported once
    for fname, floors, what, lead, why in DIST_PARTS:
        rule_fn = getattr(c02, fname, None)
        if rule_fn is None:
            raise AnalysisError(f"C17.DIST: C02's rule function `{fname}` ({what}) was not found")
        scratch = Run(run.prop_id, run.tier, run.seed)
        scratch.quiet = True
        if guarded is not None:
            guarded(rule_fn, scratch, prog)             # an anchor that is recognisably wrong is a violation
        else:
            rule_fn(scratch, prog)
        for q in scratch.functions:
            run.analysed(q)
        bad = set()
        for v in scratch.violations:
            file, _, line = v.where.rpartition(":")
            at = ast.Pass(lineno=int(line)) if line.isdigit() else None
            bad.add(f"{v.rule}|{v.function} :: {first_line(v.construct, 100)}")
            if (v.function, v.construct, v.message) in reported:
                continue
            reported.add((v.function, v.construct, v.message))
            # worded by the premise the verdict belongs to (a wrong anchor found while binding roles for another part)
            v_lead, v_why = next(((l, w) for _f, fl, _wh, l, w in DIST_PARTS if v.rule in fl), (lead, why))
            run.violation("C17.DIST", v.function, v.construct, v_lead + v.message + v_why,
                          node=at, file=(file if at is not None else v.where) or None, path=v.path)
        if not scratch.violations:
            for rid, minimum in floors.items():
                have = sum(1 for d in scratch.distinct if d.startswith(rid + "|"))
                if have < minimum:
                    raise AnalysisError(f"C17.DIST: {what}: only {have} instance(s) of {rid} decided, floor is {minimum} "
                                        "(the premise would pass vacuously)")
        for d in sorted(scratch.distinct - bad):           # what the scratch run discharged
            run.ok("C17.DIST", d.split("|", 1)[1])


def check_only(run: Run, prog: Program) -> None:
    """Who may answer out-of-bounds: an `OutOfBounds(...)` result is built only inside the admission test
    (the function playing `_check_request` and the private methods it calls), i.e. only where C17.ACC has
    decided, for every ordering, that it is not produced for a power inside the advertised bounds.  Any
    other producer on the request path — a rejection after the distribution was computed (left-over
    power, SoC headroom), in the distribution algorithm, in the actor that forwards results, a
    conversion of another failure into OutOfBounds — is a rejection the advertised bounds (which depend
    only on the power bounds of the components) do not explain."""
    from ._admission import check_request_fn, reach

    chk = check_request_fn(prog)
    allowed = [f.node for f in reach(prog, chk)]
    sites = 0
    for mod in prog.modules.values():
        stack: list[tuple[ast.AST, ast.AST | None]] = [(mod.tree, None)]
        while stack:
            n, owner = stack.pop()
            if isinstance(n, (ast.FunctionDef, ast.AsyncFunctionDef)) and owner is None:
                owner = n                                   # the outermost function holds its closures
            if isinstance(n, ast.Call) and _callee(n) == "OutOfBounds":
                sites += 1
                where = f"{mod.name}:{getattr(owner, 'name', '<module level>')}"
                run.check(owner is not None and any(owner is a for a in allowed), "C17.ONLY", where, n,
                          f"an OutOfBounds answer is produced outside the admission test ({chk.name} and its helpers): "
                          "this rejection is not decided by comparing the requested power with the aggregated bounds, "
                          "so a power inside the advertised bounds (which do not depend on SoC, left-over power or "
                          "set-point failures) can be answered out-of-bounds", node=n, file=mod.rel,
                          instance=f"{where}: OutOfBounds built at line {n.lineno} inside the admission test")
            stack.extend((c, owner) for c in ast.iter_child_nodes(n))
    if sites == 0:
        raise AnalysisError("C17.ONLY: no construction of OutOfBounds found at all")


_CMP = {ast.Lt: "<", ast.Gt: ">", ast.LtE: "<=", ast.GtE: ">="}


def structural_controls(prog: Program) -> list[tuple[str, str, str, str, str]]:  # noqa: C901
    """The controls located by structure in the tree under analysis (whole source -> patched
    source), so that the same defects are injected into any surface form of the anchors; a site that
    cannot be located falls back to the textual control (reported as skipped when it does not apply)."""
    built: dict[str, tuple[str, str]] = {}

    def add(nm: str, module: str, edits: list[tuple[ast.AST, str]]) -> None:
        src = prog.module(module).source
        if not edits:
            return
        try:
            new = splice(src, edits)
            ast.parse(new)
        except (SyntaxError, AnalysisError):
            return
        if new != src:
            built[nm] = (src, new)

    def attr_args(c: ast.AST, funcs: tuple[str, ...], attr: str) -> list[ast.AST] | None:
        a = simple_call(c, funcs, 2)
        return a if a is not None and any(isinstance(x, ast.Attribute) and x.attr == attr for x in a) else None

    def sites(cls_qual: str, attr: str, strict: bool) -> list[tuple[ast.Compare, int, ast.Attribute]]:
        """(comparison, operator index, operand) for every `<x>.attr` operand a strict / non-strict order
        operator is applied to in the methods of a class"""
        out = []
        for m in prog.cls(cls_qual).methods.values():
            for c in ast.walk(m.node):
                if not isinstance(c, ast.Compare):
                    continue
                operands = [c.left] + list(c.comparators)
                for k, op in enumerate(c.ops):
                    if type(op) in _CMP and (type(op) in (ast.Lt, ast.Gt)) == strict:
                        out += [(c, k, x) for x in operands[k:k + 2] if isinstance(x, ast.Attribute) and x.attr == attr]
        return out

    msrc, bsrc = prog.module(MC).source, prog.module(BMM).source
    calc = prog.cls(f"{MC}:PowerBoundsCalculator")
    # 1. the advertised exclusion upper bound takes min instead of max per group
    mx = [c for m in calc.methods.values() for c in ast.walk(m.node) if attr_args(c, ("max",), "exclusion_upper")]
    if len(mx) == 1:
        add(CONTROLS[0][0], MC, [(mx[0].func, "min")])  # type: ignore[attr-defined]
    # 2. adjustable requests: the strict zone test reaches up to the inclusion bound
    zone = sites(f"{BMM}:BatteryManager", "exclusion_upper", strict=True)
    if len(zone) == 1:
        add(CONTROLS[1][0], BMM, [(zone[0][2], f"{seg(bsrc, zone[0][2].value)}.inclusion_upper")])
    # 3. two ids of the battery metric table swapped
    init = calc.methods.get("__init__")
    if init is not None:
        tables = [n for n in ast.walk(init.node) if isinstance(n, ast.List) and len(n.elts) == 4
                  and all(u(e).split(".")[-1].startswith("POWER_") for e in n.elts)]
        if len(tables) == 1:
            e1, e2 = tables[0].elts[1], tables[0].elts[2]
            add(CONTROLS[2][0], MC, [(e1, seg(msrc, e2)), (e2, seg(msrc, e1))])
    # 4. the enforced inclusion upper bound ignores the inverters
    gb = prog.cls(f"{BMM}:BatteryManager")
    mn = [(c, a) for m in gb.methods.values() for c in ast.walk(m.node)
          for a in [attr_args(c, ("min",), "inclusion_upper")] if a]
    if len(mn) == 1:
        keep = [x for x in mn[0][1] if isinstance(x, ast.Attribute) and x.attr == "inclusion_upper"]
        add(CONTROLS[3][0], BMM, [(mn[0][0], seg(bsrc, keep[0]))])
    # 5. the advertised side iterates a list of groups (one entry per working battery)
    def group_set(n: ast.AST) -> ast.AST | None:
        comp = n if isinstance(n, ast.SetComp) else None
        a = simple_call(n, ("set", "frozenset"), 1)
        if a is not None and isinstance(a[0], (ast.GeneratorExp, ast.ListComp, ast.SetComp)):
            comp = a[0]
        if comp is not None and isinstance(comp.elt, ast.Subscript) and u(comp.elt.value).endswith("._bat_bats_map") \
                and len(comp.generators) == 1 and not comp.generators[0].ifs:
            return comp
        return None

    sets = [(n, group_set(n)) for m in calc.methods.values() for n in ast.walk(m.node) if group_set(n) is not None]
    sets = [(n, c) for n, c in sets if not any(c2 is c and n2 is not n for n2, c2 in sets if n is c)]  # set({…}): the outer one
    if len(sets) == 1:
        n, comp = sets[0]
        g = comp.generators[0]  # type: ignore[union-attr]
        add(CONTROLS[4][0], MC, [(n, f"[{seg(msrc, comp.elt)} for {seg(msrc, g.target)} in "  # type: ignore[union-attr]
                                     f"sorted({seg(msrc, g.iter)})]")])
    # 6. non-adjustable requests: the inclusion upper bound itself is refused
    rng = sites(f"{BMM}:BatteryManager", "inclusion_upper", strict=False)
    if len(rng) == 1:
        c, kk, _x = rng[0]
        operands = [c.left] + list(c.comparators)
        parts = [seg(bsrc, operands[0])]
        for k, op in enumerate(c.ops):
            sym = {**_CMP, ast.Eq: "==", ast.NotEq: "!=", ast.Is: "is", ast.IsNot: "is not", ast.In: "in",
                   ast.NotIn: "not in"}[type(op)]
            parts += [sym[0] if k == kk else sym, seg(bsrc, operands[k + 1])]
        add(CONTROLS[5][0], BMM, [(c, " ".join(parts))])
    # 7. the per-inverter exclusion guard of the split is dropped
    mip = prog.func(f"{BDA_MOD}:BatteryDistributionAlgorithm._distribute_multi_inverter_pairs")
    if len(mip.params) == 4:
        excl = mip.params[2]
        guards = [c for c in ast.walk(mip.node) if isinstance(c, ast.Compare) and len(c.ops) == 1
                  and isinstance(c.ops[0], (ast.LtE, ast.GtE, ast.Lt, ast.Gt))
                  and any(isinstance(x, ast.Subscript) and is_name(x.value, excl) for x in [c.left, c.comparators[0]])]
        if len(guards) == 1:
            add(CONTROLS[6][0], BDA_MOD, [(guards[0], "True")])
    # 8. the emptiness test of the requested ids is inverted
    empt = [t for m in gb.methods.values() for i in ast.walk(m.node) if isinstance(i, ast.If)
            for t in [i.test] if isinstance(t, ast.UnaryOp) and isinstance(t.op, ast.Not)
            and isinstance(t.operand, ast.Attribute) and t.operand.attr == "component_ids"]
    if len(empt) == 1:
        add(CONTROLS[7][0], BMM, [(empt[0], seg(bsrc, empt[0].operand))])
    # 9. a data guard of the advertised side (in `calculate` or a private method it calls) tests `== 1`
    #    instead of `== 0`: the guard is an `if` over `len(…) <op> 0` that leaves the group (continue / return)
    calc_fn = calc.methods.get("calculate")
    if calc_fn is not None:
        scope, frontier = [calc_fn.node], [calc_fn.node]
        for _ in range(3):
            nxt = [m.node for f in frontier for c in ast.walk(f) if isinstance(c, ast.Call)
                   and isinstance(c.func, ast.Attribute) and isinstance(c.func.value, ast.Name)
                   and c.func.value.id in ("self", "cls", calc.name) for m in [calc.methods.get(c.func.attr)]
                   if m is not None and m.node not in scope]
            scope += [n for n in dict.fromkeys(nxt) if n not in scope]
            frontier = nxt
        zeros = sorted((i.lineno, i.col_offset, k) for f in scope for i in ast.walk(f) if isinstance(i, ast.If)
                       and isinstance(i.body[-1], (ast.Continue, ast.Return)) for c in [i.test]
                       if isinstance(c, ast.Compare) and len(c.ops) == 1
                       for a, k in ((c.left, c.comparators[0]), (c.comparators[0], c.left))
                       if simple_call(a, ("len",), 1) is not None and isinstance(k, ast.Constant) and k.value == 0
                       and isinstance(k.value, int) and not isinstance(k.value, bool))
        if zeros:
            add(CONTROLS[8][0], MC, [(zeros[0][2], "1")])
        else:                                           # the guard is written `if not <list>:`
            empties = sorted((i.lineno, i.col_offset, i.test) for f in scope for i in ast.walk(f) if isinstance(i, ast.If)
                             and isinstance(i.body[-1], (ast.Continue, ast.Return)) and isinstance(i.test, ast.UnaryOp)
                             and isinstance(i.test.op, ast.Not) and isinstance(i.test.operand, ast.Name))
            if empties:
                add(CONTROLS[8][0], MC, [(empties[0][2], f"len({seg(msrc, empties[0][2].operand)}) == 1")])
    # 10. the group's pair is not appended to the returned list (the loop that fetches the group's data,
    #     in whichever method of the manager it lives)
    apps = [st for m in gb.methods.values() for lp in ast.walk(m.node) if isinstance(lp, ast.For)
            and find_calls(lp, lambda c: method_call(c, None, _pair_data_fn(prog).name))
            for st in ast.walk(lp) if isinstance(st, ast.Expr) and isinstance(st.value, ast.Call)
            and method_call(st.value, None, "append") and isinstance(st.value.func.value, ast.Name)]  # type: ignore[attr-defined]
    if len(apps) == 1:
        add(CONTROLS[9][0], BMM, [(apps[0], "pass")])
    # 11. a NaN test that drops the group is inverted
    gbi = _pair_data_fn(prog)
    if gbi is not None:
        drops = sorted((i.lineno, i.test) for i in walk_no_nested(gbi.node) if isinstance(i, ast.If) and not i.orelse
                       and isinstance(i.test, ast.Call) and isinstance(i.body[-1], ast.Return)
                       and (i.body[-1].value is None or _is_none(i.body[-1].value)))
        if drops:
            add(CONTROLS[10][0], BMM, [(drops[0][1], f"not {seg(bsrc, drops[0][1])}")])
    # 12. the request handler (the method that runs the admission test) rejects once more on its way out
    from ._admission import check_request_fn

    chk = check_request_fn(prog)
    handlers = [m for m in gb.methods.values() if m.node is not chk.node
                and find_calls(m.node, lambda c: method_call(c, None, chk.name))]
    if len(handlers) == 1 and len(handlers[0].params) >= 2:
        req = handlers[0].params[1]
        last = [st for st in handlers[0].node.body if isinstance(st, ast.Return) and st.value is not None]
        if last and last[-1] is handlers[0].node.body[-1]:
            pad = " " * last[-1].col_offset
            add(CONTROLS[11][0], BMM, [(last[-1], f"if not {req}.adjust_power:\n{pad}    return OutOfBounds(request={req}, "
                                                   f"bounds=None)\n{pad}return {seg(bsrc, last[-1].value)}")])
    # 13./14. the topology maps: the pool derives its groups from its own battery -> inverters map; the distributor
    #     reads a group's inverters from another entry of the builder's result
    def map_assign(cls_qual: str, attr: str) -> ast.Assign | None:
        ini = prog.cls(cls_qual).methods.get("__init__")
        hits = [s for s in ast.walk(ini.node) if isinstance(s, ast.Assign) and len(s.targets) == 1
                and isinstance(s.targets[0], ast.Attribute) and s.targets[0].attr == attr] if ini is not None else []
        return hits[0] if len(hits) == 1 else None

    (a_grp, _e_grp), (a_inv, e_inv) = TOPO_MAPS.values()
    grp, inv = map_assign(f"{MC}:PowerBoundsCalculator", a_grp), map_assign(f"{MC}:PowerBoundsCalculator", a_inv)
    if grp is not None and inv is not None and inv.lineno < grp.lineno:
        m = seg(msrc, inv.targets[0])
        add(CONTROLS[14][0], MC, [(grp.value, f"{{b: frozenset(o for o, i in {m}.items() if i == v) for b, v in {m}.items()}}")])
    einv = map_assign(f"{BMM}:BatteryManager", e_inv)
    if einv is not None and isinstance(einv.value, ast.Subscript) and isinstance(einv.value.slice, ast.Constant) \
            and isinstance(einv.value.slice.value, str):
        add(CONTROLS[15][0], BMM, [(einv.value.slice, '"inv_invs"' if einv.value.slice.value != "inv_invs" else '"inv_bats"')])
    # 15. the table of per-component exclusion bounds: an inverter's entry (keyed `<inverter>.component_id`, value the
    #     inverter's own upper exclusion bound) takes the larger of its own and the battery aggregate's bound
    dsrc = prog.module(BDA_MOD).source
    bda = prog.cls(f"{BDA_MOD}:BatteryDistributionAlgorithm")
    own_attr = next(k for k, v in INV_ATTR.items() if v == "eu")
    entries = [(m, st) for m in bda.methods.values() for st in ast.walk(m.node) if isinstance(st, ast.Assign)
               and len(st.targets) == 1 and isinstance(st.targets[0], ast.Subscript)
               and isinstance(st.targets[0].slice, ast.Attribute) and st.targets[0].slice.attr == "component_id"
               and isinstance(st.value, ast.Attribute) and st.value.attr == own_attr
               and u(st.value.value) == u(st.targets[0].slice.value)]
    if len(entries) == 1:
        m, st = entries[0]
        bat = [x for x in ast.walk(m.node) if isinstance(x, ast.Attribute) and x.attr == "exclusion_upper"
               and isinstance(x.value, ast.Attribute) and x.value.attr == "power_bounds"]
        if bat:
            add(CONTROLS[16][0], BDA_MOD, [(st.value, f"max({seg(dsrc, st.value)}, {seg(dsrc, bat[0])})")])
    # 16. deficit covering: the store that empties the donor's entry of the reserve table (`R[<snapshot>.<key field>] = 0`
    #     inside the covering `while`, R also reduced by `R[…] += …` there) goes to the snapshot's other field instead
    zeroed = [(st, st.targets[0]) for m in bda.methods.values() for w in ast.walk(m.node) if isinstance(w, ast.While)
              for st in ast.walk(w) if isinstance(st, ast.Assign) and len(st.targets) == 1
              and isinstance(st.targets[0], ast.Subscript) and isinstance(st.targets[0].value, ast.Name)
              and isinstance(st.value, ast.Constant) and st.value.value == 0
              and isinstance(st.targets[0].slice, ast.Attribute) and isinstance(st.targets[0].slice.value, ast.Name)
              and any(isinstance(a, ast.AugAssign) and isinstance(a.target, ast.Subscript)
                      and u(a.target.value) == u(st.targets[0].value) for a in ast.walk(w))]
    if len({id(st) for st, _t in zeroed}) == 1:
        st, tgt = zeroed[0]
        try:
            other = [f for f in record_fields(prog, BDA_MOD, "_Allocation") if f != tgt.slice.attr]  # type: ignore[attr-defined]
        except (AnalysisError, KeyError):
            other = []
        if len(other) == 1:
            add(CONTROLS[17][0], BDA_MOD, [(tgt, f"{tgt.slice.value.id}.{other[0]}")])  # type: ignore[attr-defined]
    return [(nm, module, *built.get(nm, (old, new)), rule) for nm, module, old, new, rule in CONTROLS]


def check_exact(run: Run, prog: Program) -> None:
    """C17.EXACT ("the inclusion bounds advertised and enforced are identical", and a power *on* an advertised bound
    is accepted): the two sides must arrive at the same floating-point number, not only at the same real number.
    They visit groups, batteries and inverters in independent orders (a set of frozensets on one side, a list built
    from another set on the other), so every float reduction that feeds a bound -- over the groups, over a group's
    inverters, over a group's batteries -- has to be independent of the order *and* the same operation on both
    sides: `math.fsum` (exactly rounded).  The built-in `sum()` (compensated since CPython 3.12, still order
    dependent) and an accumulating `acc += x` loop (plain left-to-right rounding) differ from each other and from
    themselves under another order in the last bit."""
    adv, enf = advertised(prog), enforced(prog)
    agg = None
    for m in (adv["fn"].module, enf["fn"].module, prog.modules.get(BDA_MOD)):
        if m is not None and AGG_FN in getattr(m, "functions", {}):
            agg = m.functions[AGG_FN]
    if agg is None:
        mod = prog.modules.get(BDA_MOD)
        agg = mod.functions.get(AGG_FN) if mod is not None else None
    if agg is None:
        raise AnalysisError(f"C17.EXACT: the shared battery aggregation `{AGG_FN}` was not found")
    sides = [("advertised", adv["fn"], adv["node"]), ("enforced", enf["fn"], prepared(prog, enf["fn"])), ("shared", agg, agg.node)]
    n_exact = 0
    for label, fn, node in sides:
        run.analysed(fn.qual)
        inexact: list[str] = []
        for x in ast.walk(node):
            if isinstance(x, ast.Call) and u(x.func) == "sum" and len(x.args) >= 1:
                el = x.args[0].elt if isinstance(x.args[0], (ast.GeneratorExp, ast.ListComp)) else None
                if isinstance(el, ast.Constant) and isinstance(el.value, int):
                    continue                              # a count
                if getattr(x, "_exact_sum", False):
                    n_exact += 1
                else:
                    inexact.append(f"`{first_line(u(x), 70)}` (built-in sum, line {getattr(x, 'lineno', '?')})")
            elif isinstance(x, (ast.For, ast.While)):
                for st in ast.walk(x):
                    if isinstance(st, ast.AugAssign) and isinstance(st.op, (ast.Add, ast.Sub)) \
                            and not (isinstance(st.value, ast.Constant) and isinstance(st.value.value, int)) \
                            and isinstance(st.target, (ast.Name, ast.Attribute)) and st not in _seen_aug:
                        _seen_aug.append(st)
                        inexact.append(f"`{first_line(u(st), 70)}` (accumulating loop, line {st.lineno})")
        _seen_aug.clear()
        run.check(not inexact, "C17.EXACT", fn.qual, f"{label} side: every float reduction feeding a bound is exactly rounded (math.fsum)",
                  f"the {label} side reduces with an order-dependent, differently rounded operation: " + "; ".join(inexact[:6])
                  + (f" (+{len(inexact) - 6} more)" if len(inexact) > 6 else "")
                  + " -- the pool can advertise a bound that differs in the last bit from the one the distributor enforces "
                  "(3 pairs with bounds 536.8 / 1941.1 / 2617.3: advertised 5095.200000000001, enforced 5095.2), and a request "
                  "of exactly the advertised bound is answered OutOfBounds", node=fn.node, file=fn.file)
    run.check(n_exact >= 3, "C17.EXACT", adv["fn"].qual, "exactly rounded reductions exist on the paths of the bounds",
              f"only {n_exact} math.fsum reductions were found on the three sides (groups, inverters, batteries)",
              node=adv["fn"].node, file=adv["fn"].file)


_seen_aug: list[ast.AST] = []


def run_rules(run: Run, prog: Program) -> None:
    check_agg(run, prog)
    check_topo(run, prog)
    check_acc(run, prog)
    check_only(run, prog)
    check_dist(run, prog)
    check_exact(run, prog)


def check(run: Run, prog: Program, tier: str) -> str:
    run.rule("C17.AGG", "advertised vs enforced aggregation terms: inclusion identical; exclusion related by the "
             "Σmax>=maxΣ lemmas; same battery aggregation; every group once with all its members (left out only "
             "when it has no data); positional metric tables agree")
    run.rule("C17.TOPO", "the pool and the distributor take the battery groups and a group's inverters from the same entry of "
             "the same topology function's result (bound once in the constructor, never patched): the same partition on "
             "every topology, incl. partially shared inverters")
    run.rule("C17.ACC", "for every ordering: P != 0 inside the advertised bounds => _check_request admits it")
    run.rule("C17.ONLY", "OutOfBounds is built only inside the admission test, whose every OutOfBounds path C17.ACC "
             "decides; no other code on the request path may answer out-of-bounds")
    run.rule("C17.DIST", "an admitted power (>= Σ_g min_power_g) is distributed without entering an exclusion zone: every "
             "inverter set-point is zero, a one-inverter set's whole allocation, or min(incl[i], R) under excl[i] <= R; the "
             "bound tables hold each component's own bound of the requested direction (an inverter's exclusion entry is "
             "not raised to the battery's: the battery's zone is kept by the group sum); the distributed-power ledger, the "
             "reservation and deficit covering balance per path, so no group is taken back below its minimum power "
             "(C02.INV / C02.TAB / C02.BOOK+RES, re-issued)")
    run.rule("C17.EXACT", "advertised, enforced and shared aggregations reduce floats with math.fsum only (exactly rounded, "
             "order independent): the two sides arrive at the same float, not only the same real number")
    run_rules(run, prog)
    run.floor("C17.EXACT", 4)
    run.floor("C17.AGG", 14)
    run.floor("C17.TOPO", 2)
    run.floor("C17.ACC", 30)
    run.floor("C17.DIST", 18)
    run.floor("C17.ONLY", 1)
    from ..engine.controls import run_controls

    parts = {"C17.AGG": check_agg, "C17.TOPO": check_topo, "C17.ACC": check_acc, "C17.DIST": check_dist, "C17.ONLY": check_only, "C17.EXACT": check_exact}
    run_controls(run, structural_controls(prog), run_rules, tier, base_prog=prog, select=lambda rule: parts[rule])
    run.assume("inverter exclusion bounds satisfy lower <= 0 <= upper; lattice lemmas Σ_g max(a,b) >= "
               "max(Σa, Σb), Σ_g min(a,b) <= min(Σa, Σb), min_i x_i <= Σ_i x_i for x >= 0")
    run.undecided("equality of the *data* the two sides see at run time (the property says 'for the same "
                  "complete component data'); that the group totals of the proportional shares stay between minimum power "
                  "and inclusion bound (numeric, C02's undecided part)")
    run.extra_cov["exhaustive"] = True
    return ("Table/sibling extraction of the two bounds aggregations into normalised aggregation terms "
            "compared by identity or by a fixed table of lattice lemmas, plus order-domain abstract "
            "interpretation of SystemBounds.__contains__ followed by _check_request on the same symbolic "
            "power for every weak ordering.")
