"""C17  Power inside a pool's advertised bounds is never rejected as out of bounds.

  C17.AGG  the advertised aggregation (PowerBoundsCalculator.calculate) and the enforced one
           (BatteryManager._get_bounds) are extracted into aggregation terms over (group, battery
           aggregate, inverter): inclusion lower/upper identical; advertised exclusion at least as
           wide as enforced by the lattice lemmas Σ_g max(a_g, b_g) >= max(Σa, Σb) and its dual;
           the group minimum power max(b, min_i x_i) <= max(b, Σ_i x_i) for x_i >= 0; both sides
           aggregate batteries with the same _aggregate_battery_power_bounds, count every group
           once and use the whole group's batteries and inverters; the positional metric tables of
           the calculator agree with the PowerBounds fields.
  C17.ACC  order-domain: with advertised inclusion == enforced inclusion and advertised exclusion ⊇
           enforced exclusion, every non-zero P with SystemBounds.__contains__(P) true is admitted by
           _check_request, for adjust_power true and false.
"""
from __future__ import annotations

import ast
from typing import Any

from ..engine.absint import Obj
from ..engine.order import Atom, OrderInterp
from ..engine.report import AnalysisError, Run
from ..engine.resolver import Program, body_walk
from ..engine.util import find_calls, method_call, u

MC = "timeseries.battery_pool._metric_calculator"
BMM = "microgrid._power_distributing._component_managers._battery_manager"
BDA_MOD = "microgrid._power_distributing._distribution_algorithm._battery_distribution_algorithm"
BT = "timeseries._base_types"

FIELDS = {"inclusion_lower": "il", "exclusion_lower": "el", "exclusion_upper": "eu", "inclusion_upper": "iu"}
INV_ATTR = {"active_power_inclusion_lower_bound": "il", "active_power_exclusion_lower_bound": "el",
            "active_power_exclusion_upper_bound": "eu", "active_power_inclusion_upper_bound": "iu"}


def sum_gen(e: ast.AST) -> tuple[ast.AST, list[ast.comprehension]] | None:
    if isinstance(e, ast.Call) and u(e.func) == "sum" and len(e.args) == 1 and isinstance(
            e.args[0], (ast.GeneratorExp, ast.ListComp)):
        return e.args[0].elt, e.args[0].generators
    return None


def field_of(e: ast.AST) -> tuple[str, str] | None:
    """('bat'|'inv', canonical field) for a leaf bound expression."""
    if isinstance(e, ast.Attribute):
        if e.attr in FIELDS:
            base = u(e.value)
            kind = "bat" if ("bat" in base or "power_bounds" in base) else "inv"
            return kind, FIELDS[e.attr]
        if e.attr in INV_ATTR:
            return "inv", INV_ATTR[e.attr]
    return None


def advertised(prog: Program) -> dict[str, Any]:
    fn = prog.func(f"{MC}:PowerBoundsCalculator.calculate")
    loops = [s for s in fn.node.body if isinstance(s, ast.For)]
    if len(loops) != 1:
        raise AnalysisError(f"{fn.qual}: group loop not found")
    out = {}
    for s in loops[0].body:
        if isinstance(s, ast.AugAssign) and isinstance(s.op, ast.Add) and isinstance(s.value, ast.Call) \
                and u(s.value.func) in ("max", "min") and len(s.value.args) == 2:
            op = u(s.value.func)
            parts = []
            for a in s.value.args:
                sg = sum_gen(a)
                if sg:
                    f = field_of(sg[0])
                    if f is None or len(sg[1]) != 1 or sg[1][0].ifs:
                        parts.append(("other", ("?", u(a))))
                    else:
                        parts.append(("sum_i", f))
                else:
                    f = field_of(a)
                    parts.append(("leaf", f) if f is not None else ("other", ("?", u(a))))
            out[u(s.target)] = ("sum_g", op, tuple(sorted(parts)))
    return {"fn": fn, "loop": loops[0], "terms": out}


def enforced(prog: Program) -> dict[str, Any]:
    fn = prog.func(f"{BMM}:BatteryManager._get_bounds")
    calls = find_calls(fn.node, lambda c: u(c.func) == "PowerBounds")
    if len(calls) != 1:
        raise AnalysisError(f"{fn.qual}: PowerBounds(...) not found")
    out = {}
    for k in calls[0].keywords:
        v = k.value
        sg = sum_gen(v)
        if sg and isinstance(sg[0], ast.Call) and u(sg[0].func) in ("max", "min"):
            op = u(sg[0].func)
            parts = []
            for a in sg[0].args:
                inner = sum_gen(a)
                if inner:
                    f = field_of(inner[0])
                    parts.append(("sum_i", f))
                else:
                    parts.append(("leaf", field_of(a)))
            if any(p[1] is None for p in parts) or len(sg[1]) != 1 or sg[1][0].ifs:
                out[k.arg] = ("other", u(v))
            else:
                out[k.arg] = ("sum_g", op, tuple(sorted(parts)))
        elif isinstance(v, ast.Call) and u(v.func) in ("max", "min") and len(v.args) == 2:
            op = u(v.func)
            parts = []
            for a in v.args:
                inner = sum_gen(a)
                f = field_of(inner[0]) if inner and not any(g.ifs for g in inner[1]) else None
                if f is None:
                    parts.append(("other", ("?", u(a))))
                else:
                    parts.append(("sum_all", f) if len(inner[1]) == 2 or f[0] == "inv" else ("sum_gleaf", f))
            out[k.arg] = (op, tuple(sorted(parts)))
        else:
            out[k.arg] = ("other", u(v))
    return {"fn": fn, "terms": out}


def min_power_shape_ok(prog: Program) -> tuple[Any, bool]:
    """min_power_g == max(battery exclusion, min_i inverter exclusion) in the availability ratio."""
    ar = prog.func(f"{BDA_MOD}:BatteryDistributionAlgorithm._compute_battery_availability_ratio")
    ctor = find_calls(ar.node, lambda c: u(c.func) == "AvailabilityRatio")
    ok = False
    if len(ctor) == 1:
        params = ["battery_id", "inverter_ids", "ratio", "min_power"]
        args = dict(zip(params, ctor[0].args))
        args.update({k.arg: k.value for k in ctor[0].keywords if k.arg})
        mp = args.get("min_power")
        if isinstance(mp, ast.Call) and u(mp.func) == "max" and len(mp.args) == 2 and not mp.keywords:
            shapes = []
            for a in mp.args:
                if isinstance(a, ast.Subscript) and u(a.value) == "excl_bounds":
                    shapes.append(("bat", u(a.slice)))
                elif isinstance(a, ast.Call) and u(a.func) == "min" and len(a.args) == 1 and isinstance(
                        a.args[0], (ast.GeneratorExp, ast.ListComp)) and len(a.args[0].generators) == 1 \
                        and not a.args[0].generators[0].ifs and isinstance(a.args[0].elt, ast.Subscript) \
                        and u(a.args[0].elt.value) == "excl_bounds" \
                        and u(a.args[0].elt.slice) == u(a.args[0].generators[0].target):
                    shapes.append(("min_inv", u(a.args[0].generators[0].iter)))
            ok = sorted(k for k, _ in shapes) == ["bat", "min_inv"] and all(
                ".component_id" in v if k == "bat" else "inverter" in v for k, v in shapes)
    return ar, ok


def check_agg(run: Run, prog: Program) -> None:
    adv = advertised(prog)
    enf = enforced(prog)
    afn, efn = adv["fn"], enf["fn"]
    run.analysed(afn.qual)
    run.analysed(efn.qual)
    names = {"il": "inclusion_bounds_lower", "iu": "inclusion_bounds_upper",
             "el": "exclusion_bounds_lower", "eu": "exclusion_bounds_upper"}
    want_adv = {
        "il": ("sum_g", "max", (("leaf", ("bat", "il")), ("sum_i", ("inv", "il")))),
        "iu": ("sum_g", "min", (("leaf", ("bat", "iu")), ("sum_i", ("inv", "iu")))),
        "el": ("sum_g", "min", (("leaf", ("bat", "el")), ("sum_i", ("inv", "el")))),
        "eu": ("sum_g", "max", (("leaf", ("bat", "eu")), ("sum_i", ("inv", "eu")))),
    }
    efield = {"il": "inclusion_lower", "iu": "inclusion_upper", "el": "exclusion_lower", "eu": "exclusion_upper"}
    for f in ("il", "iu"):
        a, e = adv["terms"].get(names[f]), enf["terms"].get(efield[f])
        run.check(a is not None and a == e, "C17.AGG", afn.qual, f"{names[f]} term",
                  f"advertised and enforced inclusion {'lower' if f == 'il' else 'upper'} bounds are not the "
                  f"same aggregate: advertised {a}, enforced {e}", node=adv["loop"], file=afn.file,
                  instance=f"inclusion {f}: advertised == enforced == {e}")
        run.check(a == want_adv[f], "C17.AGG", afn.qual, f"{names[f]} = Σ_g {want_adv[f][1]}(battery aggregate, Σ inverters)",
                  f"the advertised inclusion bound is not Σ_g {want_adv[f][1]}(battery aggregate, Σ_i inverter): {a}",
                  node=adv["loop"], file=afn.file)
    for f, op, lemma in (("eu", "max", "Σ_g max(a_g, b_g) >= max(Σ a_g, Σ b_g)"),
                         ("el", "min", "Σ_g min(a_g, b_g) <= min(Σ a_g, Σ b_g)")):
        a, e = adv["terms"].get(names[f]), enf["terms"].get(efield[f])
        ok_a = a == want_adv[f]
        # enforced: either the same per-group aggregate (identical zones) or op(Σ_g battery, Σ_all inverter),
        # which the lemma puts inside the advertised one
        ok_e = e == a or e == (op, tuple(sorted((("sum_gleaf", ("bat", f)), ("sum_all", ("inv", f))))))
        run.check(ok_a and ok_e, "C17.AGG", afn.qual, f"{names[f]}: {lemma}",
                  f"the advertised exclusion bound is not provably at least as wide as the enforced one: "
                  f"advertised {a} (needs Σ_g {op}(battery, Σ_i inverter)), enforced {e} (needs "
                  f"the same aggregate or {op}(Σ_g battery, Σ_all inverter)); the lemma `{lemma}` no longer applies, so a power "
                  "outside the advertised exclusion zone can fall inside the enforced one",
                  node=adv["loop"], file=afn.file, instance=f"exclusion {f}: lemma {lemma} applies")
    # group minimum power <= advertised exclusion (x_i >= 0):  max(b, min_i x_i) <= max(b, Σ_i x_i)
    ar, ok = min_power_shape_ok(prog)
    run.check(ok, "C17.AGG", ar.qual, "min_power_g = max(b_g, min_i x_i) <= max(b_g, Σ_i x_i) = advertised share",
              "a group's minimum power is not max(battery exclusion, smallest inverter exclusion): it may "
              "exceed the group's share of the advertised exclusion bound", node=ar.node, file=ar.file)
    # same battery aggregation on both sides
    m = prog.module(MC)
    tgt = prog.resolve_name(m, "_aggregate_battery_power_bounds")
    agg_calls = find_calls(afn.node, lambda c: u(c.func) == "_aggregate_battery_power_bounds")
    abd = prog.func(f"{BDA_MOD}:AggregatedBatteryData.__init__")
    e_calls = find_calls(abd.node, lambda c: u(c.func) == "_aggregate_battery_power_bounds")
    ok = getattr(tgt, "qual", None) == f"{BDA_MOD}:_aggregate_battery_power_bounds" and len(agg_calls) == 1 \
        and len(e_calls) == 1
    run.check(ok, "C17.AGG", afn.qual, "both sides aggregate a group's batteries with _aggregate_battery_power_bounds",
              "advertised and enforced bounds aggregate the batteries of a group with different functions",
              node=afn.node, file=afn.file)
    gbi = prog.func(f"{BMM}:BatteryManager._get_battery_inverter_data")
    ok = any(u(r.value).replace(" ", "") == "InvBatPair(AggregatedBatteryData(battery_data),inverter_data)"
             for r in body_walk(gbi.node) if isinstance(r, ast.Return))
    run.check(ok, "C17.AGG", gbi.qual, "InvBatPair(AggregatedBatteryData(battery_data), inverter_data)",
              "the enforced side does not aggregate the group's batteries through AggregatedBatteryData",
              node=gbi.node, file=gbi.file)
    # every group counted once, with all its batteries and inverters, on both sides
    bs = [s for s in body_walk(afn.node) if isinstance(s, ast.Assign) and u(s.targets[0]) == "battery_sets"]
    ok = len(bs) == 1 and isinstance(bs[0].value, ast.SetComp) and u(bs[0].value.elt) == "self._bat_bats_map[battery_id]" \
        and u(bs[0].value.generators[0].iter) == afn.params[2] and not bs[0].value.generators[0].ifs
    run.check(ok, "C17.AGG", afn.qual, "battery_sets = {bat_bats_map[b] for b in working_batteries}",
              "the advertised side does not count every battery group exactly once (a set of groups): a "
              "group with several working batteries would be added once per battery", node=afn.node, file=afn.file)
    gcd = prog.func(f"{BMM}:BatteryManager._get_components_data")
    run.analysed(gcd.qual)
    bs2 = [s for s in body_walk(gcd.node) if isinstance(s, (ast.Assign, ast.AnnAssign))
           and u(s.targets[0] if isinstance(s, ast.Assign) else s.target) == "battery_sets"]
    ok = len(bs2) == 1 and isinstance(bs2[0].value, ast.Call) and u(bs2[0].value.func) in ("frozenset", "set") \
        and isinstance(bs2[0].value.args[0], ast.GeneratorExp) \
        and u(bs2[0].value.args[0].elt).startswith("self._bat_bats_map[") and not bs2[0].value.args[0].generators[0].ifs
    run.check(ok, "C17.AGG", gcd.qual, "battery_sets = frozenset(bat_bats_map[b] for b in working_batteries)",
              "the enforced side does not count every battery group exactly once", node=gcd.node, file=gcd.file)
    loop_a = adv["loop"]
    gv = u(loop_a.target)
    calls_a = [c for c in find_calls(loop_a, lambda c: u(c.func) == "get_bounds_list")]
    ok = sorted(u(c.args[0]) for c in calls_a) == sorted([gv, "inverter_ids"]) and any(
        isinstance(s, ast.Assign) and u(s.targets[0]) == "inverter_ids"
        and u(s.value).replace(" ", "") == f"self._bat_inv_map[next(iter({gv}))]" for s in loop_a.body)
    run.check(ok, "C17.AGG", afn.qual, "advertised side reads all batteries and inverters of the group",
              "the advertised side does not read the whole group's batteries and inverters", node=loop_a, file=afn.file)
    loops_e = [s for s in body_walk(gcd.node) if isinstance(s, ast.For) and u(s.iter) == "battery_sets"]
    ok = len(loops_e) == 1
    if ok:
        le = loops_e[0]
        ev = u(le.target)
        dcalls = find_calls(le, lambda c: method_call(c, "self", "_get_battery_inverter_data"))
        ok = len(dcalls) == 1 and [u(a) for a in dcalls[0].args] == [ev, "inverter_ids"] and any(
            isinstance(s, (ast.Assign, ast.AnnAssign)) and u(s.targets[0] if isinstance(s, ast.Assign) else s.target) == "inverter_ids"
            and u(s.value).replace(" ", "") == f"self._bat_invs_map[next(iter({ev}))]" for s in le.body)
    run.check(ok, "C17.AGG", gcd.qual, "enforced side reads all batteries and inverters of the group",
              "the enforced side reads a different battery/inverter set for a group than the advertised side "
              "(e.g. only the working batteries of the group): for the same component data the two "
              "inclusion bounds differ", node=gcd.node, file=gcd.file)
    # positional tables of the calculator
    init = prog.func(f"{MC}:PowerBoundsCalculator.__init__")
    gvb = None
    for n in ast.walk(afn.node):
        if isinstance(n, ast.FunctionDef) and n.name == "get_validated_bounds":
            gvb = n
    if gvb is None:
        raise AnalysisError(f"{afn.qual}: get_validated_bounds not found")
    pb = find_calls(gvb, lambda c: u(c.func) == "PowerBounds")
    pos = {}
    if len(pb) == 1:
        for k in pb[0].keywords:
            if isinstance(k.value, ast.Subscript) and u(k.value.value) == "results":
                pos[int(u(k.value.slice))] = k.arg
    for attr, prefix in (("_battery_metrics", "POWER_"), ("_inverter_metrics", "ACTIVE_POWER_")):
        lst = [s.value for s in body_walk(init.node) if isinstance(s, ast.Assign) and u(s.targets[0]) == f"self.{attr}"]
        ok = len(lst) == 1 and isinstance(lst[0], ast.List) and len(lst[0].elts) == 4
        if ok:
            for i, e in enumerate(lst[0].elts):
                name = u(e).split(".")[-1]
                want = (pos.get(i) or "").upper() + "_BOUND"
                ok = ok and name == prefix + want
        run.check(ok, "C17.AGG", init.qual, f"{attr} order matches PowerBounds(results[0..3])",
                  f"the metric list {attr} and the positional mapping results[i] -> PowerBounds field disagree: "
                  "a bound would be read from the wrong metric", node=init.node, file=init.file)
    # result wiring
    rets = [r for r in body_walk(afn.node) if isinstance(r, ast.Return) and "inclusion_bounds=timeseries.Bounds" in u(r.value).replace(" ", "")]
    ok = len(rets) == 1
    if ok:
        t = u(rets[0].value).replace(" ", "")
        ok = "Bounds(Power.from_watts(inclusion_bounds_lower),Power.from_watts(inclusion_bounds_upper))" in t and \
            "Bounds(Power.from_watts(exclusion_bounds_lower),Power.from_watts(exclusion_bounds_upper))" in t
    run.check(ok, "C17.AGG", afn.qual, "SystemBounds(inclusion=(il, iu), exclusion=(el, eu))",
              "the streamed SystemBounds does not carry the four aggregates in their places", node=afn.node, file=afn.file)


def check_acc(run: Run, prog: Program) -> None:
    from ._admission import explore_admission
    from .c03 import _report_orderings

    # SystemBounds.__contains__ / Bounds.__contains__ are interpreted too (order-only code)
    sbc = prog.func(f"{BT}:SystemBounds.__contains__")
    run.analysed(sbc.qual)
    run.analysed(f"{BT}:Bounds.__contains__")

    def extra(it, ctx):
        zero = ctx["zero"]
        a_el, a_eu = Atom("adv_excl_lower"), Atom("adv_excl_upper")
        it.assume("<=", a_el, ctx["el"])       # advertised exclusion zone contains the enforced one
        it.assume("<=", ctx["eu"], a_eu)
        it.assume("<=", ctx["il"], a_el)
        it.assume("<=", a_eu, ctx["iu"])
        adv = Obj("SystemBounds", timestamp=Obj("ts"),
                  inclusion_bounds=Obj("Bounds", lower=ctx["il"], upper=ctx["iu"]),
                  exclusion_bounds=Obj("Bounds", lower=a_el, upper=a_eu))
        it.module_stack.append(prog.module(BT))
        inside = it.call_func(sbc, [adv, ctx["P"]], {})
        it.module_stack.pop()
        ctx["advertised_contains"] = inside
        # P != 0
        if it.cmp3(ctx["P"], zero, "P ? 0") == "=":
            ctx["advertised_contains"] = False

    def post(it, res, ctx):
        if not ctx.get("advertised_contains"):
            return None
        if getattr(res, "cls", None) == "OutOfBounds":
            return ("bad", [f"P is inside the advertised bounds but the request is rejected as OutOfBounds "
                            f"(adjust_power={ctx['adjust']})"])
        return None

    fn, outs = explore_admission(prog, post, extra)
    _report_orderings(run, "C17.ACC", fn, outs, "advertised membership implies admission")
    n_in = sum(1 for o in outs if o.kind == "return")
    if len(outs) < 30:
        raise AnalysisError(f"C17.ACC: only {len(outs)} abstract paths")
    run.extra_cov.setdefault("abstract_paths", {})["admission"] = len(outs)


CONTROLS = [
    ("advertised exclusion is max of sums per field", MC,
     "            exclusion_bounds_upper += max(\n                aggregated_bat_bounds.exclusion_upper,\n                sum(bound.exclusion_upper for bound in inverter_bounds),\n            )",
     "            exclusion_bounds_upper += min(\n                aggregated_bat_bounds.exclusion_upper,\n                sum(bound.exclusion_upper for bound in inverter_bounds),\n            )",
     "C17.AGG"),
    ("adjustable requests rejected up to the inclusion bound", BMM,
     "            if bounds.exclusion_lower < power < bounds.exclusion_upper:",
     "            if bounds.exclusion_lower < power < bounds.inclusion_upper:", "C17.ACC"),
    ("two metric ids swapped", MC,
     "            ComponentMetricId.POWER_EXCLUSION_LOWER_BOUND,\n            ComponentMetricId.POWER_EXCLUSION_UPPER_BOUND,",
     "            ComponentMetricId.POWER_EXCLUSION_UPPER_BOUND,\n            ComponentMetricId.POWER_EXCLUSION_LOWER_BOUND,", "C17.AGG"),
    ("enforced inclusion uses the battery bound only", BMM,
     "            inclusion_upper=sum(\n                min(\n                    battery.power_bounds.inclusion_upper,\n                    sum(\n                        inverter.active_power_inclusion_upper_bound\n                        for inverter in inverters\n                    ),\n                )\n                for battery, inverters in pairs_data\n            ),",
     "            inclusion_upper=sum(\n                battery.power_bounds.inclusion_upper\n                for battery, inverters in pairs_data\n            ),", "C17.AGG"),
    ("groups counted per battery", MC,
     "        battery_sets = {\n            self._bat_bats_map[battery_id] for battery_id in working_batteries\n        }",
     "        battery_sets = [\n            self._bat_bats_map[battery_id] for battery_id in sorted(working_batteries)\n        ]", "C17.AGG"),
    ("non-adjustable range excludes the inclusion bound itself", BMM,
     "            in_upper_range = bounds.exclusion_upper <= power <= bounds.inclusion_upper",
     "            in_upper_range = bounds.exclusion_upper <= power < bounds.inclusion_upper", "C17.ACC"),
]


def run_rules(run: Run, prog: Program) -> None:
    check_agg(run, prog)
    check_acc(run, prog)


def check(run: Run, prog: Program, tier: str) -> str:
    run.rule("C17.AGG", "advertised vs enforced aggregation terms: inclusion identical; exclusion related by the "
             "Σmax>=maxΣ lemmas; same battery aggregation; every group once with all its members; "
             "positional metric tables agree")
    run.rule("C17.ACC", "for every ordering: P != 0 inside the advertised bounds => _check_request admits it")
    run_rules(run, prog)
    run.floor("C17.AGG", 14)
    run.floor("C17.ACC", 30)
    from ..engine.controls import run_controls

    run_controls(run, CONTROLS, run_rules, tier)
    run.assume("inverter exclusion bounds satisfy lower <= 0 <= upper; lattice lemmas Σ_g max(a,b) >= "
               "max(Σa, Σb), Σ_g min(a,b) <= min(Σa, Σb), min_i x_i <= Σ_i x_i for x >= 0")
    run.undecided("equality of the *data* the two sides see at run time (the property says 'for the same "
                  "complete component data'); distributability above Σ min power is C02's structure")
    run.extra_cov["exhaustive"] = True
    return ("Table/sibling extraction of the two bounds aggregations into normalised aggregation terms "
            "compared by identity or by a fixed table of lattice lemmas, plus order-domain abstract "
            "interpretation of SystemBounds.__contains__ followed by _check_request on the same symbolic "
            "power for every weak ordering.")
