"""C03  Power manager target stays inside usable system bounds, history-free.

  C03.ENV   order-domain abstract interpretation (exhaustive over weak orderings of the symbolic
            inputs): (a) clamp_to_bounds post-conditions, (b) adjust_exclusion_bounds /
            check_exclusion_bounds_overlap post-conditions, (c) the inductive step of the
            _calc_target_power sweep: from any state satisfying the invariant, one iteration with any
            proposal shape re-establishes it; the prologue establishes it.  The roles of the sweep's
            state variables (running lower / upper bound, zone, target) are bound by dataflow: what
            reaches clamp_to_bounds' parameters, what the epilogue returns, what the prologue stores.
            Private helpers of the class are interpreted.  `isclose` against zero is equality only with
            abs_tol = 0 and rel_tol < 1; with any other tolerance a non-zero value may count as zero
            (both outcomes explored), so a tolerant zero exemption that hands the value on is reported.
  C03.PURE  the target computation has no input besides (live proposals, system bounds): whatever a
            call site feeds to a further parameter must not read instance state that earlier calls
            left behind, nor the proposal that just arrived (seen through locals and methods);
            _calc_target_power and every helper it reaches use `self` only to call further methods;
            on every symbolic path of calculate_target_power the target is computed from (this
            group's bucket, the bounds argument), the only bucket test is `is None`, and only the
            fresh value is stored / returned.
  C03.ORD   both sweeps iterate sorted(bucket, reverse=True) without a key; Proposal ordering and
            equality are decided in the order domain to be the lexicographic order / equality on
            (priority, source_id); <, ==, hash read exactly these fields.
  C03.REPL  latest-per-actor: on every symbolic path the equal element is removed before add().
  C03.AGE   drop_old_proposals, executed on a small-scope model of the buckets (Python set
            semantics, ages in the order domain), removes exactly the proposals older than max_age
            from every bucket and touches nothing else; the actor calls it for both groups.
"""
from __future__ import annotations

import ast
import copy
from typing import Any

from ..engine.absint import Obj
from ..engine.normalize import inline_helpers, positional
from ..engine.order import Atom, OrderInterp
from ..engine.report import AnalysisError, Run
from ..engine.resolver import ClassInfo, FuncInfo, Program, body_walk, find_installed_source, parent_map
from ..engine.sympath import Path as SymPath, SymExec, SymUnsupported, sym_paths
from ..engine.util import u
from ._c03_util import AgeInterp, Lin, Poison, RoleInterp, SetV, StateRead, is_property, is_static, resolve_local, seg, self_obj, splice, unroll_literal_loops

BOUNDS = "microgrid._power_managing._bounds"
MAT = "microgrid._power_managing._matryoshka"
BASE = "microgrid._power_managing._base_classes"
ACTOR = "microgrid._power_managing._power_managing_actor:PowerManagingActor"


def check_quantity_truthiness(run: Run) -> None:
    """`if power:` is a None test only while Quantity defines neither __bool__ nor __len__."""
    path = find_installed_source("frequenz.quantities._quantity")
    if path is None:
        raise AnalysisError("installed source of frequenz.quantities._quantity not found")
    tree = ast.parse(path.read_text())
    found = False
    for n in ast.walk(tree):
        if isinstance(n, ast.ClassDef) and n.name == "Quantity":
            found = True
            names = {m.name for m in n.body if isinstance(m, (ast.FunctionDef, ast.AsyncFunctionDef))}
            if names & {"__bool__", "__len__"}:
                raise AnalysisError("Quantity now defines __bool__/__len__: `if power:` is no longer "
                                    "a None test; the order-domain model must be revised")
            isclose = [m for m in n.body if isinstance(m, ast.FunctionDef) and m.name == "isclose"]
            if not isclose:
                raise AnalysisError("Quantity.isclose not found")
            defaults = {a.arg: u(d) for a, d in zip(isclose[0].args.args[-len(isclose[0].args.defaults):],
                                                   isclose[0].args.defaults)}
            if defaults.get("abs_tol") != "0.0":
                raise AnalysisError(f"Quantity.isclose abs_tol default is {defaults.get('abs_tol')}, not 0.0")
            try:
                rel_ok = 0 <= float(defaults.get("rel_tol", "x")) < 1
            except ValueError:
                rel_ok = False
            if not rel_ok:
                raise AnalysisError(f"Quantity.isclose rel_tol default is {defaults.get('rel_tol')}, not in [0, 1)")
            if [a.arg for a in isclose[0].args.args[1:]] != ["other", "rel_tol", "abs_tol"]:
                raise AnalysisError("Quantity.isclose no longer has the parameters (other, rel_tol, abs_tol)")
    if not found:
        raise AnalysisError("class Quantity not found in the installed source")
    run.assume("frequenz.quantities.Quantity defines no __bool__/__len__ (truthiness == `is not "
               "None`) and isclose(abs_tol=0.0) against zero is equality — re-read from the installed "
               "source on every run")


# ---------------------------------------------------------------------------------------------
def mk_excl(it: OrderInterp, present: bool, names: tuple[str, str] = ("el", "eu")) -> Any:
    if not present:
        return None
    el, eu = Atom(names[0]), Atom(names[1])
    zero = it.globals.setdefault("__ZERO__", Atom("ZERO"))
    it.assume("<=", el, zero)
    it.assume("<=", zero, eu)
    return Obj("Bounds", lower=el, upper=eu)


def in_zone(it: OrderInterp, r: Atom, excl: Any) -> bool:
    """Can r lie strictly inside the zone and differ from zero under this run's facts?"""
    if excl is None:
        return False
    zero = it.globals["__ZERO__"]
    inside = [("<", excl.fields["lower"], r), ("<", r, excl.fields["upper"])]
    return it.possible(inside + [("<", r, zero)]) or it.possible(inside + [("<", zero, r)])


def may_fail(it: OrderInterp, rel: str, a: Any, b: Any) -> bool:
    """Can `a rel b` be false under this run's facts?"""
    neg = {"<=": (">", a, b), "<": (">=", a, b), ">=": ("<", a, b), ">": ("<=", a, b)}[rel]
    return it.possible([neg])


def check_clamp(run: Run, prog: Program) -> None:
    fn = prog.func(f"{BOUNDS}:clamp_to_bounds")
    run.analysed(fn.qual)
    mod = prog.module(BOUNDS)
    if len(fn.params) != 4:
        raise AnalysisError(f"{fn.qual}: expected (value, lower_bound, upper_bound, exclusion_bounds)")
    it = RoleInterp(prog, mod)
    ctx: dict[str, Any] = {}

    def make_args() -> dict[str, Any]:
        it.globals["__ZERO__"] = Atom("ZERO")
        v, L, U = Atom("v"), Atom("L"), Atom("U")
        it.assume("<=", L, U)
        excl = mk_excl(it, it.choose(2, "exclusion zone present") == 1)
        ctx.update(v=v, L=L, U=U, excl=excl)
        return dict(zip(fn.params, (v, L, U, excl)))

    def post(res: Any) -> Any:
        if not (isinstance(res, tuple) and len(res) == 2):
            return ("shape", f"result {res!r} is not a pair")
        bad = []
        for r in res:
            if r is None:
                continue
            if not isinstance(r, Atom):
                return ("shape", f"component {r!r} is not one of the inputs")
            if may_fail(it, "<=", ctx["L"], r):
                bad.append(f"{r} can be below the lower bound")
            if may_fail(it, "<=", r, ctx["U"]):
                bad.append(f"{r} can be above the upper bound")
            if in_zone(it, r, ctx["excl"]):
                bad.append(f"{r} can be strictly inside the exclusion zone")
        excl = ctx["excl"]
        if res == (None, None):
            # allowed only when both bounds are strictly inside the zone
            if excl is None:
                bad.append("(None, None) without an exclusion zone")
            else:
                el, eu = excl.fields["lower"], excl.fields["upper"]
                if not (it.entails("<", el, ctx["L"]) and it.entails("<", ctx["U"], eu)):
                    bad.append("(None, None) although the range is not strictly inside the zone")
            return ("bad", bad) if bad else None
        # an admissible value must be returned unchanged
        v = ctx["v"]
        unchanged = all(r is not None and it.entails("=", r, v) for r in res)
        if not unchanged:
            inside = [("<=", ctx["L"], v), ("<=", v, ctx["U"])]
            zero = it.globals["__ZERO__"]
            # admissible = inside the bounds *after* carving out the zone: outside the zone, or
            # zero when the zone lies completely inside the bounds
            alts = [inside] if excl is None else [
                inside + [("<=", v, excl.fields["lower"])],
                inside + [("<=", excl.fields["upper"], v)],
                inside + [("=", v, zero), ("<=", ctx["L"], excl.fields["lower"]),
                          ("<=", excl.fields["upper"], ctx["U"])]]
            if any(it.possible(a) for a in alts):
                bad.append(f"an admissible value {v} can be altered: result {res}")
        return ("bad", bad + _tolerance_hint(it)) if bad else None

    outs = it.explore(fn.node, make_args, post)
    _register(run, it)
    _report_orderings(run, "C03.ENV", fn, outs, "clamp_to_bounds post-condition "
                      "(L <= r <= U, r outside the exclusion zone or zero, admissible value unchanged)")
    run.extra_cov.setdefault("abstract_paths", {})["clamp_to_bounds"] = len(outs)
    if len(outs) < 40 and not _any_bad(outs):
        raise AnalysisError(f"clamp_to_bounds: only {len(outs)} abstract paths")


def _tolerance_hint(it: RoleInterp) -> list[str]:
    """On a failing abstract path that took a tolerant zero test: say so (the exemption of 0 W from the
    exclusion zone holds for exact zero only; a value that merely counts as zero is still handed on)."""
    if not it.tolerant:
        return []
    return [f"on this path `{it.tolerant[0]}` lets a NON-ZERO value pass as zero, and the value itself (not "
            "0 W) is handed on: the zero exemption of the exclusion zone must be an exact test (abs_tol = 0 "
            "and rel_tol < 1 — a positive abs_tol, rel_tol >= 1, a tolerance read from a variable, or the same "
            "call with receiver and argument swapped all admit values strictly inside the zone)"]


def _report_orderings(run: Run, rule: str, fn: FuncInfo, outs: list[Any], what: str) -> None:
    n_bad = 0
    for out in outs:
        if out.kind == "raise":
            run.violation(rule, fn.qual, f"raises {out.value}", f"{what}: an abstract path raises "
                          f"{out.value}", node=out.raise_node or fn.node, file=fn.file)
            n_bad += 1
            continue
        if out.post is None:
            run.ok(rule, f"{fn.qual}: path {out.decisions}")
            continue
        kind, detail = out.post
        n_bad += 1
        ordering = out.state.linear_extension() if out.state is not None else []
        ret = _return_of(fn, out)
        run.violation(rule, fn.qual, ret,
                      f"{what} fails: {detail}; returned {out.value!r} under the ordering "
                      f"{' < '.join('='.join(c) for c in ordering)} (decisions: "
                      f"{'; '.join(f'{l}={d}' for l, d in zip(out.labels, out.decisions))})",
                      node=fn.node, file=fn.file, ordering=ordering)
    run.sample({"function": fn.qual, "abstract_paths": len(outs), "violating": n_bad,
                "example_path": [f"{l}={d}" for l, d in zip(outs[0].labels, outs[0].decisions)] if outs else []})


def _register(run: Run, it: RoleInterp) -> None:
    """Every program function the abstract runs entered is one the verdict depends on."""
    for q in sorted(it.visited):
        run.analysed(q)


def _any_bad(outs: list[Any]) -> bool:
    """Some abstract path violates its post-condition (the path floors guard vacuous passes only)."""
    return any(o.kind == "raise" or o.post is not None for o in outs)


def _return_of(fn: FuncInfo, out: Any) -> str:
    return f"{fn.name} result {out.value!r}"[:300]


def check_adjust(run: Run, prog: Program) -> None:
    fn = prog.func(f"{BOUNDS}:adjust_exclusion_bounds")
    run.analysed(fn.qual)
    if len(fn.params) != 3:
        raise AnalysisError(f"{fn.qual}: expected (lower_bound, upper_bound, exclusion_bounds)")
    it = RoleInterp(prog, prog.module(BOUNDS))
    ctx: dict[str, Any] = {}

    def make_args() -> dict[str, Any]:
        it.globals["__ZERO__"] = Atom("ZERO")
        L, U = Atom("L"), Atom("U")
        it.assume("<=", L, U)
        excl = mk_excl(it, it.choose(2, "exclusion zone present") == 1)
        ctx.update(L=L, U=U, excl=excl)
        return dict(zip(fn.params, (L, U, excl)))

    def post(res: Any) -> Any:
        if not (isinstance(res, tuple) and len(res) == 2 and all(isinstance(r, Atom) for r in res)):
            return ("shape", f"result {res!r} is not a pair of input atoms")
        lo, hi = res
        zero = it.globals["__ZERO__"]
        bad = []
        excl = ctx["excl"]
        if lo is zero and hi is zero:
            # collapsed: only allowed when both bounds are strictly inside the zone
            if excl is None or not (it.entails("<", excl.fields["lower"], ctx["L"])
                                    and it.entails("<", ctx["U"], excl.fields["upper"])):
                bad.append("collapsed to (0, 0) although the range is not strictly inside the zone")
            return ("bad", bad) if bad else None
        if may_fail(it, "<=", ctx["L"], lo):
            bad.append("lower bound can be widened")
        if may_fail(it, "<=", hi, ctx["U"]):
            bad.append("upper bound can be widened")
        if may_fail(it, "<=", lo, hi):
            bad.append("adjusted range can be empty although the input was not")
        for r in (lo, hi):
            if in_zone(it, r, excl):
                bad.append(f"adjusted bound {r} can still be strictly inside the zone")
        return ("bad", bad) if bad else None

    outs = it.explore(fn.node, make_args, post)
    _register(run, it)
    _report_orderings(run, "C03.ENV", fn, outs, "adjust_exclusion_bounds post-condition (never "
                      "widens, ends outside the zone, collapses to zero only inside the zone)")
    run.extra_cov.setdefault("abstract_paths", {})["adjust_exclusion_bounds"] = len(outs)
    if len(outs) < 10 and not _any_bad(outs):
        raise AnalysisError(f"adjust_exclusion_bounds: only {len(outs)} abstract paths")


# ---------------------------------------------------------------------------------------------
def split_sweep(fn: FuncInfo) -> tuple[list[ast.stmt], ast.For, list[ast.stmt]]:
    """(prologue, the proposal loop, epilogue) of a sweep function."""
    body = [s for s in fn.node.body if not (isinstance(s, ast.Expr) and isinstance(s.value, ast.Constant))]
    loops = [s for s in body if isinstance(s, ast.For)]
    if len(loops) != 1:
        raise AnalysisError(f"{fn.qual}: expected exactly one top-level proposal loop")
    i = body.index(loops[0])
    return body[:i], loops[0], body[i + 1:]


def synth(name: str, params: list[str], body: list[ast.stmt], ret: list[str]) -> ast.FunctionDef:
    fn = ast.FunctionDef(
        name=name,
        args=ast.arguments(posonlyargs=[], args=[ast.arg(arg=p) for p in params], kwonlyargs=[],
                           kw_defaults=[], defaults=[]),
        body=copy.deepcopy(body) + [ast.Return(value=ast.Tuple(
            elts=[ast.Name(id=r, ctx=ast.Load()) for r in ret], ctx=ast.Load()))],
        decorator_list=[], type_params=[])
    ast.fix_missing_locations(fn)
    return fn


def loop_state_vars(pro: list[ast.stmt], loop: ast.For) -> list[str]:
    assigned_before = set()
    for s in pro:
        for n in ast.walk(s):
            if isinstance(n, ast.Name) and isinstance(n.ctx, ast.Store):
                assigned_before.add(n.id)
    used = {n.id for n in ast.walk(loop) if isinstance(n, ast.Name)}
    return sorted(assigned_before & used)


SHAPES_ALL = [(p, lo, hi) for p in (0, 1) for lo in (0, 1) for hi in (0, 1)]
# when the target part and the bounds part of an iteration are independent (checked structurally),
# the mixed shapes add nothing: every mixed path is a pair (target-part path, bounds-part path)
SHAPES_SPLIT = [(0, 0, 0), (1, 0, 0), (0, 1, 0), (0, 0, 1), (0, 1, 1)]


def mk_proposal(it: OrderInterp, tag: str = "p", shapes: list[tuple[int, int, int]] | None = None) -> Obj:
    shapes = shapes or SHAPES_ALL
    hp, hl, hh = shapes[it.choose(len(shapes), f"{tag} shape (pref, lower, upper)")]
    pref = Atom(f"{tag}_pref") if hp else None
    lo = Atom(f"{tag}_lo") if hl else None
    hi = Atom(f"{tag}_hi") if hh else None
    return Obj("Proposal", preferred_power=pref, bounds=Obj("Bounds", lower=lo, upper=hi),
               priority=1, source_id=tag)


STATE = "__state__"


def _state_fn(name: str, params: list[str], body: list[ast.stmt], ret: list[str]) -> ast.FunctionDef:
    """synth() whose final return is marked, so that an early `return` of the body is recognisable."""
    fn = synth(name, params, body, ret)
    fn.body[-1].value.elts.insert(0, ast.Constant(STATE))  # type: ignore[attr-defined]
    ast.fix_missing_locations(fn)
    return fn


def _is_state(res: Any, n: int) -> bool:
    return isinstance(res, tuple) and len(res) == n + 1 and res[0] == STATE


def _stored(node: ast.AST) -> set[str]:
    out = {n.id for n in ast.walk(node) if isinstance(n, ast.Name) and isinstance(n.ctx, (ast.Store, ast.Del))}
    out |= {n.name for n in ast.walk(node) if isinstance(n, (ast.MatchAs, ast.MatchStar)) and n.name}
    return out


def _loaded(node: ast.AST) -> set[str]:
    return {n.id for n in ast.walk(node) if isinstance(n, ast.Name) and isinstance(n.ctx, ast.Load)}


class Sweep:
    """Anatomy of `_calc_target_power`: prologue / proposal loop / epilogue and the roles of the
    loop-carried variables, bound by dataflow (never by their names)."""

    def __init__(self, prog: Program, fn: FuncInfo, inputs: dict[str, Any] | None = None) -> None:
        self.prog, self.fn = prog, fn
        self.mod = fn.module
        if fn.cls is None or len(fn.params) < 3 or is_static(fn) or fn.node.args.vararg or fn.node.args.kwarg:
            raise AnalysisError(f"{fn.qual}: expected a method (self, proposals, system_bounds, ...)")
        self.cls = fn.cls
        self.params = fn.params
        # values of the parameters beyond (self, proposals, system_bounds): a constant every call site
        # agrees on, else a value the abstract run must not depend on (C03.PURE decides what is passed)
        self.inputs: dict[str, Any] = {p: (inputs or {}).get(p, Poison(f"parameter {p} of the target computation"))
                                       for p in fn.params[3:]}
        self.pro, self.loop, self.epi = split_sweep(fn)
        if self.loop.orelse or not isinstance(self.loop.target, ast.Name):
            raise AnalysisError(f"{fn.qual}: proposal loop with an else clause / a non-name target")
        self.pvar = self.loop.target.id
        self.svars = loop_state_vars(self.pro, self.loop)
        self.extra = [p for p in self.params if p not in self.svars and p != self.pvar]
        self.prologue = _state_fn("prologue", self.params, self.pro, self.svars)
        once = ast.For(target=ast.Name(id="_once", ctx=ast.Store()),
                       iter=ast.List(elts=[ast.Constant(0)], ctx=ast.Load()), body=self.loop.body, orelse=[])
        self.step_params = self.svars + [self.pvar] + self.extra
        self.step_body = [once]
        self.roles: dict[str, str] = {}
        self.kinds: dict[str, str] = {}

    # -- inputs
    def receiver(self) -> Obj:
        return self_obj(self.cls)

    def mk_sys(self, it: OrderInterp, ctx: dict[str, Any], fork: bool = True, strict: bool = False) -> Obj:
        zero = it.globals["__ZERO__"] = Atom("ZERO")
        incl = None
        if not fork or it.choose(2, "system inclusion bounds present") == 1:
            sl, su = Atom("sysL"), Atom("sysU")
            it.assume("<=", sl, zero)
            it.assume("<=", zero, su)
            incl = Obj("Bounds", lower=sl, upper=su)
        excl = mk_excl(it, (not fork) or it.choose(2, "system exclusion bounds present") == 1, ("sel", "seu"))
        if strict and excl is not None:
            it.assume("<", excl.fields["lower"], zero)
            it.assume("<", zero, excl.fields["upper"])
        ctx.update(incl=incl, sexcl=excl)
        return Obj("SystemBounds", inclusion_bounds=incl, exclusion_bounds=excl)

    def prologue_args(self, it: OrderInterp, ctx: dict[str, Any], **kw: Any) -> dict[str, Any]:
        dummy = Obj("Proposal", preferred_power=None, bounds=Obj("Bounds", lower=None, upper=None),
                    priority=1, source_id="p")
        return {self.params[0]: self.receiver(), self.params[1]: [dummy],
                self.params[2]: self.mk_sys(it, ctx, **kw), **self.inputs}

    # -- roles
    def bind_roles(self) -> None:
        """L / U / X: the loop-carried variables whose loop-head values reach clamp_to_bounds as
        lower_bound / upper_bound / exclusion_bounds (fallback: the variables the prologue
        initialises from the system inclusion bounds / exclusion zone); T: the variable whose value
        the epilogue returns.  The binding only selects the inductive invariant that is then
        *verified*; a wrong binding cannot make an unsafe sweep pass."""
        prog, mod, n = self.prog, self.mod, len(self.svars)
        it = RoleInterp(prog, mod)
        ctx: dict[str, Any] = {}
        outs = it.explore(self.prologue, lambda: self.prologue_args(it, ctx, fork=False, strict=True),
                          lambda res: dict(ctx))
        outs = [o for o in outs if o.kind == "return" and _is_state(o.value, n)]
        if not outs:
            raise AnalysisError(f"{self.fn.qual}: the prologue never reaches the proposal loop")
        tmpl = dict(zip(self.svars, outs[0].value[1:]))
        c = outs[0].post
        for v, val in tmpl.items():
            self.kinds[v] = ("atom" if isinstance(val, Atom) else
                             "bounds" if val is None or (isinstance(val, Obj) and {"lower", "upper"} <= set(val.fields))
                             else "other")
        by_value = {
            "L": [v for v in self.svars if tmpl[v] is c["incl"].fields["lower"]],
            "U": [v for v in self.svars if tmpl[v] is c["incl"].fields["upper"]],
            "X": [v for v in self.svars if tmpl[v] is c["sexcl"]],
        }
        clamp = prog.func(f"{BOUNDS}:clamp_to_bounds")
        cur: dict[int, str] = {}
        found: dict[str, str | None] = {}

        class _Stop(Exception):
            pass

        def on_call(f: FuncInfo, a: dict[str, Any]) -> None:
            if f is clamp or f.qual == clamp.qual:
                for role, p in zip(("L", "U", "X"), clamp.params[1:4]):
                    found[role] = cur.get(id(a.get(p)))
                raise _Stop()

        it2 = RoleInterp(prog, mod, on_call)

        def standins() -> dict[str, Any]:
            it2.globals["__ZERO__"] = Atom("ZERO")
            cur.clear()
            out: dict[str, Any] = {}
            for v in self.svars:
                k = self.kinds[v]
                val: Any = (Atom(f"${v}") if k == "atom" else
                            mk_excl(it2, True, (f"${v}.lower", f"${v}.upper")) if k == "bounds"
                            else Poison(f"loop-carried variable {v}"))
                out[v] = val
                cur[id(val)] = v
            self._keep = out  # keep the stand-ins alive while their ids are in use
            return out

        def step_args() -> dict[str, Any]:
            a = standins()
            a[self.pvar] = mk_proposal(it2, shapes=[(1, 1, 1)])
            a.update(self.extra_args())
            return a

        try:
            it2.explore(synth("step", self.step_params, self.step_body, []), step_args)
        except _Stop:
            pass
        # the variable the epilogue returns
        names: set[str | None] = set()
        it3 = RoleInterp(prog, mod)
        it2 = it3  # stand-ins are created in the interpreter that runs the epilogue

        def epi_args() -> dict[str, Any]:
            a = standins()
            a.update(self.extra_args())
            a[self.pvar] = Poison("the loop variable after the loop")
            return a

        for o in it3.explore(synth("epilogue", self.step_params, self.epi, []), epi_args,
                             lambda res: ("name", cur.get(id(res)))):
            names.add(o.post[1] if o.kind == "return" else None)
        roles: dict[str, str | None] = {"T": next(iter(names)) if len(names) == 1 else None}
        for r in ("L", "U", "X"):
            roles[r] = found.get(r) or (by_value[r][0] if len(by_value[r]) == 1 else None)
        self.roles = {k: v for k, v in roles.items() if v is not None}

    def extra_args(self) -> dict[str, Any]:
        out: dict[str, Any] = {}
        for p in self.extra:
            out[p] = (self.receiver() if p == self.params[0] else self.inputs[p] if p in self.inputs
                      else Poison(f"parameter {p} inside the proposal loop"))
        return out

    def roles_ok(self) -> bool:
        r = self.roles
        return (set(r) == {"L", "U", "T", "X"} and len(set(r.values())) == 4
                and all(self.kinds[r[k]] == "atom" for k in ("L", "U", "T")) and self.kinds[r["X"]] == "bounds")

    # -- the optimisation of the quick tier
    def parts_independent(self) -> bool:
        """One iteration = a target part (reads the preferred power, may assign the target) and a
        bounds part (reads the proposal's bounds, narrows the running bounds) that do not influence
        each other: the target part reads the running bounds before the bounds part changes them,
        writes nothing the bounds part uses and never leaves the iteration; the bounds part neither
        uses the target nor anything derived from the preferred power."""
        r, pvar = self.roles, self.pvar
        guard = {r["L"], r["U"], r["X"]}
        attr_bases = {id(n.value) for s in self.loop.body for n in ast.walk(s) if isinstance(n, ast.Attribute)}
        t_part: list[tuple[int, ast.stmt]] = []
        b_part: list[tuple[int, ast.stmt]] = []
        from_pref: set[str] = set()
        from_bnd: set[str] = set()
        for i, s in enumerate(self.loop.body):
            uses = [n for n in ast.walk(s) if isinstance(n, ast.Name) and n.id == pvar]
            attrs = {n.attr for n in ast.walk(s) if isinstance(n, ast.Attribute)
                     and isinstance(n.value, ast.Name) and n.value.id == pvar}
            parents = parent_map(s)
            for n in uses:
                if not isinstance(n.ctx, ast.Load):
                    return False  # rebound
                if id(n) in attr_bases:
                    continue
                # the proposal is passed on as a whole: which of its fields does the callee read?
                par = parents.get(n)
                got = _callee_attrs(self.prog, self.fn, par, n) if isinstance(par, (ast.Call, ast.keyword)) else None
                if isinstance(par, ast.keyword):
                    got = _callee_attrs(self.prog, self.fn, parents.get(par), n, par.arg)
                if got is None:
                    return False
                attrs |= got
            if attrs - {"preferred_power", "bounds"}:
                return False
            R, W = _loaded(s), _stored(s)
            is_t = "preferred_power" in attrs or bool(R & from_pref) or r["T"] in (R | W)
            is_b = "bounds" in attrs or bool(R & from_bnd)
            if is_t and is_b:
                return False
            if is_t:
                t_part.append((i, s))
                from_pref |= W - {r["T"]}
            else:
                b_part.append((i, s))
                if is_b:
                    from_bnd |= W
        if not t_part:
            return False
        t_w = set().union(*(_stored(s) for _i, s in t_part))
        b_names = set().union(*((_loaded(s) | _stored(s)) for _i, s in b_part)) if b_part else set()
        if t_w & (guard | b_names) or (from_pref | {r["T"]}) & b_names:
            return False
        if any(isinstance(n, (ast.Break, ast.Continue, ast.Return)) for _i, s in t_part for n in ast.walk(s)):
            return False
        first_write = min([i for i, s in b_part if _stored(s) & guard], default=len(self.loop.body))
        if any(i > first_write and _loaded(s) & guard for i, s in t_part):
            return False
        return True


def _resolve_helper(prog: Program, f: FuncInfo, call: ast.Call) -> FuncInfo | None:
    recv = {f.params[0]} if f.cls is not None and f.params and not is_static(f) else set()
    if isinstance(call.func, ast.Attribute) and isinstance(call.func.value, ast.Name) and f.cls is not None \
            and (call.func.value.id in recv or call.func.value.id == f.cls.name):
        return prog.resolve_method(f.cls, call.func.attr)
    if isinstance(call.func, ast.Name) and call.func.id.startswith("_"):
        t = prog.resolve_name(f.module, call.func.id)
        return t if isinstance(t, FuncInfo) and t.module is f.module else None
    return None


def _callee_attrs(prog: Program, f: FuncInfo, call: Any, arg: ast.AST, kw: str | None = None,
                  depth: int = 3) -> set[str] | None:
    """Fields that a private helper reads from the object passed as `arg` (None: not decidable)."""
    if not isinstance(call, ast.Call) or depth <= 0:
        return None
    h = _resolve_helper(prog, f, call)
    if h is None:
        return None
    params = h.params[1:] if h.cls is not None and not is_static(h) else h.params
    if kw is not None:
        name = kw if kw in params else None
    else:
        idx = next((i for i, a in enumerate(call.args) if a is arg), None)
        name = params[idx] if idx is not None and idx < len(params) \
            and not any(isinstance(a, ast.Starred) for a in call.args) else None
    if name is None:
        return None
    out: set[str] = set()
    parents = parent_map(h.node)
    for n in body_walk(h.node):
        if isinstance(n, ast.Name) and n.id == name:
            par = parents.get(n)
            if not isinstance(n.ctx, ast.Load):
                return None
            if isinstance(par, ast.Attribute) and par.value is n:
                out.add(par.attr)
            elif isinstance(par, ast.Call) and any(a is n for a in par.args):
                sub = _callee_attrs(prog, h, par, n, None, depth - 1)
                if sub is None:
                    return None
                out |= sub
            else:
                return None
    # a local alias of a field (`b = p.bounds`) keeps the field's classification: fields only
    return out


def check_sweep(run: Run, prog: Program, tier: str = "quick") -> None:
    fn = find_calc(prog)
    run.analysed(fn.qual)
    feeds = calc_inputs(prog, fn)
    if report_calc_inputs(run, fn, feeds):
        run.note("the sweep is not explored: the target computation is fed with something besides the live "
                 "proposals and the system bounds")
        return
    sw = Sweep(prog, fn, const_inputs(feeds))
    svars, n = sw.svars, len(sw.svars)
    sw.bind_roles()
    # ---- the sweep returns the running target
    if not run.check("T" in sw.roles, "C03.ENV", fn.qual, "return <running target>",
                     "the sweep does not return the running target (the value returned after the loop "
                     "is not one loop-carried variable)", node=fn.node, file=fn.file):
        return
    clash = [k for k in ("L", "U", "X") if sw.roles.get(k) == sw.roles["T"]]
    if not run.check(not clash, "C03.ENV", fn.qual, f"return {sw.roles['T']}",
                     "the sweep does not return the running target: the value returned after the loop is "
                     f"the variable that reaches clamp_to_bounds as {'/'.join(clash)} bound", node=fn.node, file=fn.file,
                     instance=f"{fn.qual} :: returned variable is not a running bound"):
        return
    if not sw.roles_ok():
        raise AnalysisError(f"{fn.qual}: cannot bind the running bounds / zone / target among the "
                            f"loop-carried variables {svars}: {sw.roles}")
    rl, ru, rt, rx = (sw.roles[k] for k in ("L", "U", "T", "X"))
    run.note(f"sweep state bound by dataflow: lower={rl}, upper={ru}, zone={rx}, target={rt}")
    mod = sw.mod
    # ---- prologue establishes the invariant
    it = RoleInterp(prog, mod)
    ctx: dict[str, Any] = {}
    pro_vals: dict[str, list[Any]] = {v: [] for v in svars}

    def pre_post(res: Any) -> Any:
        if not _is_state(res, n):
            raise AnalysisError(f"{fn.qual}: the prologue returns before the proposal loop (not modelled)")
        vals = dict(zip(svars, res[1:]))
        for v in svars:
            pro_vals[v].append(vals[v])
        L, U, T, ex = vals[rl], vals[ru], vals[rt], vals[rx]
        zero = it.globals["__ZERO__"]
        bad = []
        if not (isinstance(L, Atom) and isinstance(U, Atom) and isinstance(T, Atom)):
            return ("shape", f"initial state {vals!r} is not made of atoms")
        if T is not zero:
            bad.append("initial target is not zero")
        incl = ctx["incl"]
        if incl is None:
            if not (it.entails("=", L, zero) and it.entails("=", U, zero)):
                bad.append("without inclusion bounds the running bounds are not forced to zero")
        else:
            if not (L is incl.fields["lower"] and U is incl.fields["upper"]):
                bad.append("running bounds do not start at the system inclusion bounds")
        sx = ctx["sexcl"]
        if ex is not None and ex is not sx:
            bad.append("exclusion zone is not the system exclusion zone")
        if ex is None and sx is not None:
            # allowed only when the zone is degenerate (both edges zero)
            if not (it.entails("=", sx.fields["lower"], zero) and it.entails("=", sx.fields["upper"], zero)):
                bad.append("a non-degenerate system exclusion zone is ignored")
        return ("bad", bad) if bad else None

    outs = it.explore(sw.prologue, lambda: sw.prologue_args(it, ctx), pre_post)
    _report_orderings(run, "C03.ENV", fn, outs, "sweep prologue (target starts at zero, bounds at the "
                      "system inclusion bounds or zero, exclusion zone = system exclusion zone)")
    # ---- loop-carried variables without a role must be constants of the sweep
    assigned_in_loop = set().union(*(_stored(s) for s in sw.loop.body))
    consts: dict[str, Any] = {}
    for v in svars:
        if v in (rl, ru, rt, rx):
            continue
        if v in assigned_in_loop:
            raise AnalysisError(f"{fn.qual}: loop-carried variable {v} has no role in the invariant")
        vals = pro_vals[v]
        if vals and all(isinstance(x, Atom) and x.name == "ZERO" for x in vals):
            consts[v] = "ZERO"
        elif vals and all(isinstance(x, (bool, int, float, str, type(None))) and x == vals[0]
                          and type(x) is type(vals[0]) for x in vals):
            consts[v] = ("const", vals[0])
        else:
            consts[v] = None
    # ---- inductive step
    split = tier == "quick" and sw.parts_independent()
    shapes = SHAPES_SPLIT if split else SHAPES_ALL
    run.note("inductive step explores " + ("the 5 separated proposal shapes (target part and bounds "
             "part of an iteration are structurally independent)" if split else "all 8 proposal shapes"))
    it2 = RoleInterp(prog, mod)
    sfn = synth("step", sw.step_params, sw.step_body, [rl, ru, rt, rx])
    ctx2: dict[str, Any] = {}

    def step_args() -> dict[str, Any]:
        it2.globals["__ZERO__"] = Atom("ZERO")
        zero = it2.globals["__ZERO__"]
        sl, su = Atom("sysL"), Atom("sysU")
        it2.assume("<=", sl, zero)
        it2.assume("<=", zero, su)
        L, U, T = Atom("L"), Atom("U"), Atom("T")
        excl = mk_excl(it2, it2.choose(2, "exclusion zone present") == 1)
        # invariant at loop head
        it2.assume("<=", sl, L)
        it2.assume("<=", U, su)
        it2.assume("<=", sl, T)
        it2.assume("<=", T, su)
        t_zero = it2.choose(2, "target is zero") == 1
        if t_zero:
            it2.assume("=", T, zero)
        elif excl is not None:
            # T outside the zone: T <= el or T >= eu
            if it2.choose(2, "target below / above the zone") == 0:
                it2.assume("<=", T, excl.fields["lower"])
            else:
                it2.assume("<=", excl.fields["upper"], T)
        p = mk_proposal(it2, shapes=shapes)
        ctx2.update(sl=sl, su=su, excl=excl, T=T)
        args: dict[str, Any] = {}
        for v, cst in consts.items():
            args[v] = (zero if cst == "ZERO" else cst[1] if isinstance(cst, tuple)
                       else Poison(f"loop-carried variable {v}"))
        args.update({rl: L, ru: U, rt: T, rx: excl})
        args[sw.pvar] = p
        args.update(sw.extra_args())
        return args

    def step_post(res: Any) -> Any:
        L2, U2, T2, X2 = res
        if not all(isinstance(x, Atom) for x in (L2, U2, T2)):
            return ("shape", f"state after one iteration {res!r} is not made of input atoms")
        bad = []
        if X2 is not ctx2["excl"]:
            bad.append("the exclusion zone changes during the sweep")
        if may_fail(it2, "<=", ctx2["sl"], L2):
            bad.append("running lower bound can fall below the system lower bound")
        if may_fail(it2, "<=", U2, ctx2["su"]):
            bad.append("running upper bound can rise above the system upper bound")
        if may_fail(it2, "<=", ctx2["sl"], T2):
            bad.append("target can be below the system lower bound")
        if may_fail(it2, "<=", T2, ctx2["su"]):
            bad.append("target can be above the system upper bound")
        if in_zone(it2, T2, ctx2["excl"]):
            bad.append("target can be strictly inside the exclusion zone (and not zero)")
        return ("bad", bad) if bad else None

    outs = it2.explore(sfn, step_args, step_post)
    _register(run, it)
    _register(run, it2)
    _report_orderings(run, "C03.ENV", fn, outs, "inductive step of the sweep (system bounds contain "
                      "running bounds and target; target zero or outside the zone)")
    run.extra_cov.setdefault("abstract_paths", {})["sweep_step"] = len(outs)
    if len(outs) < 200 and not _any_bad(outs):
        raise AnalysisError(f"{fn.qual}: only {len(outs)} abstract paths in the inductive step")
    run.extra_cov["proposal_shapes"] = len(shapes)
    # ---- the loop iterates the proposals argument in the proposals' own total order
    ok, shown = _sorted_sweep(prog, fn, want_arg=fn.params[1])
    run.check(ok, "C03.ORD", fn.qual, f"for ... in {shown}",
              "the sweep does not iterate sorted(<bucket>, reverse=True) with the proposals' own "
              "total order: equal-priority proposals would be swept in set-iteration (arrival) order",
              node=sw.loop, file=fn.file)


def _sorted_sweep(prog: Program, fn: FuncInfo, want_arg: str | None) -> tuple[bool, str]:
    """The (single) proposal loop of `fn` iterates `sorted(X, reverse=True)` without a key; locals and
    simple helpers between the loop header and the call are seen through."""
    node = inline_helpers(prog, fn)
    loops = [s for s in body_walk(node) if isinstance(s, (ast.For, ast.AsyncFor))]
    if len(loops) != 1:
        return False, f"{len(loops)} loops"
    it = resolve_local(node, loops[0].iter, fn.params)
    shown = u(it)
    if not (isinstance(it, ast.Call) and isinstance(it.func, ast.Name) and it.func.id == "sorted"):
        return False, shown
    args = positional(it, ["iterable"])
    kws = {k: v for k, v in args.items() if k != "iterable"}
    if set(kws) != {"reverse"} or not (isinstance(kws["reverse"], ast.Constant) and kws["reverse"].value is True):
        return False, shown
    if len(it.args) > 1 or "iterable" not in args:
        return False, shown
    if want_arg is not None:
        src = resolve_local(node, args["iterable"], fn.params)
        if not (isinstance(src, ast.Name) and src.id == want_arg):
            return False, shown
    return True, shown


def check_end_to_end(run: Run, prog: Program, n: int, shapes: list[tuple[int, int, int]]) -> None:
    """Thorough cross-check of the induction: the whole target computation with n symbolic proposals."""
    fn = find_calc(prog)
    it = RoleInterp(prog, prog.module(MAT))
    ctx: dict[str, Any] = {}
    if fn.cls is None:
        raise AnalysisError(f"{fn.qual} is not a method")
    more = Sweep(prog, fn, const_inputs(calc_inputs(prog, fn))).inputs

    def make_args() -> dict[str, Any]:
        it.globals["__ZERO__"] = Atom("ZERO")
        zero = it.globals["__ZERO__"]
        incl = None
        if it.choose(2, "system inclusion bounds present") == 1:
            sl, su = Atom("sysL"), Atom("sysU")
            it.assume("<=", sl, zero)
            it.assume("<=", zero, su)
            incl = Obj("Bounds", lower=sl, upper=su)
        excl = mk_excl(it, it.choose(2, "system exclusion bounds present") == 1, ("sel", "seu"))
        props = []
        for i in range(n):
            p = mk_proposal(it, tag=f"p{i}", shapes=shapes)
            p.fields["priority"] = n - i
            props.append(p)
        ctx.update(incl=incl, excl=excl)
        return {fn.params[0]: self_obj(fn.cls), fn.params[1]: props,  # type: ignore[arg-type]
                fn.params[2]: Obj("SystemBounds", inclusion_bounds=incl, exclusion_bounds=excl), **more}

    def post(T: Any) -> Any:
        if not isinstance(T, Atom):
            return ("shape", f"target {T!r} is not an input value")
        zero = it.globals["__ZERO__"]
        bad = []
        incl, excl = ctx["incl"], ctx["excl"]
        if incl is None:
            if not it.entails("=", T, zero):
                bad.append("without inclusion bounds the target is not zero")
        else:
            if may_fail(it, "<=", incl.fields["lower"], T) or may_fail(it, "<=", T, incl.fields["upper"]):
                bad.append("target can leave the system inclusion bounds")
        if in_zone(it, T, excl):
            bad.append("target can be strictly inside the system exclusion zone")
        return ("bad", bad) if bad else None

    outs = it.explore(fn.node, make_args, post)
    _report_orderings(run, "C03.ENV", fn, outs, f"end-to-end sweep with {n} symbolic proposal(s) stays in the "
                      "usable system bounds")
    run.extra_cov.setdefault("abstract_paths", {})[f"end_to_end_{n}"] = len(outs)


# ---------------------------------------------------------------------------------------------
def reachable_code(prog: Program, fn: FuncInfo) -> list[FuncInfo]:
    """`fn` and every method / same-module private function it can reach through calls on `self`,
    `cls`, the class name or a bare private name."""
    seen: dict[str, FuncInfo] = {fn.qual: fn}
    work = [fn]
    while work:
        f = work.pop()
        recv = {f.params[0]} if f.cls is not None and f.params and not is_static(f) else set()
        for c in (n for n in body_walk(f.node) if isinstance(n, ast.Call)):
            tgt: FuncInfo | None = None
            if isinstance(c.func, ast.Attribute) and isinstance(c.func.value, ast.Name) and f.cls is not None \
                    and (c.func.value.id in recv or c.func.value.id == f.cls.name):
                tgt = prog.resolve_method(f.cls, c.func.attr)
            elif isinstance(c.func, ast.Name) and c.func.id.startswith("_"):
                t = prog.resolve_name(f.module, c.func.id)
                tgt = t if isinstance(t, FuncInfo) and t.module is f.module else None
            if tgt is not None and tgt.qual not in seen:
                seen[tgt.qual] = tgt
                work.append(tgt)
    return list(seen.values())


# ---- inputs of the target computation --------------------------------------------------------
_CONTAINERS = {"dict", "list", "set", "defaultdict", "OrderedDict", "deque", "Counter", "WeakValueDictionary"}
_MUTATORS = {"add", "remove", "discard", "pop", "popitem", "clear", "update", "setdefault", "append", "extend",
             "insert", "appendleft", "popleft", "__setitem__", "__delitem__", "difference_update",
             "intersection_update", "symmetric_difference_update", "sort", "reverse"}


def _self_attr(n: ast.AST, recv: str) -> str | None:
    """X of an attribute chain / subscript chain rooted at `<recv>.X`."""
    while isinstance(n, (ast.Subscript, ast.Attribute)) and not (
            isinstance(n, ast.Attribute) and isinstance(n.value, ast.Name) and n.value.id == recv):
        n = n.value
    return n.attr if isinstance(n, ast.Attribute) else None


def instance_state(prog: Program, cls: ClassInfo) -> dict[str, str]:
    """Data attributes of the algorithm that carry state from one call to the next -> how we know: bound
    or mutated outside `__init__`, or created in `__init__` as a container (it can only be filled later).
    An attribute that `__init__` computes once from its own arguments is configuration, not state."""
    cached = getattr(prog, "_c03_state", None)
    if cached is not None and cached[0] is cls:
        return cached[1]
    ranked: dict[str, tuple[int, str]] = {}

    def note(x: str, rank: int, why: str) -> None:
        if x not in ranked or rank < ranked[x][0]:
            ranked[x] = (rank, why)

    for c in prog.mro(cls):
        for m in c.methods.values():
            if not m.params or is_static(m):
                continue
            recv, init = m.params[0], m.name == "__init__"
            for n in body_walk(m.node):
                tgts: list[ast.AST] = []
                val: ast.AST | None = None
                if isinstance(n, (ast.Assign, ast.Delete)):
                    tgts = list(n.targets)
                    val = n.value if isinstance(n, ast.Assign) else None
                elif isinstance(n, (ast.AugAssign, ast.AnnAssign)):
                    tgts, val = [n.target], n.value
                elif isinstance(n, ast.Call) and isinstance(n.func, ast.Attribute) and n.func.attr in _MUTATORS:
                    x = _self_attr(n.func.value, recv)
                    if x is not None and not init:
                        note(x, 1, f"{m.name} calls .{n.func.attr}() on it")
                for t in tgts:
                    for e in (t.elts if isinstance(t, (ast.Tuple, ast.List)) else [t]):
                        x = _self_attr(e, recv)
                        if x is None:
                            continue
                        plain = isinstance(e, ast.Attribute) and isinstance(e.value, ast.Name)
                        if not init or not plain or isinstance(n, (ast.AugAssign, ast.Delete)):
                            note(x, 0, f"{m.name} writes it")
                        elif val is not None and (
                                isinstance(val, (ast.Dict, ast.List, ast.Set, ast.DictComp, ast.ListComp, ast.SetComp))
                                or (isinstance(val, ast.Call) and u(val.func).split("[")[0].split(".")[-1] in _CONTAINERS)):
                            note(x, 2, "a container created in __init__ that only later calls can fill")
    out = {x: why for x, (_r, why) in ranked.items()}
    prog._c03_state = (cls, out)  # type: ignore[attr-defined]
    return out


def _closure(f: FuncInfo, expr: ast.AST) -> tuple[list[ast.AST], bool]:
    """`expr` and, transitively, every value `f` assigns to a local that it mentions.  The flag says
    whether every such local is bound by plain assignments only (then the list is everything the value
    of `expr` can be computed from)."""
    params = set(f.params)
    binds: dict[str, list[ast.AST | None]] = {}
    for n in body_walk(f.node):
        if isinstance(n, ast.Assign):
            for t in n.targets:
                if isinstance(t, ast.Name):
                    binds.setdefault(t.id, []).append(n.value)
                else:
                    for x in ast.walk(t):
                        if isinstance(x, ast.Name) and isinstance(x.ctx, ast.Store):
                            binds.setdefault(x.id, []).append(None)
        elif isinstance(n, (ast.AnnAssign, ast.AugAssign)) and isinstance(n.target, ast.Name):
            if n.value is not None:
                binds.setdefault(n.target.id, []).append(n.value)
        elif isinstance(n, ast.NamedExpr) and isinstance(n.target, ast.Name):
            binds.setdefault(n.target.id, []).append(n.value)
        elif isinstance(n, (ast.For, ast.AsyncFor, ast.comprehension)):
            for x in ast.walk(n.target):
                if isinstance(x, ast.Name):
                    binds.setdefault(x.id, []).append(None)
        elif isinstance(n, (ast.With, ast.AsyncWith)):
            for i in n.items:
                for x in ast.walk(i.optional_vars) if i.optional_vars is not None else []:
                    if isinstance(x, ast.Name):
                        binds.setdefault(x.id, []).append(None)
        elif isinstance(n, (ast.MatchAs, ast.MatchStar)) and n.name:
            binds.setdefault(n.name, []).append(None)
        elif isinstance(n, ast.ExceptHandler) and n.name:
            binds.setdefault(n.name, []).append(None)
    out, complete, seen, work = [expr], True, set(), [expr]
    while work:
        e = work.pop()
        for x in ast.walk(e):
            if isinstance(x, ast.Name) and isinstance(x.ctx, ast.Load) and x.id not in params and x.id not in seen \
                    and x.id in binds:
                seen.add(x.id)
                for v in binds[x.id]:
                    if v is None:
                        complete = False
                    else:
                        out.append(v)
                        work.append(v)
    return out, complete


def _state_reads(prog: Program, f: FuncInfo, exprs: list[ast.AST], depth: int = 4) -> list[tuple[str, str]]:
    """(attribute, why it is state) for every piece of instance state the expressions read, also
    through the methods / properties of the instance that they call."""
    if f.cls is None or not f.params or is_static(f):
        return []
    recv, state = f.params[0], instance_state(prog, f.cls)
    out: list[tuple[str, str]] = []
    for e in exprs:
        for n in ast.walk(e):
            if isinstance(n, ast.Attribute) and isinstance(n.value, ast.Name) and n.value.id == recv:
                m = prog.resolve_method(f.cls, n.attr)
                if m is not None:
                    if depth > 0:
                        for g in reachable_code(prog, m):
                            out += [(x, f"{why}; read by {g.name}()") for x, why in
                                    _state_reads(prog, g, list(g.node.body), 0)]
                elif n.attr in state:
                    out.append((n.attr, state[n.attr]))
    return out


def calc_inputs(prog: Program, calc: FuncInfo) -> list[dict[str, Any]]:
    """What every call of the target computation (anywhere in its class) feeds to each parameter beyond
    (self, proposals, system_bounds), seen through the caller's locals.  verdict:
      history  reads instance state that earlier calls left behind (other than the proposal buckets)
      arrival  is computed from the proposal that just arrived (not from the live set as a whole)
      const    a literal
      other    anything else (the abstract run of the sweep must then not depend on it)"""
    cls = calc.cls
    if cls is None or len(calc.params) < 3:
        raise AnalysisError(f"{calc.qual}: expected a method (self, proposals, system_bounds, ...)")
    a = calc.node.args
    pos_params = [x.arg for x in a.posonlyargs + a.args][1:]
    defaults: dict[str, ast.AST] = dict(zip([x.arg for x in a.posonlyargs + a.args][-len(a.defaults):], a.defaults)) \
        if a.defaults else {}
    defaults.update({k.arg: d for k, d in zip(a.kwonlyargs, a.kw_defaults) if d is not None})
    extras = calc.params[3:]
    used = {n.id for n in body_walk(calc.node) if isinstance(n, ast.Name) and isinstance(n.ctx, ast.Load)}
    ct = prog.resolve_method(cls, "calculate_target_power")
    out: list[dict[str, Any]] = []
    for f in cls.methods.values():
        recv = {f.params[0], "cls"} if f.params and not is_static(f) else set()
        for c in (n for n in body_walk(f.node) if isinstance(n, ast.Call)):
            if not (isinstance(c.func, ast.Attribute) and c.func.attr == calc.name and isinstance(c.func.value, ast.Name)
                    and (c.func.value.id in recv or c.func.value.id == cls.name)):
                continue
            if any(isinstance(x, ast.Starred) for x in c.args) or any(k.arg is None for k in c.keywords):
                raise AnalysisError(f"{f.qual}: {u(c)[:80]} unpacks its arguments: not modelled")
            given: dict[str, ast.AST] = dict(zip(pos_params, c.args))
            given.update({k.arg: k.value for k in c.keywords if k.arg is not None})
            feeds: list[tuple[str, ast.AST | None, bool]] = [(p, given.get(p, defaults.get(p)), p in given) for p in extras]
            feeds += [(f"<argument {i + 1}>", x, True) for i, x in enumerate(c.args) if i >= len(pos_params)]
            feeds += [(f"<keyword {k}>", v, True) for k, v in given.items() if k not in calc.params]
            for p, expr, passed in feeds:
                if expr is None:
                    raise AnalysisError(f"{f.qual}: {u(c)[:80]} gives no value for parameter {p}")
                exprs, complete = _closure(f, expr) if passed else ([expr], True)
                reads = _state_reads(prog, f, exprs) if passed else []
                reads = [(x, why) for x, why in reads if x != "_component_buckets"]
                newest = ct is not None and f is ct and len(ct.params) > 2 and any(
                    isinstance(n, ast.Name) and n.id == ct.params[2] for e in exprs for n in ast.walk(e))
                lit = expr.operand if isinstance(expr, ast.UnaryOp) and isinstance(expr.op, (ast.USub, ast.Not)) else expr
                verdict = ("history" if reads else "arrival" if newest else
                           "const" if isinstance(lit, ast.Constant) and complete else "other")
                if p in extras and p not in used and verdict in ("history", "arrival"):
                    verdict = "other"   # handed over but never looked at
                out.append({"param": p, "caller": f, "call": c, "expr": expr, "verdict": verdict, "reads": reads})
    return out


def const_inputs(feeds: list[dict[str, Any]]) -> dict[str, Any]:
    """Extra parameters that every call site feeds with the same literal."""
    vals: dict[str, set[str]] = {}
    for d in feeds:
        vals.setdefault(d["param"], set()).add(u(d["expr"]) if d["verdict"] == "const" else "<?>")
    out: dict[str, Any] = {}
    for p, vs in vals.items():
        if len(vs) == 1 and "<?>" not in vs:
            try:
                out[p] = ast.literal_eval(next(iter(vs)))
            except (ValueError, SyntaxError):
                pass
    return out


def report_calc_inputs(run: Run, calc: FuncInfo, feeds: list[dict[str, Any]]) -> bool:
    """C03.PURE: the target is a function of the live proposal set and the system bounds — nothing that
    remembers earlier calls, and nothing that singles out the latest arrival, is handed in as well."""
    bad = False
    for d in feeds:
        f, c, p = d["caller"], d["call"], d["param"]
        if d["verdict"] == "history":
            x, why = d["reads"][0]
            msg = (f"the target computation {calc.name} is fed, as {p}, with `{u(d['expr'])[:90]}`, which reads the "
                   f"instance state self.{x} ({why}): what an earlier calculation left behind becomes an input of the "
                   "next one, so the same live proposals and system bounds can yield different targets depending on "
                   "the proposals that arrived (and were replaced or expired) before and on their arrival order. The "
                   "target must be a function of the live proposal set and the system bounds only — feeding back the "
                   "previous target, a target of another group, a counter or a timestamp kept on the instance are all "
                   "excluded, whether passed directly, through a local or through a method of the instance")
        elif d["verdict"] == "arrival":
            msg = (f"the target computation {calc.name} is fed, as {p}, with `{u(d['expr'])[:90]}`, computed from the "
                   "proposal that has just arrived: the target then depends on which proposal came last, not only "
                   "on the set of live proposals and the system bounds")
        else:
            run.ok("C03.PURE", f"{f.qual} :: {p} of {calc.name} <- {u(d['expr'])[:60]} ({d['verdict']})")
            continue
        bad = True
        run.violation("C03.PURE", f.qual, f"{p} = {u(d['expr'])[:90]}", msg, node=c, file=f.file)
    return bad


CALC_HINT = "_calc_target_power"
_CALC = {"name": CALC_HINT}


def _loopers(cls: ClassInfo) -> set[str]:
    """Methods with a loop of their own: never spliced into a caller (the path walker cannot see into loops)."""
    return {n for n, m in cls.methods.items() if any(isinstance(x, (ast.For, ast.AsyncFor, ast.While)) for x in body_walk(m.node))}


def find_calc(prog: Program) -> FuncInfo:
    """The target computation, bound by role: the method of the algorithm whose result
    `calculate_target_power` stores in `self._target_power[...]` / returns.  The historical name is
    only the tie-breaker."""
    cached = getattr(prog, "_c03_calc", None)
    if cached is not None:
        _CALC["name"] = cached.name
        return cached
    ct = prog.func(f"{MAT}:Matryoshka.calculate_target_power")
    cls = ct.cls
    if cls is None:
        raise AnalysisError(f"{ct.qual} is not a method")
    names: dict[str, int] = {}
    try:
        for p in sym_paths(inline_helpers(prog, ct, exclude=_loopers(cls)), opaque=None):
            vals = [e.node.elts[1] for e in p.effects if e.kind == "write"  # type: ignore[attr-defined]
                    and u(e.node.elts[0]).startswith("self._target_power[")]  # type: ignore[attr-defined]
            if p.ret is not None:
                vals.append(p.ret)
            for v in vals:
                if isinstance(v, ast.Call) and isinstance(v.func, ast.Attribute) and u(v.func.value) in ("self", "cls", cls.name):
                    m = prog.resolve_method(cls, v.func.attr)
                    if m is not None:
                        names[m.name] = names.get(m.name, 0) + 1
    except SymUnsupported:
        pass
    if len(names) == 1:
        calc = prog.resolve_method(cls, next(iter(names)))
    elif CALC_HINT in names or (not names and prog.resolve_method(cls, CALC_HINT) is not None):
        calc = prog.resolve_method(cls, CALC_HINT)
    else:
        raise AnalysisError(f"{ct.qual}: no method plays the role of the target computation "
                            f"(candidates: {sorted(names)})")
    assert calc is not None
    prog._c03_calc = calc  # type: ignore[attr-defined]
    _CALC["name"] = calc.name
    return calc


def _ctp_paths(prog: Program) -> tuple[FuncInfo, FuncInfo, list[SymPath]]:
    calc = find_calc(prog)
    ct = prog.func(f"{MAT}:Matryoshka.calculate_target_power")
    if len(ct.params) < 4 or ct.cls is None:
        raise AnalysisError(f"{ct.qual}: expected (self, component_ids, proposal, system_bounds, ...)")
    return calc, ct, sym_paths(inline_helpers(prog, ct, exclude=_loopers(ct.cls) | {calc.name}), opaque=None)


def _is_calc_call(c: ast.AST) -> bool:
    return isinstance(c, ast.Call) and isinstance(c.func, ast.Attribute) and c.func.attr == _CALC["name"] \
        and u(c.func.value) in ("self", "cls")


def check_pure(run: Run, prog: Program) -> None:
    calc, ct, paths = _ctp_paths(prog)
    v0 = len(run.violations)
    # ---- the computation has no input besides the live proposals and the system bounds
    report_calc_inputs(run, calc, calc_inputs(prog, calc))
    # ---- the computation (and everything it reaches) uses `self` only to call further methods
    for f in reachable_code(prog, calc):
        run.analysed(f.qual)
        bad: list[ast.AST] = []
        if f.cls is not None and f.params and not is_static(f):
            parents = parent_map(f.node)
            for n in body_walk(f.node):
                if isinstance(n, ast.Name) and n.id == f.params[0]:
                    par = parents.get(n)
                    gp = parents.get(par) if par is not None else None
                    m = prog.resolve_method(f.cls, par.attr) if isinstance(par, ast.Attribute) else None
                    if not (isinstance(par, ast.Attribute) and isinstance(par.ctx, ast.Load)
                            and isinstance(gp, ast.Call) and gp.func is par and m is not None and not is_property(m)):
                        bad.append(par if par is not None else n)
        run.check(not bad, "C03.PURE", f.qual, u(bad[0]) if bad else "no use of instance state",
                  "the target computation reads or writes instance state: the result would depend on "
                  "history, not only on the live proposals and the bounds",
                  node=bad[0] if bad else f.node, file=f.file)
        glob = [n for n in body_walk(f.node) if isinstance(n, (ast.Global, ast.Nonlocal))]
        run.check(not glob, "C03.PURE", f.qual, "no global state", "global state is used",
                  node=glob[0] if glob else f.node, file=f.file)
    # ---- calculate_target_power, per symbolic path
    run.analysed(ct.qual)
    gid, bounds_param = ct.params[1], ct.params[3]
    bucket_forms: dict[str, Any] = {f"self._component_buckets[{gid}]": ("in", gid, "self._component_buckets")}
    for form in (f"self._component_buckets.get({gid})", f"self._component_buckets.get({gid}, None)"):
        bucket_forms[form] = ("is", frozenset({form, "None"}))
    n_calls = 0
    fresh_texts: set[str] = set()
    for p in paths:
        calls = p.calls(_is_calc_call)
        if len(calls) > 1:
            raise AnalysisError(f"{ct.qual}: the target is computed more than once on a path")
        if not calls:
            continue
        n_calls += 1
        call = calls[0].node
        fresh_texts.add(u(call))
        args = positional(call, calc.params[1:])  # type: ignore[arg-type]
        a_bucket = u(args.get(calc.params[1])).replace(" ", "")
        a_bounds = u(args.get(calc.params[2]))
        ok = a_bounds == bounds_param and a_bucket in {k.replace(" ", "") for k in bucket_forms}
        run.check(ok, "C03.PURE", ct.qual, call,
                  "the target is not computed from exactly (this group's bucket, the bounds argument)",
                  node=call, file=ct.file, path=p.describe(), instance=f"{ct.qual} :: arguments on path {_pid(p)}")
        if not ok:
            continue
        # the bucket test dominates the computation
        form = next(k for k in bucket_forms if k.replace(" ", "") == a_bucket)
        key = bucket_forms[form]
        want = key[0] == "in"
        run.check(p.outcome(key) is want, "C03.PURE", ct.qual, "bucket test dominates the computation",
                  "the computation is reachable without the bucket test", node=ct.node, file=ct.file,
                  path=p.describe(), instance=f"{ct.qual} :: bucket test on path {_pid(p)}")
    if not n_calls:
        raise AnalysisError(f"{ct.qual}: no path calls {calc.name}")
    methods = set(ct.cls.methods) - {calc.name, ct.name} if ct.cls is not None else set()
    validators: set[str] = set()
    # a path that does not compute the target is justified by "no bucket": the validation failed
    # (it fails only for a group without a bucket, see below) or the bucket test said so
    for p in paths:
        if p.exit != "return" or p.calls(_is_calc_call):
            continue
        refusing = [r for r in (_refused(k, o, methods) for k, o, *_ in p.conds) if r]
        validators.update(refusing)
        no_bucket = bool(refusing)
        for form, key in bucket_forms.items():
            if p.outcome(key) is (key[0] == "is"):
                no_bucket = True
        run.check(no_bucket, "C03.PURE", ct.qual, "return without computing the target",
                  "the recomputation is skipped for an existing (possibly emptied) bucket: after all "
                  "proposals expired the stale target would keep counting", node=ct.node, file=ct.file,
                  path=p.describe(), instance=f"{ct.qual} :: skip justified on path {_pid(p)}")
    prog._c03_validators = set(validators)  # type: ignore[attr-defined]
    for name in sorted(validators):
        _check_validate(run, prog, ct, name)
    # the only way to skip the recomputation once a bucket exists is `bucket is None`
    seen_tests: set[tuple[str, int]] = set()
    for p in paths:
        for key, _o, test, ln, _w in p.conds:
            txt = u(test)
            for ft in fresh_texts:
                txt = txt.replace(ft, "<fresh>")
            hit = [k for k in bucket_forms if k in txt]
            if not hit or (txt, ln) in seen_tests:
                continue
            seen_tests.add((txt, ln))
            ok = key == bucket_forms[hit[0]] if hit[0].endswith(")") else False
            run.check(ok, "C03.PURE", ct.qual, test,
                      "the recomputation is skipped for an existing (possibly emptied) bucket: after all "
                      "proposals expired the stale target would keep counting", node=test, file=ct.file,
                      path=p.describe())
    # _target_power is only compared and overwritten with the fresh value
    n_writes = 0
    for p in paths:
        for e in p.effects:
            if e.kind not in ("write", "del"):
                continue
            tgt, val = (e.node.elts if e.kind == "write" else (e.node, None))  # type: ignore[attr-defined]
            if "self._target_power" in u(tgt):
                n_writes += 1
                ok = e.kind == "write" and u(tgt) == f"self._target_power[{gid}]" and u(val) in fresh_texts \
                    and any(c.node is not None and u(c.node) == u(val) for c in p.calls(_is_calc_call))
                run.check(ok, "C03.PURE", ct.qual, f"{u(tgt)} = {u(val)}",
                          "the stored target is written with something other than the freshly "
                          "computed value", node=e.orig or ct.node, file=ct.file, path=p.describe(),
                          instance=f"{ct.qual} :: store on path {_pid(p)}")
    spliced = _spliced_into(prog, ct)
    for m in prog.cls(f"{MAT}:Matryoshka").methods.values():
        if m.name == ct.name or m.name in spliced:
            continue
        for n in body_walk(m.node):
            tg = None
            if isinstance(n, (ast.Assign, ast.AugAssign, ast.AnnAssign, ast.Delete)):
                tgs = n.targets if isinstance(n, (ast.Assign, ast.Delete)) else [n.target]
                tg = next((t for t in tgs if "self._target_power" in u(t)
                           and not (m.name == "__init__" and u(t) == "self._target_power")), None)
            elif isinstance(n, ast.Call) and isinstance(n.func, ast.Attribute) and u(n.func.value) == "self._target_power" \
                    and n.func.attr in ("pop", "clear", "update", "setdefault", "popitem", "__setitem__", "__delitem__"):
                tg = n
            if tg is not None:
                run.check(False, "C03.PURE", m.qual, n,
                          "the stored target is written with something other than the freshly "
                          "computed value", node=n, file=m.file)
    # the returned value is the fresh one (or None when unchanged)
    rets = [p for p in paths if p.exit == "return" and p.ret is not None
            and not (isinstance(p.ret, ast.Constant) and p.ret.value is None)]
    good = bool(rets) and all(u(p.ret) in fresh_texts and p.calls(_is_calc_call) for p in rets)
    worst = next((p for p in rets if not (u(p.ret) in fresh_texts and p.calls(_is_calc_call))), None)
    run.check(good, "C03.PURE", ct.qual, "return <fresh target>",
              "a value other than the freshly computed target is returned",
              node=ct.node, file=ct.file, path=worst.describe() if worst else None)
    # must_return_power forces the fresh value out; None means "unchanged": stored target == fresh one
    if len(ct.params) >= 5:
        must = ("truthy", ct.params[4])
        stored_forms = (f"self._target_power[{gid}]", f"self._target_power.get({gid})",
                        f"self._target_power.get({gid}, None)")
        for p in paths:
            calls = p.calls(_is_calc_call)
            if p.exit != "return" or not calls:
                continue
            fresh = u(calls[0].node)
            is_none = p.ret is None or (isinstance(p.ret, ast.Constant) and p.ret.value is None)
            if p.outcome(must) is True:
                run.check(not is_none and u(p.ret) == fresh, "C03.PURE", ct.qual, f"{ct.params[4]} -> return <fresh target>",
                          f"with {ct.params[4]} set the freshly computed target is not returned",
                          node=ct.node, file=ct.file, path=p.describe(),
                          instance=f"{ct.qual} :: forced return on path {_pid(p)}")
            elif is_none:
                same = any(p.outcome(("==", frozenset({sf, fresh}))) is True for sf in stored_forms)
                known = p.outcome(("in", gid, "self._target_power")) is not False
                run.check(p.outcome(must) is False and same and known, "C03.PURE", ct.qual,
                          "return None only when the stored target equals the fresh one",
                          "None (= unchanged) is returned although the freshly computed target need not equal "
                          "the stored one: the new target is neither handed out nor stored", node=ct.node,
                          file=ct.file, path=p.describe(), instance=f"{ct.qual} :: unchanged on path {_pid(p)}")
    # a target that is handed out is also the one get_target_power will report
    for p in rets:
        if u(p.ret) not in fresh_texts:
            continue
        stored = any(e.kind == "write" and u(e.node.elts[0]) == f"self._target_power[{gid}]"  # type: ignore[attr-defined]
                     and u(e.node.elts[1]) == u(p.ret) for e in p.effects)  # type: ignore[attr-defined]
        unseen = [e for e in p.calls(lambda c: isinstance(c.func, ast.Attribute) and u(c.func.value) == "self"
                                     and not _is_calc_call(c) and u(p.ret) in [u(a) for a in c.args]
                                     + [u(k.value) for k in c.keywords])]
        if not stored and unseen:
            raise AnalysisError(f"{ct.qual}: the fresh target is passed to {unseen[0].text[:60]}, which is not "
                                "followed: cannot tell whether it is stored")
        run.check(stored, "C03.PURE", ct.qual, f"self._target_power[{gid}] = <fresh target>",
                  "a freshly computed target is returned without being stored: get_target_power would "
                  "keep reporting the previous one", node=ct.node, file=ct.file, path=p.describe(),
                  instance=f"{ct.qual} :: stored before return on path {_pid(p)}")
    if not n_writes and len(run.violations) == v0:
        raise AnalysisError(f"{ct.qual}: no path stores the computed target")


def _refused(key: Any, outcome: bool, methods: set[str]) -> str | None:
    """The path condition says that a call `self.<m>(...)` of a method of the class returned a falsy
    value: the name of that method (it then has to satisfy the refusal rules), else None."""
    if not isinstance(key, tuple) or len(key) < 2:
        return None

    def val(t: Any) -> str | None:
        if isinstance(t, str) and t.startswith("self.") and "(" in t:
            name = t[5:t.index("(")]
            return name if name in methods and t.endswith(")") else None
        return None

    if key[0] == "truthy":
        return val(key[1]) if outcome is False else None
    if key[0] in ("is", "==") and isinstance(key[1], frozenset) and len(key[1]) == 2:
        hit = [t for t in key[1] if val(t)]
        if len(hit) == 1:
            other = next(t for t in key[1] if t != hit[0])
            if (other == "False" and outcome is True) or (other == "True" and outcome is False):
                return val(hit[0])
    return None


def _check_validate(run: Run, prog: Program, ct: FuncInfo, name: str) -> None:
    """A method whose falsy result makes calculate_target_power return without computing may refuse
    only a group that has no bucket yet (and, given the system bounds, only while there are none)."""
    cls = ct.cls
    val = prog.resolve_method(cls, name) if cls is not None else None
    if val is None:
        return
    run.analysed(val.qual)
    if len(val.params) < 2:
        raise AnalysisError(f"{val.qual}: expected (self, component_ids, ...)")
    gid = val.params[1]
    n = 0
    for p in sym_paths(inline_helpers(prog, val), opaque=None):
        if p.exit == "raise":
            continue
        falsy = p.ret is None or (isinstance(p.ret, ast.Constant) and not p.ret.value)
        truthy = isinstance(p.ret, ast.Constant) and bool(p.ret.value)
        if not falsy and not truthy:
            raise AnalysisError(f"{val.qual}: result {u(p.ret)} is not a constant")
        if falsy:
            n += 1
            run.check(p.outcome(("in", gid, "self._component_buckets")) is False, "C03.PURE", val.qual,
                      "refuses only a group without a bucket",
                      "the validation can fail for a group that already has a bucket: its target would no "
                      "longer be recomputed (expired proposals keep counting)", node=val.node, file=val.file,
                      path=p.describe(), instance=f"{val.qual} :: refusal on path {_pid(p)}")
            if len(val.params) >= 4:
                sb = val.params[3]
                none = [p.outcome(("is", frozenset({f"{sb}.{f}", "None"}))) is True
                        or p.outcome(("truthy", f"{sb}.{f}")) is False for f in ("inclusion_bounds", "exclusion_bounds")]
                run.check(all(none), "C03.PURE", val.qual, "refuses only while there are no system bounds at all",
                          "the validation can refuse a group for which system bounds exist: its proposals would "
                          "never be taken in and no target would ever be computed for it", node=val.node,
                          file=val.file, path=p.describe(), instance=f"{val.qual} :: no bounds on path {_pid(p)}")


def _pid(p: SymPath) -> str:
    return ",".join(("T" if o else "F") for _k, _ko, _t, _ln, o in p.conds)


def _spliced_into(prog: Program, fn: FuncInfo) -> set[str]:
    """Private helpers whose bodies the path walker saw as part of `fn` (no call of them is left)."""
    before = {c.func.attr for c in ast.walk(fn.node) if isinstance(c, ast.Call) and isinstance(c.func, ast.Attribute)
              and u(c.func.value) == "self"}
    node = inline_helpers(prog, fn)
    after = {c.func.attr for c in ast.walk(node) if isinstance(c, ast.Call) and isinstance(c.func, ast.Attribute)
             and u(c.func.value) == "self"}
    out = set()
    for name in before - after:
        sites = [f for f, _c in prog.attr_call_sites(name)] if hasattr(prog, "attr_call_sites") else []
        if all(f.qual == fn.qual or f.name in (before - after) for f in sites):
            out.add(name)
    return out


# ---------------------------------------------------------------------------------------------
def _key_fields(prog: Program, cls: ClassInfo, m: FuncInfo, depth: int = 3, n_recv: int = 2) -> set[str]:
    """Data attributes of the compared objects that decide `m`'s result: those read by the path
    conditions and the returned expressions (locals substituted, helper methods followed) — an
    attribute that is read into a dead local does not count."""
    recv = set(m.params[:n_recv]) if not is_static(m) else set()
    try:
        paths = sym_paths(inline_helpers(prog, m), opaque=None)
        exprs: list[ast.AST] = [t for p in paths for _k, _o, t, _ln, _w in p.conds]
        exprs += [p.ret for p in paths if p.ret is not None]
    except SymUnsupported:
        exprs = list(m.node.body)
    out: set[str] = set()
    for e in exprs:
        for n in ast.walk(e):
            if isinstance(n, ast.Attribute) and isinstance(n.value, ast.Name) and n.value.id in recv:
                h = prog.resolve_method(cls, n.attr)
                if h is not None and depth > 0:
                    out |= _key_fields(prog, cls, h, depth - 1, 1)
                else:
                    out.add(n.attr)
    return out


def check_ord(run: Run, prog: Program) -> None:
    cls = prog.cls(f"{BASE}:Proposal")
    want = {"priority", "source_id"}
    for name in ("__lt__", "__eq__", "__hash__"):
        if name not in cls.methods:
            raise AnalysisError(f"Proposal.{name} not found")
        m = cls.methods[name]
        run.analysed(m.qual)
        ks = _key_fields(prog, cls, m)
        run.check(ks == want, "C03.ORD", m.qual, f"{name} key fields {sorted(ks)}",
                  f"Proposal.{name} uses {sorted(ks)} instead of (priority, source_id): replacement "
                  "of an actor's proposal and the sweep order would disagree", node=m.node, file=m.file)
    fields = [s.target.id for s in cls.node.body if isinstance(s, ast.AnnAssign) and isinstance(s.target, ast.Name)]
    if not want <= set(fields):
        raise AnalysisError(f"Proposal fields {fields} do not include priority / source_id")
    for name, what, msg in (
            ("__lt__", "lexicographic (priority, source_id)",
             "Proposal.__lt__ is not the lexicographic order on (priority, source_id): distinct bucket "
             "members would not be totally ordered"),
            ("__eq__", "equality on (priority, source_id)",
             "Proposal.__eq__ is not equality of (priority, source_id)")):
        m = cls.methods[name]
        if len(m.params) != 2:
            raise AnalysisError(f"{m.qual}: expected (self, other)")
        it = RoleInterp(prog, cls.module)
        ctx: dict[str, Any] = {}

        def make_args(it: RoleInterp = it, m: FuncInfo = m, ctx: dict[str, Any] = ctx) -> dict[str, Any]:
            a = self_obj(cls, **{f: Atom(f"a.{f}") for f in fields})
            b = self_obj(cls, **{f: Atom(f"b.{f}") for f in fields})
            ctx.update(a=a, b=b)
            return {m.params[0]: a, m.params[1]: b}

        def post(res: Any, it: RoleInterp = it, name: str = name, ctx: dict[str, Any] = ctx) -> Any:
            a, b = ctx["a"].fields, ctx["b"].fields
            rp = it.cmp3(a["priority"], b["priority"], "post priority")
            if name == "__lt__":
                expect = rp == "<" or (rp == "=" and it.cmp3(a["source_id"], b["source_id"], "post source") == "<")
            else:
                expect = rp == "=" and it.cmp3(a["source_id"], b["source_id"], "post source") == "="
            if not isinstance(res, bool):
                return ("shape", f"result {res!r} is not a boolean")
            return None if res is expect else ("bad", [f"returns {res} where {expect} is required"])

        outs = it.explore(m.node, make_args, post)
        _register(run, it)
        n_bad = sum(1 for o in outs if o.kind == "raise" or o.post is not None)
        if n_bad:
            run.check(False, "C03.ORD", m.qual, what, msg + f" ({n_bad} of {len(outs)} weak orderings of the "
                      "two keys give the wrong answer)", node=m.node, file=m.file)
        _report_orderings(run, "C03.ORD", m, [o for o in outs if not (o.kind == "raise" or o.post is not None)] if n_bad else outs, what)
        if len(outs) < 3:
            raise AnalysisError(f"{m.qual}: only {len(outs)} abstract paths")
    # get_status sweeps in the same order
    gs = prog.func(f"{MAT}:Matryoshka.get_status")
    run.analysed(gs.qual)
    ok, shown = _sorted_sweep(prog, gs, want_arg=None)
    run.check(ok, "C03.ORD", gs.qual, shown,
              "get_status does not sweep sorted(<bucket>, reverse=True) with the proposals' own order",
              node=gs.node, file=gs.file)


def check_repl(run: Run, prog: Program) -> None:
    _calc, ct, paths = _ctp_paths(prog)
    v0 = len(run.violations)
    gid = ct.params[1]
    own_bucket = {f"self._component_buckets.setdefault({gid},set())", f"self._component_buckets[{gid}]",
                  f"self._component_buckets.setdefault({gid},set[Proposal]())"}

    def is_add(c: ast.AST) -> bool:
        return isinstance(c, ast.Call) and isinstance(c.func, ast.Attribute) and c.func.attr == "add" \
            and "self._component_buckets" in u(c.func.value) and len(c.args) == 1

    n_add = 0
    for p in paths:
        adds = p.calls(is_add)
        for a in adds:
            n_add += 1
            bucket, item = u(a.node.func.value), u(a.node.args[0])  # type: ignore[attr-defined]
            pos = p.effects.index(a)
            removed = [e for e in p.effects[:pos] if e.kind == "call" and isinstance(e.node, ast.Call)
                       and isinstance(e.node.func, ast.Attribute) and e.node.func.attr in ("remove", "discard")
                       and u(e.node.func.value) == bucket and [u(x) for x in e.node.args] == [item]]
            absent = p.outcome(("in", item, bucket)) is False
            run.check(bool(removed) or absent, "C03.REPL", ct.qual,
                      f"if {item} in <bucket>: <bucket>.remove({item}); <bucket>.add({item})",
                      "a new proposal is add()-ed without first removing the equal (same actor) element: "
                      "set.add keeps the old object, so the actor's previous proposal stays in force",
                      node=ct.node, file=ct.file, path=p.describe(),
                      instance=f"{ct.qual} :: add on path {_pid(p)}")
            # the bucket is this group's bucket
            run.check(bucket.replace(" ", "") in own_bucket and item == ct.params[2], "C03.REPL", ct.qual,
                      f"<bucket> = self._component_buckets.setdefault({gid}, set())",
                      "the proposal is not stored in this component group's bucket", node=ct.node, file=ct.file,
                      path=p.describe(), instance=f"{ct.qual} :: bucket on path {_pid(p)}")
    # a given proposal is always taken in (and only a given one) before the target is computed
    prop = ct.params[2]
    dunder = {m for m in ("__bool__", "__len__") if prog.resolve_method(prog.cls(f"{BASE}:Proposal"), m) is not None}
    for p in paths:
        calls = p.calls(_is_calc_call)
        if not calls:
            continue
        pos = p.effects.index(calls[0])
        added = any(is_add(e.node) and u(e.node.args[0]) == prop for e in p.effects[:pos] if e.kind == "call")  # type: ignore[attr-defined]
        o_is, o_truthy = p.outcome(("is", frozenset({prop, "None"}))), (None if dunder else p.outcome(("truthy", prop)))
        given = True if (o_is is False or o_truthy is True) else False if (o_is is True or o_truthy is False) else None
        run.check(given is not None and added == given, "C03.REPL", ct.qual,
                  f"{prop} is added to the bucket iff it is not None",
                  ("a given proposal is not added to its group's bucket before the target is computed: the "
                   "actor's latest proposal does not count" if not added else
                   "something is added to the bucket although no proposal was given / without a None test"),
                  node=ct.node, file=ct.file, path=p.describe(), instance=f"{ct.qual} :: taken in on path {_pid(p)}")
    if not n_add and len(run.violations) == v0:
        raise AnalysisError(f"{ct.qual}: expected a bucket.add(...) of the new proposal")


# ---------------------------------------------------------------------------------------------
# groups -> actors with a live proposal there; actor A has one in two groups (equal as set members:
# Proposal equality is (priority, source_id)), with independent creation times
AGE_MODEL = (("g1", ("A", "B", "C")), ("g2", ("A", "D")), ("g3", ()))


def check_age(run: Run, prog: Program) -> None:
    fn = prog.func(f"{MAT}:Matryoshka.drop_old_proposals")
    run.analysed(fn.qual)
    if fn.cls is None or len(fn.params) != 2:
        raise AnalysisError(f"{fn.qual}: expected (self, loop_time)")
    cls = fn.cls
    it = AgeInterp(prog, fn.module)
    ctx: dict[str, Any] = {}

    def make_args() -> dict[str, Any]:
        it.globals["__ZERO__"] = Atom("ZERO")
        buckets: dict[str, Any] = {}
        members: list[tuple[str, str, Obj]] = []
        for g, actors in AGE_MODEL:
            ps = []
            for actor in actors:
                cname = f"created({g}.{actor})"
                p = Obj("Proposal", creation_time=Lin({cname: 1}), priority=ord(actor) - 64, source_id=actor,
                        preferred_power=None, bounds=Obj("Bounds", lower=None, upper=None), component_ids=g)
                ps.append(p)
                members.append((g, cname, p))
            buckets[g] = SetV(ps)
        stored = {"g1": Atom("stored_target")}
        me = self_obj(cls, _component_buckets=buckets, _max_proposal_age_sec=Lin({AgeInterp.MAXAGE: 1}),
                      _target_power=stored)
        ctx.update(me=me, members=members, stored=stored, stored0=dict(stored))
        return {fn.params[0]: me, fn.params[1]: Lin({AgeInterp.NOW: 1})}

    def post(_res: Any) -> Any:
        me = ctx["me"]
        b = me.fields.get("_component_buckets")
        if not isinstance(b, dict) or set(b) != {g for g, _n in AGE_MODEL}:
            return ("bad", ["the set of buckets changes (an emptied bucket must stay, so that the "
                            "target is recomputed to zero)"])
        bad = []
        for g, cname, p in ctx["members"]:
            cur = b[g]
            items = cur.items if isinstance(cur, SetV) else list(cur) if isinstance(cur, (list, tuple)) else None
            if items is None:
                return ("shape", f"bucket {g} became {cur!r}")
            present = any(p is x for x in items)
            age = it.age(cname)
            if present and it.possible([(">", age, it.max_atom)]):
                bad.append(f"{g}.{p.fields['source_id']} stays although it can be older than the maximum age")
            if not present and it.possible([("<=", age, it.max_atom)]):
                bad.append(f"{g}.{p.fields['source_id']} is removed although it need not be older than the maximum age")
        for g, _n in AGE_MODEL:
            cur = b[g]
            items = cur.items if isinstance(cur, SetV) else list(cur)
            if any(not any(x is p for _g, _c, p in ctx["members"] if _g == g) for x in items):
                bad.append(f"bucket {g} gained a member")
        if me.fields.get("_target_power") is not ctx["stored"] or ctx["stored"] != ctx["stored0"]:
            bad.append("the stored targets are touched by the expiry sweep")
        return ("bad", bad) if bad else None

    outs = it.explore(fn.node, make_args, post)
    _register(run, it)
    _report_orderings(run, "C03.AGE", fn, outs, "expiry sweep on the model buckets "
                      f"{ {g: list(a) for g, a in AGE_MODEL} } (every proposal with loop_time - creation_time > max_age is removed "
                      "from its bucket, nothing else changes)")
    run.extra_cov.setdefault("abstract_paths", {})["drop_old_proposals"] = len(outs)
    # the configured maximum age is what the expiry test compares against
    for f in reachable_code(prog, fn):
        run.analysed(f.qual)
    ag = prog.func(f"{MAT}:Matryoshka.__init__")
    run.analysed(ag.qual)
    if len(ag.params) < 2:
        raise AnalysisError(f"{ag.qual}: expected (self, max_proposal_age)")
    want = f"{ag.params[1]}.total_seconds()"
    ipaths = sym_paths(inline_helpers(prog, ag), opaque=None)
    ok = bool(ipaths)
    for p in ipaths:
        ws = [e for e in p.effects if e.kind == "write" and u(e.node.elts[0]) == "self._max_proposal_age_sec"]  # type: ignore[attr-defined]
        ok = ok and len(ws) == 1 and u(ws[0].node.elts[1]) == want  # type: ignore[attr-defined]
    run.check(ok, "C03.AGE", ag.qual, f"self._max_proposal_age_sec = {want}",
              "the configured maximum age is not what the expiry test compares against",
              node=ag.node, file=ag.file)


def _prep_suite(stmts: list[ast.stmt]) -> list[ast.stmt]:
    """Copy of a suite the path walker can take: literal `for x in (a, b)` loops unrolled (at any
    depth), `match` statements that cannot leave the iteration made opaque."""
    out: list[ast.stmt] = []
    for s in unroll_literal_loops([copy.deepcopy(x) for x in stmts]):
        if isinstance(s, ast.Match):
            if any(isinstance(n, (ast.Continue, ast.Break, ast.Return)) for n in ast.walk(s)):
                raise AnalysisError(f"line {s.lineno}: match statement that leaves the iteration: not modelled")
            calls = [c for c in ast.walk(s) if isinstance(c, ast.Call) and isinstance(c.func, ast.Attribute)]
            out.append(ast.copy_location(ast.Expr(value=ast.Call(
                func=ast.Name(id="<match>", ctx=ast.Load()), args=[c for c in calls], keywords=[])), s))
            continue
        for field in ("body", "orelse", "finalbody"):
            sub = getattr(s, field, None)
            if isinstance(sub, list) and sub and isinstance(sub[0], ast.stmt):
                setattr(s, field, _prep_suite(sub))
        if isinstance(s, ast.Try):
            for h in s.handlers:
                h.body = _prep_suite(h.body)
        out.append(s)
    return out


def check_age_actor(run: Run, prog: Program) -> None:
    """One iteration of the actor's select loop, per symbolic path.  A selected message comes from
    exactly one receiver, so a path is *consistent with a message from R* when each of its
    `selected_from(selected, X)` tests has the outcome `X is R`.  On every path consistent with a
    tick of the expiry timer both proposal groups are expired with the loop clock; on every path
    consistent with a message of the proposals receiver the proposal is handed to the target
    computation."""
    rn = prog.func(f"{ACTOR}._run")
    run.analysed(rn.qual)
    node = inline_helpers(prog, rn)
    loops = [n for n in body_walk(node) if isinstance(n, (ast.AsyncFor, ast.For))
             and isinstance(n.iter, ast.Call) and u(n.iter.func).split(".")[-1] == "select"]
    timers = {t.id for n in body_walk(node) if isinstance(n, (ast.Assign, ast.AnnAssign)) and n.value is not None
              and isinstance(n.value, ast.Call) and "Timer" in u(n.value.func)
              for t in (n.targets if isinstance(n, ast.Assign) else [n.target]) if isinstance(t, ast.Name)}
    if len(loops) != 1 or not isinstance(loops[0].target, ast.Name):
        raise AnalysisError(f"{rn.qual}: expected one `async for selected in select(...)` loop")
    sel = loops[0].target.id
    select_args = [u(a) for a in loops[0].iter.args]  # type: ignore[attr-defined]
    res = SymExec(4096, opaque=None).block(SymPath(), _prep_suite(list(loops[0].body)))

    def consistent(p: SymPath, recv: str) -> bool:
        for _k, o, t, _ln, _w in p.conds:
            if isinstance(t, ast.Call) and u(t.func).split(".")[-1] == "selected_from" and len(t.args) == 2 \
                    and u(t.args[0]) == sel and o is not (u(t.args[1]) == recv):
                return False
        return True

    # ---- expiry on the timer
    tick = [a for a in select_args if a in timers]
    groups: list[str] = []
    ok = len(tick) == 1
    n_paths = 0
    worst: SymPath | None = None
    for p, st in (res if ok else []):
        if not consistent(p, tick[0]) or st == "raise":
            continue
        n_paths += 1
        calls = p.calls(lambda c: isinstance(c.func, ast.Attribute) and c.func.attr == "drop_old_proposals")
        groups = sorted(u(c.node.func.value) for c in calls)  # type: ignore[attr-defined]
        good = st in ("next", "continue") and groups == ["self._set_op_power_group", "self._set_power_group"] and all(
            len(c.node.args) + len(c.node.keywords) == 1  # type: ignore[attr-defined]
            and u((c.node.args + [k.value for k in c.node.keywords])[0]).replace(  # type: ignore[attr-defined]
                "get_running_loop", "get_event_loop") == "asyncio.get_event_loop().time()" for c in calls)
        if not good:
            ok, worst = False, p
            break
    run.check(ok and n_paths > 0, "C03.AGE", rn.qual, "timer branch expires both groups with the loop time",
              f"expiry is not applied to both proposal groups on every iteration started by the expiry timer (found {groups})",
              node=rn.node, file=rn.file, path=worst.describe() if worst else None)
    # ---- a received proposal reaches the target computation
    recv = "self._proposals_receiver"
    if recv not in select_args:
        raise AnalysisError(f"{rn.qual}: {recv} is not selected on")
    ok, n_paths, worst = True, 0, None
    takers: set[str] = set()
    for p, st in res:
        if not consistent(p, recv) or st == "raise":
            continue  # an iteration that raises ends the actor's run: nothing is computed at all
        n_paths += 1
        handed = False
        for e in p.calls(lambda c: isinstance(c.func, ast.Attribute) and u(c.func.value) == "self"):
            c = e.node
            m = prog.resolve_method(rn.cls, c.func.attr) if rn.cls is not None else None  # type: ignore[attr-defined]
            texts = [u(a) for a in c.args] + [u(k.value) for k in c.keywords]  # type: ignore[attr-defined]
            if m is None or f"{sel}.message" not in texts or f"{sel}.message.component_ids" not in texts:
                continue
            awaited = any(x.kind == "await" and isinstance(x.node, ast.Await) and u(x.node.value) == u(c) for x in p.effects)
            if awaited or not m.is_async:
                handed = True
                takers.add(m.name)
        if not (handed and st in ("next", "continue")):
            ok, worst = False, p
            break
    prog._c03_takers = takers  # type: ignore[attr-defined]
    run.check(ok and n_paths > 0, "C03.REPL", rn.qual, "a received proposal is handed to the target computation",
              "a message of the proposals receiver is not passed (with its component ids) to a method of the "
              "actor that is run to completion: the actor's latest proposal does not count", node=rn.node, file=rn.file,
              path=worst.describe() if worst else None)


# ---------------------------------------------------------------------------------------------
CONTROLS = [
    ("wrong bound in the (True, False) arm", BOUNDS,
     "                if value < exclusion_bounds.upper:\n                    return None, exclusion_bounds.upper",
     "                if value < exclusion_bounds.upper:\n                    return None, lower_bound", "C03.ENV"),
    ("clamp before the exclusion check", BOUNDS,
     "    if value > upper_bound:\n        return None, upper_bound\n",
     "    if value >= lower_bound:\n        return None, upper_bound\n", "C03.ENV"),
    ("zone upper edge closed", BOUNDS,
     "        if exclusion_bounds.lower < value < exclusion_bounds.upper:\n            return exclusion_bounds.lower, exclusion_bounds.upper",
     "        if exclusion_bounds.lower < value <= exclusion_bounds.upper:\n            return exclusion_bounds.lower, exclusion_bounds.lower",
     "C03.ENV"),
    ("bucket.remove deleted", MAT,
     "            if proposal in bucket:\n                bucket.remove(proposal)\n", "", "C03.REPL"),
    ("age compared the wrong way", MAT,
     "(loop_time - proposal.creation_time) > self._max_proposal_age_sec",
     "(loop_time - proposal.creation_time) < self._max_proposal_age_sec", "C03.AGE"),
    ("hash on source_id only", BASE, "return hash((self.priority, self.source_id))",
     "return hash(self.source_id)", "C03.ORD"),
    ("narrowing without adjusting to the zone widens past the system bound", MAT,
     "            lower_bound = max(lower_bound, proposal_lower)\n",
     "            lower_bound = min(lower_bound, proposal_lower)\n", "C03.ENV"),
    ("recomputation skipped when the validation passes", MAT,
     "        if not self._validate_component_ids(component_ids, proposal, system_bounds):\n            return None",
     "        if self._validate_component_ids(component_ids, proposal, system_bounds):\n            return None", "C03.PURE"),
    ("None returned although the target changed", MAT,
     "            or self._target_power[component_ids] != target_power",
     "            or self._target_power[component_ids] == target_power", "C03.PURE"),
    ("a given proposal is not taken in", MAT,
     "        if proposal is not None:\n            bucket = self._component_buckets.setdefault",
     "        if proposal is None:\n            bucket = self._component_buckets.setdefault", "C03.REPL"),
    ("validation refuses a group that has system bounds", MAT,
     "                system_bounds.inclusion_bounds is None\n                and system_bounds.exclusion_bounds is None",
     "                system_bounds.inclusion_bounds is None\n                or system_bounds.exclusion_bounds is None", "C03.PURE"),
    ("expiry arm not taken on timer ticks", ACTOR.split(":")[0],
     "            elif selected_from(selected, drop_old_proposals_timer):",
     "            elif not selected_from(selected, drop_old_proposals_timer):", "C03.AGE"),
    ("received proposal dropped by the actor", ACTOR.split(":")[0],
     "                await self._send_updated_target_power(\n                    proposal.component_ids, proposal, must_send=True\n                )\n",
     "                pass\n", "C03.REPL"),
    ("zero exemption of the exclusion zone with a tolerance", BOUNDS,
     "not value.isclose(Power.zero())", "not value.isclose(Power.zero(), abs_tol=0.5)", "C03.ENV"),
    ("previous target fed back into the target computation", MAT,
     "self._calc_target_power(proposals, system_bounds)",
     "self._calc_target_power(proposals, system_bounds, self._target_power.get(component_ids))", "C03.PURE"),
]


def structural_controls(prog: Program) -> list[tuple[str, str, str, str, str]]:  # noqa: C901
    """The controls located by structure in the tree under analysis (whole source -> patched
    source), so that they apply to any surface form of the anchors; a site that cannot be located
    falls back to the textual control."""
    built: dict[str, tuple[str, str]] = {}

    def add(name: str, module: str, edits: list[tuple[ast.AST, str]]) -> None:
        src = prog.module(module).source
        if edits:
            try:
                new = splice(src, edits)
                ast.parse(new)
            except (SyntaxError, AnalysisError):
                return
            if new != src:
                built[name] = (src, new)

    bsrc = prog.module(BOUNDS).source
    clamp = prog.func(f"{BOUNDS}:clamp_to_bounds")
    if len(clamp.params) == 4:
        v, lo, hi, ex = clamp.params
        rets = [n for n in body_walk(clamp.node) if isinstance(n, ast.Return) and isinstance(n.value, ast.Tuple)
                and len(n.value.elts) == 2]

        def is_none(e: ast.AST) -> bool:
            return isinstance(e, ast.Constant) and e.value is None

        r1 = [r for r in rets if is_none(r.value.elts[0]) and u(r.value.elts[1]) == f"{ex}.upper"]  # type: ignore[attr-defined]
        add(CONTROLS[0][0], BOUNDS, [(r.value.elts[1], lo) for r in r1])  # type: ignore[attr-defined]
        parents = parent_map(clamp.node)
        r2 = [r for r in rets if is_none(r.value.elts[0]) and u(r.value.elts[1]) == hi]  # type: ignore[attr-defined]
        ifs2 = [parents.get(r) for r in r2]
        add(CONTROLS[1][0], BOUNDS, [(i.test, f"{v} >= {lo}") for i in ifs2 if isinstance(i, ast.If) and len(i.body) == 1])
        r3 = [r for r in rets if u(r.value.elts[0]) == f"{ex}.lower" and u(r.value.elts[1]) == f"{ex}.upper"]  # type: ignore[attr-defined]
        edits3: list[tuple[ast.AST, str]] = []
        for r in r3:
            i = parents.get(r)
            if isinstance(i, ast.If) and len(i.body) == 1:
                # the zone's upper edge is treated as inside: an admissible value is moved
                edits3 += [(i.test, f"({seg(bsrc, i.test)}) or ({ex} is not None and {v} == {ex}.upper)"),
                           (r.value.elts[1], f"{ex}.lower")]  # type: ignore[attr-defined]
        add(CONTROLS[2][0], BOUNDS, edits3)
    msrc = prog.module(MAT).source
    ct = prog.func(f"{MAT}:Matryoshka.calculate_target_power")
    cparents = parent_map(ct.node)
    rm = [n for n in body_walk(ct.node) if isinstance(n, ast.Expr) and isinstance(n.value, ast.Call)
          and isinstance(n.value.func, ast.Attribute) and n.value.func.attr in ("remove", "discard")]
    if len(rm) == 1:
        holder = cparents.get(rm[0])
        victim: ast.AST = holder if isinstance(holder, ast.If) and len(holder.body) == 1 and not holder.orelse else rm[0]
        add(CONTROLS[3][0], MAT, [(victim, "pass")])
    drop = prog.func(f"{MAT}:Matryoshka.drop_old_proposals")
    flips = {ast.Gt: "<", ast.Lt: ">", ast.GtE: "<=", ast.LtE: ">="}
    for f in reachable_code(prog, drop):
        if f.module.name != prog.module(MAT).name:
            continue
        cmps = [n for n in body_walk(f.node) if isinstance(n, ast.Compare) and len(n.ops) == 1 and type(n.ops[0]) in flips]
        if len(cmps) == 1:
            c = cmps[0]
            add(CONTROLS[4][0], MAT, [(c, f"{seg(msrc, c.left)} {flips[type(c.ops[0])]} {seg(msrc, c.comparators[0])}")])
            break
    hs = prog.cls(f"{BASE}:Proposal").methods.get("__hash__")
    if hs is not None:
        rets_h = [n for n in body_walk(hs.node) if isinstance(n, ast.Return) and n.value is not None]
        if len(rets_h) == 1:
            add(CONTROLS[5][0], BASE, [(rets_h[0].value, f"hash({hs.params[0]}.source_id)")])  # type: ignore[list-item]
    calc = find_calc(prog)
    for f in reachable_code(prog, calc):
        if f.module.name != prog.module(MAT).name:
            continue
        mx = [n for n in body_walk(f.node) if isinstance(n, ast.Call) and isinstance(n.func, ast.Name) and n.func.id == "max"]
        if len(mx) == 1:
            add(CONTROLS[6][0], MAT, [(mx[0].func, "min")])
            break
    vnames = getattr(prog, "_c03_validators", None)
    if vnames is None:
        vnames = {"_validate_component_ids"}
    # -- calculate_target_power: validation test negated / unchanged test flipped / None test flipped
    val_ifs = [n for n in body_walk(ct.node) if isinstance(n, ast.If) and any(
        isinstance(c, ast.Call) and isinstance(c.func, ast.Attribute) and c.func.attr in vnames
        for c in ast.walk(n.test))]
    if len(val_ifs) == 1:
        t = val_ifs[0].test
        add(CONTROLS[7][0], MAT, [(t, seg(msrc, t.operand) if isinstance(t, ast.UnaryOp) and isinstance(t.op, ast.Not)
                                   else f"not ({seg(msrc, t)})")])
    eqs = [n for n in body_walk(ct.node) if isinstance(n, ast.Compare) and len(n.ops) == 1
           and isinstance(n.ops[0], (ast.Eq, ast.NotEq)) and any("self._target_power" in u(x) for x in [n.left] + n.comparators)]
    if len(eqs) == 1:
        c = eqs[0]
        add(CONTROLS[8][0], MAT, [(c, f"{seg(msrc, c.left)} {'==' if isinstance(c.ops[0], ast.NotEq) else '!='} "
                                      f"{seg(msrc, c.comparators[0])}")])
    nones = [n for n in body_walk(ct.node) if isinstance(n, ast.Compare) and len(n.ops) == 1
             and isinstance(n.ops[0], (ast.Is, ast.IsNot)) and u(n.left) == ct.params[2]
             and isinstance(n.comparators[0], ast.Constant) and n.comparators[0].value is None]
    if len(nones) == 1:
        c = nones[0]
        add(CONTROLS[9][0], MAT, [(c, f"{ct.params[2]} {'is' if isinstance(c.ops[0], ast.IsNot) else 'is not'} None")])
    val = prog.cls(f"{MAT}:Matryoshka").methods.get(sorted(vnames)[0]) if vnames else None
    if val is not None and len(val.params) >= 4:
        ands = [n for n in body_walk(val.node) if isinstance(n, ast.BoolOp) and isinstance(n.op, ast.And)
                and all(f"{val.params[3]}." in u(v) and isinstance(v, ast.Compare) for v in n.values)]
        if len(ands) == 1:
            add(CONTROLS[10][0], MAT, [(ands[0], "(" + " or ".join(seg(msrc, v) for v in ands[0].values) + ")")])
    # -- actor: first selected_from test negated; the hand-over of a received proposal removed
    amod = ACTOR.split(":")[0]
    asrc = prog.module(amod).source
    rn = prog.func(f"{ACTOR}._run")
    tests = [n.test for n in body_walk(rn.node) if isinstance(n, ast.If) and isinstance(n.test, ast.Call)
             and u(n.test.func).split(".")[-1] == "selected_from" and len(n.test.args) == 2
             and u(n.test.args[1]) == "self._proposals_receiver"]
    ttests = [n.test for n in body_walk(rn.node) if isinstance(n, ast.If) and isinstance(n.test, ast.Call)
              and u(n.test.func).split(".")[-1] == "selected_from" and len(n.test.args) == 2
              and any(isinstance(a, (ast.Assign, ast.AnnAssign)) and isinstance(a.value, ast.Call) and "Timer" in u(a.value.func)
                      and u(a.targets[0] if isinstance(a, ast.Assign) else a.target) == u(n.test.args[1])
                      for a in body_walk(rn.node))]
    if len(ttests) == 1:
        add(CONTROLS[11][0], amod, [(ttests[0], f"not {seg(asrc, ttests[0])}")])
    if len(tests) == 1:
        arm = next(n for n in body_walk(rn.node) if isinstance(n, ast.If) and n.test is tests[0])
        def hands_over(x: ast.AST) -> bool:
            """`[await] self.<m>(.., P.component_ids, P, ..)`: a statement passing the proposal on."""
            v = x.value if isinstance(x, (ast.Expr, ast.Assign)) else None
            v = v.value if isinstance(v, ast.Await) else v
            if not (isinstance(v, ast.Call) and isinstance(v.func, ast.Attribute) and u(v.func.value) == "self"):
                return False
            texts = [u(a) for a in v.args] + [u(k.value) for k in v.keywords]
            return any(f"{t}.component_ids" in texts for t in texts)

        sends = [x for b in arm.body for x in ast.walk(b) if isinstance(x, ast.Expr) and hands_over(x)]
        if len(sends) == 1:
            add(CONTROLS[12][0], amod, [(sends[0], "pass")])
    # -- the zero test that exempts 0 W from the exclusion zone gets a tolerance
    for f in reachable_code(prog, clamp):
        if f.module.name != prog.module(BOUNDS).name:
            continue
        close = [n for n in body_walk(f.node) if isinstance(n, ast.Call) and isinstance(n.func, ast.Attribute)
                 and n.func.attr == "isclose" and len(n.args) == 1 and not n.keywords]
        if len(close) == 1:
            add(CONTROLS[13][0], BOUNDS, [(close[0], f"{seg(bsrc, close[0].func)}({seg(bsrc, close[0].args[0])}, abs_tol=0.5)")])
            break
    # -- the stored target becomes a further input of the target computation
    sites = [n for n in body_walk(ct.node) if _is_calc_call(n) and isinstance(n, ast.Call) and n.args and not n.keywords]
    ca = calc.node.args
    rets_c = [n for n in calc.node.body if isinstance(n, ast.Return) and n.value is not None]
    if len(sites) == 1 and ca.args and not ca.kwonlyargs and not ca.vararg and not ca.kwarg and len(rets_c) == 1 \
            and calc.module.name == prog.module(MAT).name and len(ct.params) > 1:
        last = ca.args[-1]
        add(CONTROLS[14][0], MAT, [
            (last, f"{seg(msrc, last)}, c03_prev=None"),
            (rets_c[0].value, f"({seg(msrc, rets_c[0].value)}) if c03_prev is None else c03_prev"),  # type: ignore[list-item]
            (sites[0], f"{seg(msrc, sites[0].func)}({', '.join(seg(msrc, x) for x in sites[0].args)}, "
                       f"{ct.params[0]}._target_power.get({ct.params[1]}))")])
    out = []
    for i, (name, module, old, new, rule) in enumerate(CONTROLS):
        if name in built:
            out.append((name, module, built[name][0], built[name][1], rule))
        elif i in (7, 10) and not vnames:
            # no method plays the validation role here (inlined): the textual patch would edit dead code
            out.append((name, module, "<no validation method in use>", "", rule))
        else:
            out.append((name, module, old, new, rule))
    return out


def env_rules(run: Run, prog: Program, tier: str = "quick") -> None:
    n0 = len(run.violations)
    check_clamp(run, prog)
    check_adjust(run, prog)
    if len(run.violations) > n0 and tier == "quick":
        run.note("the sweep is not explored: its building blocks already violate their post-conditions")
        return
    try:
        check_sweep(run, prog, tier)
        if tier == "thorough":
            check_end_to_end(run, prog, 1, SHAPES_ALL)
            check_end_to_end(run, prog, 2, SHAPES_SPLIT)
    except StateRead as exc:
        fn = find_calc(prog)
        run.violation("C03.PURE", fn.qual, "instance state in the target computation",
                      "the target computation reads or writes instance state: the result would depend on "
                      f"history, not only on the live proposals and the bounds ({exc})", node=fn.node, file=fn.file)


def other_rules(run: Run, prog: Program) -> None:
    check_pure(run, prog)
    check_ord(run, prog)
    check_repl(run, prog)
    check_age(run, prog)
    check_age_actor(run, prog)


def run_rules(run: Run, prog: Program, tier: str = "quick") -> None:
    env_rules(run, prog, tier)
    other_rules(run, prog)


def _rules_for(expect: str) -> Any:
    """The rule group a control is expected to trip (controls re-index the whole program each time)."""
    if expect == "C03.ENV":
        return env_rules
    groups = {"C03.PURE": (check_pure,), "C03.ORD": (check_ord,), "C03.REPL": (check_repl, check_age_actor),
              "C03.AGE": (check_age, check_age_actor)}

    def rules(run: Run, prog: Program, *_a: Any) -> None:
        for f in groups.get(expect, (other_rules,)):
            f(run, prog)
    return rules


def check(run: Run, prog: Program, tier: str) -> str:
    run.rule("C03.ENV", "order-domain post-conditions of clamp_to_bounds / adjust_exclusion_bounds and "
             "the inductive step + prologue of the _calc_target_power sweep, for every weak ordering")
    run.rule("C03.PURE", "the target computation uses no instance state, gets (bucket, bounds), is "
             "recomputed whenever a bucket exists, and only its fresh value is stored/returned")
    run.rule("C03.ORD", "sweeps iterate sorted(bucket, reverse=True); Proposal <, ==, hash share the "
             "(priority, source_id) key and < is lexicographic")
    run.rule("C03.REPL", "the equal element is removed before bucket.add(proposal)")
    run.rule("C03.AGE", "drop_old_proposals removes every proposal older than max_age from every "
             "bucket; the actor expires both groups on the timer")
    check_quantity_truthiness(run)
    run_rules(run, prog, tier)
    run.floor("C03.ENV", 300)
    run.floor("C03.PURE", 12)
    run.floor("C03.ORD", 10)
    run.floor("C03.REPL", 4)
    run.floor("C03.AGE", 100)
    from ..engine.controls import run_controls

    run_controls(run, structural_controls(prog), run_rules, tier, base_prog=prog,
                 select=_rules_for)
    run.assume("system bounds satisfy lower <= 0 <= upper and the exclusion zone contains 0 "
               "(the property's quantifier)")
    run.assume("expiry is decided on a small-scope model of the buckets (3 groups with 3, 2 and 0 "
               "proposals, every age independently below / at / above the maximum age)")
    run.extra_cov["exhaustive"] = True
    return ("Order-domain abstract interpretation of the AST: every weak ordering of the symbolic "
            "inputs consistent with the preconditions is explored lazily (three-way forks on "
            "undecided comparisons). clamp_to_bounds and adjust_exclusion_bounds are decided in "
            "full; the sweep is decided by induction (prologue + one generic iteration with every "
            "proposal shape), which covers any number of proposals; the roles of its state variables "
            "are bound by dataflow and private helpers are interpreted. Proposal ordering / equality "
            "and the expiry sweep are decided in the same domain; history-freedom and replacement "
            "are rules over the symbolic paths of calculate_target_power.")
