"""C03  Power manager target stays inside usable system bounds, history-free.

  C03.ENV   order-domain abstract interpretation (exhaustive over weak orderings of the symbolic
            inputs): (a) clamp_to_bounds post-conditions, (b) adjust_exclusion_bounds /
            check_exclusion_bounds_overlap post-conditions, (c) the inductive step of the
            _calc_target_power sweep: from any state satisfying the invariant, one iteration with any
            proposal shape re-establishes it; the prologue establishes it.
  C03.PURE  _calc_target_power reads/writes no instance state; calculate_target_power passes it the
            bucket and the bounds argument and recomputes whenever a bucket exists.
  C03.ORD   both sweeps iterate sorted(bucket, reverse=True) without a key; Proposal ordering,
            equality and hash use the same (priority, source_id) key.
  C03.REPL  latest-per-actor: the equal element is removed before add().
  C03.AGE   drop_old_proposals removes every proposal older than max_age from every bucket; the
            actor calls it for both groups.
"""
from __future__ import annotations

import ast
import copy
from typing import Any, Callable

from ..engine.absint import Infeasible, Obj
from ..engine.cfg import CFG
from ..engine.order import Atom, OrderInterp
from ..engine.report import AnalysisError, Run
from ..engine.resolver import FuncInfo, Program, body_walk, find_installed_source, walk_no_nested
from ..engine.util import canon, canon_total, find_calls, method_call, nodes_with_call, u

BOUNDS = "microgrid._power_managing._bounds"
MAT = "microgrid._power_managing._matryoshka"
BASE = "microgrid._power_managing._base_classes"
ACTOR = "microgrid._power_managing._power_managing_actor:PowerManagingActor"


def check_quantity_truthiness(run: Run) -> None:
    """`if power:` is a None test only while Quantity defines neither __bool__ nor __len__."""
    path = find_installed_source("frequenz.quantities._quantity")
    if path is None:
        raise AnalysisError("installed source of frequenz.quantities._quantity not found")
    tree = ast.parse(path.read_text())
    found = False
    for n in ast.walk(tree):
        if isinstance(n, ast.ClassDef) and n.name == "Quantity":
            found = True
            names = {m.name for m in n.body if isinstance(m, (ast.FunctionDef, ast.AsyncFunctionDef))}
            if names & {"__bool__", "__len__"}:
                raise AnalysisError("Quantity now defines __bool__/__len__: `if power:` is no longer "
                                    "a None test; the order-domain model must be revised")
            isclose = [m for m in n.body if isinstance(m, ast.FunctionDef) and m.name == "isclose"]
            if not isclose:
                raise AnalysisError("Quantity.isclose not found")
            defaults = {a.arg: u(d) for a, d in zip(isclose[0].args.args[-len(isclose[0].args.defaults):],
                                                   isclose[0].args.defaults)}
            if defaults.get("abs_tol") != "0.0":
                raise AnalysisError(f"Quantity.isclose abs_tol default is {defaults.get('abs_tol')}, not 0.0")
    if not found:
        raise AnalysisError("class Quantity not found in the installed source")
    run.assume("frequenz.quantities.Quantity defines no __bool__/__len__ (truthiness == `is not "
               "None`) and isclose(abs_tol=0.0) against zero is equality — re-read from the installed "
               "source on every run")


# ---------------------------------------------------------------------------------------------
def mk_excl(it: OrderInterp, present: bool, names: tuple[str, str] = ("el", "eu")) -> Any:
    if not present:
        return None
    el, eu = Atom(names[0]), Atom(names[1])
    zero = it.globals.setdefault("__ZERO__", Atom("ZERO"))
    it.assume("<=", el, zero)
    it.assume("<=", zero, eu)
    return Obj("Bounds", lower=el, upper=eu)


def in_zone(it: OrderInterp, r: Atom, excl: Any) -> bool:
    """Can r lie strictly inside the zone and differ from zero under this run's facts?"""
    if excl is None:
        return False
    zero = it.globals["__ZERO__"]
    inside = [("<", excl.fields["lower"], r), ("<", r, excl.fields["upper"])]
    return it.possible(inside + [("<", r, zero)]) or it.possible(inside + [("<", zero, r)])


def may_fail(it: OrderInterp, rel: str, a: Any, b: Any) -> bool:
    """Can `a rel b` be false under this run's facts?"""
    neg = {"<=": (">", a, b), "<": (">=", a, b), ">=": ("<", a, b), ">": ("<=", a, b)}[rel]
    return it.possible([neg])


def check_clamp(run: Run, prog: Program) -> None:
    fn = prog.func(f"{BOUNDS}:clamp_to_bounds")
    run.analysed(fn.qual)
    mod = prog.module(BOUNDS)
    it = OrderInterp(prog, mod)
    ctx: dict[str, Any] = {}

    def make_args() -> dict[str, Any]:
        it.globals["__ZERO__"] = Atom("ZERO")
        v, L, U = Atom("v"), Atom("L"), Atom("U")
        it.assume("<=", L, U)
        excl = mk_excl(it, it.choose(2, "exclusion zone present") == 1)
        ctx.update(v=v, L=L, U=U, excl=excl)
        return {"value": v, "lower_bound": L, "upper_bound": U, "exclusion_bounds": excl}

    def post(res: Any) -> Any:
        if not (isinstance(res, tuple) and len(res) == 2):
            return ("shape", f"result {res!r} is not a pair")
        bad = []
        for r in res:
            if r is None:
                continue
            if not isinstance(r, Atom):
                return ("shape", f"component {r!r} is not one of the inputs")
            if may_fail(it, "<=", ctx["L"], r):
                bad.append(f"{r} can be below the lower bound")
            if may_fail(it, "<=", r, ctx["U"]):
                bad.append(f"{r} can be above the upper bound")
            if in_zone(it, r, ctx["excl"]):
                bad.append(f"{r} can be strictly inside the exclusion zone")
        excl = ctx["excl"]
        if res == (None, None):
            # allowed only when both bounds are strictly inside the zone
            if excl is None:
                bad.append("(None, None) without an exclusion zone")
            else:
                el, eu = excl.fields["lower"], excl.fields["upper"]
                if not (it.entails("<", el, ctx["L"]) and it.entails("<", ctx["U"], eu)):
                    bad.append("(None, None) although the range is not strictly inside the zone")
            return ("bad", bad) if bad else None
        # an admissible value must be returned unchanged
        v = ctx["v"]
        unchanged = all(r is not None and it.entails("=", r, v) for r in res)
        if not unchanged:
            inside = [("<=", ctx["L"], v), ("<=", v, ctx["U"])]
            zero = it.globals["__ZERO__"]
            # admissible = inside the bounds *after* carving out the zone: outside the zone, or
            # zero when the zone lies completely inside the bounds
            alts = [inside] if excl is None else [
                inside + [("<=", v, excl.fields["lower"])],
                inside + [("<=", excl.fields["upper"], v)],
                inside + [("=", v, zero), ("<=", ctx["L"], excl.fields["lower"]),
                          ("<=", excl.fields["upper"], ctx["U"])]]
            if any(it.possible(a) for a in alts):
                bad.append(f"an admissible value {v} can be altered: result {res}")
        return ("bad", bad) if bad else None

    outs = it.explore(fn.node, make_args, post)
    _report_orderings(run, "C03.ENV", fn, outs, "clamp_to_bounds post-condition "
                      "(L <= r <= U, r outside the exclusion zone or zero, admissible value unchanged)")
    run.extra_cov.setdefault("abstract_paths", {})["clamp_to_bounds"] = len(outs)
    if len(outs) < 40:
        raise AnalysisError(f"clamp_to_bounds: only {len(outs)} abstract paths")




def _report_orderings(run: Run, rule: str, fn: FuncInfo, outs: list[Any], what: str) -> None:
    n_bad = 0
    for out in outs:
        if out.kind == "raise":
            run.violation(rule, fn.qual, f"raises {out.value}", f"{what}: an abstract path raises "
                          f"{out.value}", node=out.raise_node or fn.node, file=fn.file)
            n_bad += 1
            continue
        if out.post is None:
            run.ok(rule, f"{fn.qual}: path {out.decisions}")
            continue
        kind, detail = out.post
        n_bad += 1
        ordering = out.state.linear_extension() if out.state is not None else []
        ret = _return_of(fn, out)
        run.violation(rule, fn.qual, ret,
                      f"{what} fails: {detail}; returned {out.value!r} under the ordering "
                      f"{' < '.join('='.join(c) for c in ordering)} (decisions: "
                      f"{'; '.join(f'{l}={d}' for l, d in zip(out.labels, out.decisions))})",
                      node=fn.node, file=fn.file, ordering=ordering)
    run.sample({"function": fn.qual, "abstract_paths": len(outs), "violating": n_bad,
                "example_path": [f"{l}={d}" for l, d in zip(outs[0].labels, outs[0].decisions)] if outs else []})


def _return_of(fn: FuncInfo, out: Any) -> str:
    return f"{fn.name} result {out.value!r}"


def check_adjust(run: Run, prog: Program) -> None:
    fn = prog.func(f"{BOUNDS}:adjust_exclusion_bounds")
    run.analysed(fn.qual)
    run.analysed(f"{BOUNDS}:check_exclusion_bounds_overlap")
    it = OrderInterp(prog, prog.module(BOUNDS))
    ctx: dict[str, Any] = {}

    def make_args() -> dict[str, Any]:
        it.globals["__ZERO__"] = Atom("ZERO")
        L, U = Atom("L"), Atom("U")
        it.assume("<=", L, U)
        excl = mk_excl(it, it.choose(2, "exclusion zone present") == 1)
        ctx.update(L=L, U=U, excl=excl)
        return {"lower_bound": L, "upper_bound": U, "exclusion_bounds": excl}

    def post(res: Any) -> Any:
        if not (isinstance(res, tuple) and len(res) == 2 and all(isinstance(r, Atom) for r in res)):
            return ("shape", f"result {res!r} is not a pair of input atoms")
        lo, hi = res
        zero = it.globals["__ZERO__"]
        bad = []
        excl = ctx["excl"]
        if lo is zero and hi is zero:
            # collapsed: only allowed when both bounds are strictly inside the zone
            if excl is None or not (it.entails("<", excl.fields["lower"], ctx["L"])
                                    and it.entails("<", ctx["U"], excl.fields["upper"])):
                bad.append("collapsed to (0, 0) although the range is not strictly inside the zone")
            return ("bad", bad) if bad else None
        if may_fail(it, "<=", ctx["L"], lo):
            bad.append("lower bound can be widened")
        if may_fail(it, "<=", hi, ctx["U"]):
            bad.append("upper bound can be widened")
        if may_fail(it, "<=", lo, hi):
            bad.append("adjusted range can be empty although the input was not")
        for r in (lo, hi):
            if in_zone(it, r, excl):
                bad.append(f"adjusted bound {r} can still be strictly inside the zone")
        return ("bad", bad) if bad else None

    outs = it.explore(fn.node, make_args, post)
    _report_orderings(run, "C03.ENV", fn, outs, "adjust_exclusion_bounds post-condition (never "
                      "widens, ends outside the zone, collapses to zero only inside the zone)")
    run.extra_cov.setdefault("abstract_paths", {})["adjust_exclusion_bounds"] = len(outs)
    if len(outs) < 10:
        raise AnalysisError(f"adjust_exclusion_bounds: only {len(outs)} abstract paths")


# ---------------------------------------------------------------------------------------------
def split_sweep(fn: FuncInfo) -> tuple[list[ast.stmt], ast.For, list[ast.stmt]]:
    """(prologue, the proposal loop, epilogue) of a sweep function."""
    body = [s for s in fn.node.body if not (isinstance(s, ast.Expr) and isinstance(s.value, ast.Constant))]
    loops = [s for s in body if isinstance(s, ast.For)]
    if len(loops) != 1:
        raise AnalysisError(f"{fn.qual}: expected exactly one top-level proposal loop")
    i = body.index(loops[0])
    return body[:i], loops[0], body[i + 1:]


def synth(name: str, params: list[str], body: list[ast.stmt], ret: list[str]) -> ast.FunctionDef:
    fn = ast.FunctionDef(
        name=name,
        args=ast.arguments(posonlyargs=[], args=[ast.arg(arg=p) for p in params], kwonlyargs=[],
                           kw_defaults=[], defaults=[]),
        body=copy.deepcopy(body) + [ast.Return(value=ast.Tuple(
            elts=[ast.Name(id=r, ctx=ast.Load()) for r in ret], ctx=ast.Load()))],
        decorator_list=[], type_params=[])
    ast.fix_missing_locations(fn)
    return fn


def loop_state_vars(pro: list[ast.stmt], loop: ast.For) -> list[str]:
    assigned_before = set()
    for s in pro:
        for n in ast.walk(s):
            if isinstance(n, ast.Name) and isinstance(n.ctx, ast.Store):
                assigned_before.add(n.id)
    used = {n.id for n in ast.walk(loop) if isinstance(n, ast.Name)}
    return sorted(assigned_before & used)


SHAPES_ALL = [(p, lo, hi) for p in (0, 1) for lo in (0, 1) for hi in (0, 1)]
# when the target part and the bounds part of an iteration are independent (checked structurally),
# the mixed shapes add nothing: every mixed path is a pair (target-part path, bounds-part path)
SHAPES_SPLIT = [(0, 0, 0), (1, 0, 0), (0, 1, 0), (0, 0, 1), (0, 1, 1)]


def mk_proposal(it: OrderInterp, tag: str = "p", shapes: list[tuple[int, int, int]] | None = None) -> Obj:
    shapes = shapes or SHAPES_ALL
    hp, hl, hh = shapes[it.choose(len(shapes), f"{tag} shape (pref, lower, upper)")]
    pref = Atom(f"{tag}_pref") if hp else None
    lo = Atom(f"{tag}_lo") if hl else None
    hi = Atom(f"{tag}_hi") if hh else None
    return Obj("Proposal", preferred_power=pref, bounds=Obj("Bounds", lower=lo, upper=hi),
               priority=1, source_id=tag)


def parts_independent(loop: ast.For) -> bool:
    """In one iteration: the statements that may assign the target do not assign the running
    bounds, and the other statements neither read nor assign the target."""
    tgt_stmts, other = [], []
    for s in loop.body:
        names_w = {n.id for n in ast.walk(s) if isinstance(n, ast.Name) and isinstance(n.ctx, ast.Store)}
        (tgt_stmts if "target_power" in names_w else other).append(s)
    if len(tgt_stmts) != 1:
        return False
    w = {n.id for n in ast.walk(tgt_stmts[0]) if isinstance(n, ast.Name) and isinstance(n.ctx, ast.Store)}
    if w & {"lower_bound", "upper_bound", "exclusion_bounds"}:
        return False
    if any(isinstance(n, (ast.Break, ast.Continue, ast.Return)) for n in ast.walk(tgt_stmts[0])):
        return False
    for s in other:
        if any(isinstance(n, ast.Name) and n.id == "target_power" for n in ast.walk(s)):
            return False
    return True


def check_sweep(run: Run, prog: Program, tier: str = "quick") -> None:
    fn = prog.func(f"{MAT}:Matryoshka._calc_target_power")
    run.analysed(fn.qual)
    pro, loop, epi = split_sweep(fn)
    svars = loop_state_vars(pro, loop)
    need = {"lower_bound", "upper_bound", "target_power", "exclusion_bounds"}
    if not need <= set(svars):
        raise AnalysisError(f"{fn.qual}: loop state variables {svars} do not include {sorted(need)}")
    mod = prog.module(MAT)
    # ---- prologue establishes the invariant
    it = OrderInterp(prog, mod)
    ctx: dict[str, Any] = {}
    pfn = synth("prologue", ["system_bounds"], pro, ["lower_bound", "upper_bound", "target_power",
                                                     "exclusion_bounds"])

    def mk_sys(it: OrderInterp) -> Obj:
        it.globals["__ZERO__"] = Atom("ZERO")
        zero = it.globals["__ZERO__"]
        incl = None
        if it.choose(2, "system inclusion bounds present") == 1:
            sl, su = Atom("sysL"), Atom("sysU")
            it.assume("<=", sl, zero)
            it.assume("<=", zero, su)
            incl = Obj("Bounds", lower=sl, upper=su)
        excl = mk_excl(it, it.choose(2, "system exclusion bounds present") == 1, ("sel", "seu"))
        ctx.update(incl=incl, sexcl=excl)
        return Obj("SystemBounds", inclusion_bounds=incl, exclusion_bounds=excl)

    def pre_args() -> dict[str, Any]:
        return {"system_bounds": mk_sys(it)}

    def pre_post(res: Any) -> Any:
        L, U, T, ex = res
        zero = it.globals["__ZERO__"]
        bad = []
        if not (isinstance(L, Atom) and isinstance(U, Atom) and isinstance(T, Atom)):
            return ("shape", f"initial state {res!r} is not made of atoms")
        if T is not zero:
            bad.append("initial target is not zero")
        incl = ctx["incl"]
        if incl is None:
            if not (it.entails("=", L, zero) and it.entails("=", U, zero)):
                bad.append("without inclusion bounds the running bounds are not forced to zero")
        else:
            if not (L is incl.fields["lower"] and U is incl.fields["upper"]):
                bad.append("running bounds do not start at the system inclusion bounds")
        sx = ctx["sexcl"]
        if ex is not None and ex is not sx:
            bad.append("exclusion zone is not the system exclusion zone")
        if ex is None and sx is not None:
            # allowed only when the zone is degenerate (both edges zero)
            if not (it.entails("=", sx.fields["lower"], zero) and it.entails("=", sx.fields["upper"], zero)):
                bad.append("a non-degenerate system exclusion zone is ignored")
        return ("bad", bad) if bad else None

    outs = it.explore(pfn, pre_args, pre_post)
    _report_orderings(run, "C03.ENV", fn, outs, "sweep prologue (target starts at zero, bounds at the "
                      "system inclusion bounds or zero, exclusion zone = system exclusion zone)")
    # ---- inductive step
    split = parts_independent(loop) and tier == "quick"
    shapes = SHAPES_SPLIT if split else SHAPES_ALL
    run.note("inductive step explores " + ("the 5 separated proposal shapes (target part and bounds "
             "part of an iteration are structurally independent)" if split else "all 8 proposal shapes"))
    it2 = OrderInterp(prog, mod)
    sfn = synth("step", svars + [u(loop.target)], [ast.For(
        target=ast.Name(id="_once", ctx=ast.Store()), iter=ast.List(elts=[ast.Constant(0)], ctx=ast.Load()),
        body=loop.body, orelse=[])], ["lower_bound", "upper_bound", "target_power"])
    ctx2: dict[str, Any] = {}

    def step_args() -> dict[str, Any]:
        it2.globals["__ZERO__"] = Atom("ZERO")
        zero = it2.globals["__ZERO__"]
        sl, su = Atom("sysL"), Atom("sysU")
        it2.assume("<=", sl, zero)
        it2.assume("<=", zero, su)
        L, U, T = Atom("L"), Atom("U"), Atom("T")
        excl = mk_excl(it2, it2.choose(2, "exclusion zone present") == 1)
        # invariant at loop head
        it2.assume("<=", sl, L)
        it2.assume("<=", U, su)
        it2.assume("<=", sl, T)
        it2.assume("<=", T, su)
        t_zero = it2.choose(2, "target is zero") == 1
        if t_zero:
            it2.assume("=", T, zero)
        elif excl is not None:
            # T outside the zone: T <= el or T >= eu
            if it2.choose(2, "target below / above the zone") == 0:
                it2.assume("<=", T, excl.fields["lower"])
            else:
                it2.assume("<=", excl.fields["upper"], T)
        p = mk_proposal(it2, shapes=shapes)
        ctx2.update(sl=sl, su=su, excl=excl, T=T)
        args = {v: None for v in svars}
        args.update(lower_bound=L, upper_bound=U, target_power=T, exclusion_bounds=excl)
        args[u(loop.target)] = p
        return args

    def step_post(res: Any) -> Any:
        L2, U2, T2 = res
        if not all(isinstance(x, Atom) for x in res):
            return ("shape", f"state after one iteration {res!r} is not made of input atoms")
        bad = []
        if may_fail(it2, "<=", ctx2["sl"], L2):
            bad.append("running lower bound can fall below the system lower bound")
        if may_fail(it2, "<=", U2, ctx2["su"]):
            bad.append("running upper bound can rise above the system upper bound")
        if may_fail(it2, "<=", ctx2["sl"], T2):
            bad.append("target can be below the system lower bound")
        if may_fail(it2, "<=", T2, ctx2["su"]):
            bad.append("target can be above the system upper bound")
        if in_zone(it2, T2, ctx2["excl"]):
            bad.append("target can be strictly inside the exclusion zone (and not zero)")
        return ("bad", bad) if bad else None

    outs = it2.explore(sfn, step_args, step_post)
    _report_orderings(run, "C03.ENV", fn, outs, "inductive step of the sweep (system bounds contain "
                      "running bounds and target; target zero or outside the zone)")
    run.extra_cov.setdefault("abstract_paths", {})["sweep_step"] = len(outs)
    if len(outs) < 200:
        raise AnalysisError(f"{fn.qual}: only {len(outs)} abstract paths in the inductive step")
    run.extra_cov["proposal_shapes"] = len(shapes)
    # ---- epilogue returns the state variable
    ok = len(epi) == 1 and isinstance(epi[0], ast.Return) and u(epi[0].value) == "target_power"
    run.check(ok, "C03.ENV", fn.qual, "return target_power",
              "the sweep does not return the running target", node=fn.node, file=fn.file)
    # ---- the loop iterates the proposals argument
    run.check(u(loop.iter).replace(" ", "") == f"sorted({fn.params[1]},reverse=True)", "C03.ORD",
              fn.qual, f"for ... in {u(loop.iter)}",
              "the sweep does not iterate sorted(<bucket>, reverse=True) with the proposals' own "
              "total order: equal-priority proposals would be swept in set-iteration (arrival) order",
              node=loop, file=fn.file)


def check_end_to_end(run: Run, prog: Program, n: int, shapes: list[tuple[int, int, int]]) -> None:
    """Thorough cross-check of the induction: the whole _calc_target_power with n symbolic proposals."""
    fn = prog.func(f"{MAT}:Matryoshka._calc_target_power")
    it = OrderInterp(prog, prog.module(MAT))
    ctx: dict[str, Any] = {}

    def make_args() -> dict[str, Any]:
        it.globals["__ZERO__"] = Atom("ZERO")
        zero = it.globals["__ZERO__"]
        incl = None
        if it.choose(2, "system inclusion bounds present") == 1:
            sl, su = Atom("sysL"), Atom("sysU")
            it.assume("<=", sl, zero)
            it.assume("<=", zero, su)
            incl = Obj("Bounds", lower=sl, upper=su)
        excl = mk_excl(it, it.choose(2, "system exclusion bounds present") == 1, ("sel", "seu"))
        props = []
        for i in range(n):
            p = mk_proposal(it, tag=f"p{i}", shapes=shapes)
            p.fields["priority"] = n - i
            props.append(p)
        ctx.update(incl=incl, excl=excl)
        return {"self": Obj("self"), fn.params[1]: props,
                fn.params[2]: Obj("SystemBounds", inclusion_bounds=incl, exclusion_bounds=excl)}

    def post(T: Any) -> Any:
        if not isinstance(T, Atom):
            return ("shape", f"target {T!r} is not an input value")
        zero = it.globals["__ZERO__"]
        bad = []
        incl, excl = ctx["incl"], ctx["excl"]
        if incl is None:
            if not it.entails("=", T, zero):
                bad.append("without inclusion bounds the target is not zero")
        else:
            if may_fail(it, "<=", incl.fields["lower"], T) or may_fail(it, "<=", T, incl.fields["upper"]):
                bad.append("target can leave the system inclusion bounds")
        if in_zone(it, T, excl):
            bad.append("target can be strictly inside the system exclusion zone")
        return ("bad", bad) if bad else None

    outs = it.explore(fn.node, make_args, post)
    _report_orderings(run, "C03.ENV", fn, outs, f"end-to-end sweep with {n} symbolic proposal(s) stays in the "
                      "usable system bounds")
    run.extra_cov.setdefault("abstract_paths", {})[f"end_to_end_{n}"] = len(outs)


# ---------------------------------------------------------------------------------------------
def check_pure(run: Run, prog: Program) -> None:
    fn = prog.func(f"{MAT}:Matryoshka._calc_target_power")
    self_uses = [n for n in body_walk(fn.node) if isinstance(n, ast.Name) and n.id == "self"]
    run.check(not self_uses, "C03.PURE", fn.qual, "no use of self",
              "the target computation reads or writes instance state: the result would depend on "
              "history, not only on the live proposals and the bounds", node=fn.node, file=fn.file)
    glob = [n for n in body_walk(fn.node) if isinstance(n, (ast.Global, ast.Nonlocal))]
    run.check(not glob, "C03.PURE", fn.qual, "no global state", "global state is used",
              node=fn.node, file=fn.file)
    ct = prog.func(f"{MAT}:Matryoshka.calculate_target_power")
    run.analysed(ct.qual)
    cfg = CFG(ct.node, ct.file)
    calls = nodes_with_call(cfg, lambda c: method_call(c, "self", "_calc_target_power"))
    if len(calls) != 1:
        raise AnalysisError(f"{ct.qual}: expected one call of _calc_target_power")
    call = find_calls(cfg.nodes[calls[0]].ast, lambda c: method_call(c, "self", "_calc_target_power"))[0]  # type: ignore[arg-type]
    bucket_var = u(call.args[0])
    ok = len(call.args) == 2 and u(call.args[1]) == ct.params[3]
    defs = [n.ast for n in cfg.nodes if isinstance(n.ast, ast.Assign) and u(n.ast.targets[0]) == bucket_var]
    ok = ok and len(defs) == 1 and u(defs[0].value) == f"self._component_buckets.get({ct.params[1]})"
    run.check(ok, "C03.PURE", ct.qual, call,
              "the target is not computed from exactly (this group's bucket, the bounds argument)",
              node=call, file=ct.file)
    # the only way to skip the recomputation once a bucket exists is `bucket is None`
    skip = [t for t in cfg.nodes if t.kind == "test" and t.ast is not None and bucket_var in t.label]
    ok = len(skip) == 1 and canon(skip[0].ast) == ("is", frozenset({bucket_var, "None"}))  # type: ignore[arg-type]
    run.check(ok, "C03.PURE", ct.qual, skip[0].ast if skip else "bucket test",
              "the recomputation is skipped for an existing (possibly emptied) bucket: after all "
              "proposals expired the stale target would keep counting", node=ct.node, file=ct.file)
    wit = cfg.path(cfg.entry, calls, avoid=[t.id for t in skip])
    run.check(wit is None or not skip, "C03.PURE", ct.qual, "bucket test dominates the computation",
              "the computation is reachable without the bucket test", node=ct.node, file=ct.file,
              path=cfg.describe_path(wit))
    # _target_power is only compared and overwritten with the fresh value
    fresh = None
    s = cfg.nodes[calls[0]].ast
    if isinstance(s, ast.Assign):
        fresh = u(s.targets[0])
    for m in prog.cls(f"{MAT}:Matryoshka").methods.values():
        for n in body_walk(m.node):
            if isinstance(n, (ast.Assign, ast.AugAssign)):
                tg = n.targets[0] if isinstance(n, ast.Assign) else n.target
                if isinstance(tg, ast.Subscript) and u(tg.value) == "self._target_power":
                    run.check(m.name == "calculate_target_power" and isinstance(n, ast.Assign)
                              and u(n.value) == fresh, "C03.PURE", m.qual, n,
                              "the stored target is written with something other than the freshly "
                              "computed value", node=n, file=m.file)
    # the returned value is the fresh one (or None when unchanged)
    rets = [n.ast for n in cfg.nodes if isinstance(n.ast, ast.Return) and n.ast.value is not None
            and not (isinstance(n.ast.value, ast.Constant) and n.ast.value.value is None)]
    run.check(all(u(r.value) == fresh for r in rets) and bool(rets), "C03.PURE", ct.qual,
              f"return {fresh}", "a value other than the freshly computed target is returned",
              node=ct.node, file=ct.file)


def check_ord(run: Run, prog: Program) -> None:
    cls = prog.cls(f"{BASE}:Proposal")
    keys = {}
    for name in ("__lt__", "__eq__", "__hash__"):
        if name not in cls.methods:
            raise AnalysisError(f"Proposal.{name} not found")
        m = cls.methods[name]
        run.analysed(m.qual)
        keys[name] = {n.attr for n in body_walk(m.node) if isinstance(n, ast.Attribute)
                      and isinstance(n.value, ast.Name) and n.value.id in ("self", "other")}
    want = {"priority", "source_id"}
    for name, ks in keys.items():
        run.check(ks == want, "C03.ORD", cls.methods[name].qual, f"{name} key fields {sorted(ks)}",
                  f"Proposal.{name} uses {sorted(ks)} instead of (priority, source_id): replacement "
                  "of an actor's proposal and the sweep order would disagree", node=cls.methods[name].node,
                  file=cls.methods[name].file)
    lt = cls.methods["__lt__"]
    rets = [n for n in body_walk(lt.node) if isinstance(n, ast.Return)]
    want_lt = ("or", frozenset({("<", "self.priority", "other.priority"),
                                ("and", frozenset({("==", frozenset({"self.priority", "other.priority"})),
                                                   ("<", "self.source_id", "other.source_id")}))}))
    run.check(len(rets) == 1 and canon(rets[0].value) == want_lt, "C03.ORD", lt.qual,  # type: ignore[arg-type]
              "lexicographic (priority, source_id)", "Proposal.__lt__ is not the lexicographic order "
              "on (priority, source_id): distinct bucket members would not be totally ordered",
              node=lt.node, file=lt.file)
    eq = cls.methods["__eq__"]
    rets = [n for n in body_walk(eq.node) if isinstance(n, ast.Return) and not (
        isinstance(n.value, ast.Name) and n.value.id == "NotImplemented")]
    want_eq = ("and", frozenset({("==", frozenset({"self.priority", "other.priority"})),
                                 ("==", frozenset({"self.source_id", "other.source_id"}))}))
    run.check(len(rets) == 1 and canon(rets[0].value) == want_eq, "C03.ORD", eq.qual,  # type: ignore[arg-type]
              "equality on (priority, source_id)", "Proposal.__eq__ is not equality of (priority, "
              "source_id)", node=eq.node, file=eq.file)
    # get_status sweeps in the same order
    gs = prog.func(f"{MAT}:Matryoshka.get_status")
    run.analysed(gs.qual)
    loops = [s for s in body_walk(gs.node) if isinstance(s, ast.For)]
    ok = len(loops) == 1 and isinstance(loops[0].iter, ast.Call) and u(loops[0].iter.func) == "sorted" \
        and {k.arg: u(k.value) for k in loops[0].iter.keywords} == {"reverse": "True"}
    run.check(ok, "C03.ORD", gs.qual, u(loops[0].iter) if loops else "loop",
              "get_status does not sweep sorted(<bucket>, reverse=True) with the proposals' own order",
              node=gs.node, file=gs.file)


def check_repl(run: Run, prog: Program) -> None:
    ct = prog.func(f"{MAT}:Matryoshka.calculate_target_power")
    cfg = CFG(ct.node, ct.file)
    adds = nodes_with_call(cfg, lambda c: isinstance(c.func, ast.Attribute) and c.func.attr == "add")
    if len(adds) != 1:
        raise AnalysisError(f"{ct.qual}: expected one bucket.add(...)")
    add = find_calls(cfg.nodes[adds[0]].ast, lambda c: isinstance(c.func, ast.Attribute) and c.func.attr == "add")[0]  # type: ignore[arg-type]
    bucket, item = u(add.func.value), u(add.args[0])  # type: ignore[union-attr]
    removes = nodes_with_call(cfg, lambda c: method_call(c, bucket, "remove") or method_call(c, bucket, "discard"))
    tests = [t for t in cfg.nodes if t.kind == "test" and t.ast is not None
             and canon(t.ast) == ("in", item, bucket)]
    ok = False
    wit = None
    discard = [r for r in removes if "discard" in u(cfg.nodes[r].ast)]
    if discard:
        wit = cfg.path(cfg.entry, adds, avoid=discard)
        ok = wit is None
    elif removes and len(tests) == 1:
        t = tests[0]
        t_true = [m for m, lab in cfg.succ[t.id] if lab == "true"]
        ok = t_true == removes[:1]
        if ok:
            wit = cfg.path(cfg.entry, adds, avoid=[t.id])
            ok = wit is None
        if ok:
            rm = find_calls(cfg.nodes[removes[0]].ast, lambda c: True)[0]  # type: ignore[arg-type]
            ok = [u(a) for a in rm.args] == [item]
    run.check(ok, "C03.REPL", ct.qual, f"if {item} in {bucket}: {bucket}.remove({item}); {bucket}.add({item})",
              "a new proposal is add()-ed without first removing the equal (same actor) element: "
              "set.add keeps the old object, so the actor's previous proposal stays in force",
              node=ct.node, file=ct.file, path=cfg.describe_path(wit))
    # the bucket is this group's bucket
    defs = [n.ast for n in cfg.nodes if isinstance(n.ast, ast.Assign) and u(n.ast.targets[0]) == bucket]
    ok = len(defs) == 1 and u(defs[0].value).replace(" ", "") == f"self._component_buckets.setdefault({ct.params[1]},set())"
    run.check(ok, "C03.REPL", ct.qual, f"{bucket} = self._component_buckets.setdefault(component_ids, set())",
              "the proposal is not stored in this component group's bucket", node=ct.node, file=ct.file)


def check_age(run: Run, prog: Program) -> None:
    fn = prog.func(f"{MAT}:Matryoshka.drop_old_proposals")
    run.analysed(fn.qual)
    brk = [n for n in body_walk(fn.node) if isinstance(n, (ast.Break, ast.Return))]
    run.check(not brk, "C03.AGE", fn.qual, "no early exit",
              "the expiry sweep can stop early (break/return): some expired proposals keep counting",
              node=brk[0] if brk else fn.node, file=fn.file)
    outer = [s for s in fn.node.body if isinstance(s, ast.For)]
    ok = len(outer) == 1 and u(outer[0].iter) == "self._component_buckets.values()"
    run.check(ok, "C03.AGE", fn.qual, "for bucket in self._component_buckets.values()",
              "not every bucket is swept for expired proposals", node=fn.node, file=fn.file)
    if not ok:
        return
    bucket = u(outer[0].target)
    lt = fn.params[1]

    def is_old(test: ast.AST, pv: str) -> bool:
        return canon(test) == ("<", "self._max_proposal_age_sec", f"{lt} - {pv}.creation_time")

    verdict: bool | None = None
    # idiom (a): collect into a list, then remove each collected element
    for t in (n for n in ast.walk(outer[0]) if isinstance(n, ast.If)):
        loop = next((n for n in ast.walk(outer[0]) if isinstance(n, ast.For)
                     and any(x is t for x in n.body)), None)
        if loop is None:
            continue
        pv = u(loop.target)
        src = u(loop.iter).replace(" ", "")
        if src == bucket and is_old(t.test, pv) and not t.orelse and len(t.body) == 1 \
                and isinstance(t.body[0], ast.Expr) and isinstance(t.body[0].value, ast.Call) \
                and isinstance(t.body[0].value.func, ast.Attribute) \
                and t.body[0].value.func.attr == "append" \
                and [u(a) for a in t.body[0].value.args] == [pv]:
            coll = u(t.body[0].value.func.value)
            rm = [n for n in ast.walk(outer[0]) if isinstance(n, ast.For) and u(n.iter) == coll]
            verdict = len(rm) == 1 and len(rm[0].body) == 1 and u(rm[0].body[0]) in (
                f"{bucket}.remove({u(rm[0].target)})", f"{bucket}.discard({u(rm[0].target)})")
        # idiom (b): iterate over a copy and remove in place
        elif src in (f"list({bucket})", f"tuple({bucket})", f"{bucket}.copy()", f"set({bucket})") \
                and is_old(t.test, pv) and not t.orelse and len(t.body) == 1 \
                and u(t.body[0]) in (f"{bucket}.remove({pv})", f"{bucket}.discard({pv})"):
            verdict = True
        elif src == bucket and is_old(t.test, pv):
            verdict = False  # mutating the set while iterating it / not removing
    # idiom (c): bucket -= {p for p in bucket if old}
    for n in ast.walk(outer[0]):
        if isinstance(n, ast.AugAssign) and isinstance(n.op, ast.Sub) and u(n.target) == bucket \
                and isinstance(n.value, ast.SetComp) and len(n.value.generators) == 1:
            g = n.value.generators[0]
            if u(g.iter) == bucket and len(g.ifs) == 1 and u(n.value.elt) == u(g.target):
                verdict = is_old(g.ifs[0], u(g.target))
    if verdict is None:
        tests = [n for n in ast.walk(outer[0]) if isinstance(n, (ast.If, ast.comprehension))]
        if not any("creation_time" in u(t) for t in tests):
            verdict = False
        else:
            # an age test exists but in a shape we do not know: is it the right comparison at least?
            ages = [t.test for t in tests if isinstance(t, ast.If) and "creation_time" in u(t.test)]
            pvs = [u(n.target) for n in ast.walk(outer[0]) if isinstance(n, ast.For)]
            if ages and not any(is_old(a, pv) for a in ages for pv in pvs):
                verdict = False
            else:
                raise AnalysisError(f"{fn.qual}: expiry idiom not recognised (known: collect+remove, "
                                    "iterate-over-copy+remove, set-comprehension difference)")
    run.check(bool(verdict), "C03.AGE", fn.qual, "every proposal with loop_time - creation_time > max_age is removed",
              "the expiry sweep does not remove exactly the proposals with `loop_time - creation_time "
              "> max_proposal_age` from the bucket", node=fn.node, file=fn.file)
    ag = prog.func(f"{MAT}:Matryoshka.__init__")
    ok = any(isinstance(n, ast.Assign) and u(n.targets[0]) == "self._max_proposal_age_sec"
             and u(n.value) == f"{ag.params[1]}.total_seconds()" for n in body_walk(ag.node))
    run.check(ok, "C03.AGE", ag.qual, "self._max_proposal_age_sec = max_proposal_age.total_seconds()",
              "the configured maximum age is not what the expiry test compares against",
              node=ag.node, file=ag.file)
    # the actor expires both groups on the timer branch
    rn = prog.func(f"{ACTOR}._run")
    run.analysed(rn.qual)
    calls = find_calls(rn.node, lambda c: isinstance(c.func, ast.Attribute) and c.func.attr == "drop_old_proposals")
    groups = sorted(u(c.func.value) for c in calls)  # type: ignore[union-attr]
    ok = groups == ["self._set_op_power_group", "self._set_power_group"] and all(
        u(c.args[0]) == "asyncio.get_event_loop().time()" for c in calls)
    if ok:
        branch = None
        for n in ast.walk(rn.node):
            if isinstance(n, ast.If) and "drop_old_proposals_timer" in u(n.test):
                if all(any(x is c for x in ast.walk(ast.Module(body=n.body, type_ignores=[]))) for c in calls):
                    branch = n
        ok = branch is not None
    run.check(ok, "C03.AGE", rn.qual, "timer branch expires both groups with the loop time",
              f"expiry is not applied to both proposal groups on the timer branch (found {groups})",
              node=rn.node, file=rn.file)


CONTROLS = [
    ("wrong bound in the (True, False) arm", BOUNDS,
     "                if value < exclusion_bounds.upper:\n                    return None, exclusion_bounds.upper",
     "                if value < exclusion_bounds.upper:\n                    return None, lower_bound", "C03.ENV"),
    ("clamp before the exclusion check", BOUNDS,
     "    if value > upper_bound:\n        return None, upper_bound\n",
     "    if value >= lower_bound:\n        return None, upper_bound\n", "C03.ENV"),
    ("zone upper edge closed", BOUNDS,
     "        if exclusion_bounds.lower < value < exclusion_bounds.upper:\n            return exclusion_bounds.lower, exclusion_bounds.upper",
     "        if exclusion_bounds.lower < value <= exclusion_bounds.upper:\n            return exclusion_bounds.lower, exclusion_bounds.lower",
     "C03.ENV"),
    ("bucket.remove deleted", MAT,
     "            if proposal in bucket:\n                bucket.remove(proposal)\n", "", "C03.REPL"),
    ("age compared the wrong way", MAT,
     "(loop_time - proposal.creation_time) > self._max_proposal_age_sec",
     "(loop_time - proposal.creation_time) < self._max_proposal_age_sec", "C03.AGE"),
    ("hash on source_id only", BASE, "return hash((self.priority, self.source_id))",
     "return hash(self.source_id)", "C03.ORD"),
    ("narrowing without adjusting to the zone widens past the system bound", MAT,
     "            lower_bound = max(lower_bound, proposal_lower)\n",
     "            lower_bound = min(lower_bound, proposal_lower)\n", "C03.ENV"),
]


def env_rules(run: Run, prog: Program, tier: str = "quick") -> None:
    check_clamp(run, prog)
    check_adjust(run, prog)
    check_sweep(run, prog, tier)
    if tier == "thorough":
        check_end_to_end(run, prog, 1, SHAPES_ALL)
        check_end_to_end(run, prog, 2, SHAPES_SPLIT)


def other_rules(run: Run, prog: Program) -> None:
    check_pure(run, prog)
    check_ord(run, prog)
    check_repl(run, prog)
    check_age(run, prog)


def run_rules(run: Run, prog: Program, tier: str = "quick") -> None:
    env_rules(run, prog, tier)
    check_pure(run, prog)
    check_ord(run, prog)
    check_repl(run, prog)
    check_age(run, prog)


def check(run: Run, prog: Program, tier: str) -> str:
    run.rule("C03.ENV", "order-domain post-conditions of clamp_to_bounds / adjust_exclusion_bounds and "
             "the inductive step + prologue of the _calc_target_power sweep, for every weak ordering")
    run.rule("C03.PURE", "the target computation uses no instance state, gets (bucket, bounds), is "
             "recomputed whenever a bucket exists, and only its fresh value is stored/returned")
    run.rule("C03.ORD", "sweeps iterate sorted(bucket, reverse=True); Proposal <, ==, hash share the "
             "(priority, source_id) key and < is lexicographic")
    run.rule("C03.REPL", "the equal element is removed before bucket.add(proposal)")
    run.rule("C03.AGE", "drop_old_proposals removes every proposal older than max_age from every "
             "bucket; the actor expires both groups on the timer")
    check_quantity_truthiness(run)
    run_rules(run, prog, tier)
    run.floor("C03.ENV", 300)
    run.floor("C03.PURE", 6)
    run.floor("C03.ORD", 6)
    run.floor("C03.REPL", 2)
    run.floor("C03.AGE", 5)
    from ..engine.controls import run_controls

    run_controls(run, CONTROLS, run_rules, tier,
                 select=lambda expect: env_rules if expect == "C03.ENV" else other_rules)
    run.assume("system bounds satisfy lower <= 0 <= upper and the exclusion zone contains 0 "
               "(the property's quantifier)")
    run.extra_cov["exhaustive"] = True
    return ("Order-domain abstract interpretation of the AST: every weak ordering of the symbolic "
            "inputs consistent with the preconditions is explored lazily (three-way forks on "
            "undecided comparisons). clamp_to_bounds and adjust_exclusion_bounds are decided in "
            "full; the sweep is decided by induction (prologue + one generic iteration with every "
            "proposal shape), which covers any number of proposals. History-freedom, ordering, "
            "replacement and expiry are effect / sibling / path rules.")
