"""Dataflow helpers for the C02 checker (bounds discipline of the battery distribution algorithm).

Nothing here looks at local-variable names or statement positions:

  Regions      a function is cut into its top-level region and one region per loop body; each
               region is walked by the symbolic path walker (sa/engine/sympath.py), so every rule
               sees per path the conditions taken, the calls / attribute / subscript writes in
               evaluation order with all locals substituted, and the final local environment.
               Fresh mutable objects (`d = {}`) keep their name, so that a dict's identity is the
               name it was created under and not the text `{}`.
  Roles        which private parameter of `_distribute_power`, `_compute_battery_availability_ratio`
               and `_distribute_multi_inverter_pairs` carries the inclusion bounds / exclusion bounds
               / SoC headroom is derived from the call chain: `_inclusion_exclusion_bounds` returns
               (dict written from *inclusion* attributes, dict written from *exclusion* attributes),
               the consume/supply entry points hand the two results and their headroom dict to
               `_distribute_power`, which hands its parameters on.
  MinMax       TermEval with a registry of min/max atoms, to decide `v <= cap` from the shape
               `rest + min(.., cap - rest, ..)`.
  zero tests   `is_close_to_zero(x)`, `math.isclose(x, 0)`, `x == 0`, `x <= 0`, `x > 0`, `x != 0` and
               their mirrored forms, read off the atomic path conditions.
"""
from __future__ import annotations

import ast
import copy
from dataclasses import dataclass, field
from types import SimpleNamespace
from typing import Any, Callable, Iterable

from ..engine.normalize import inline_helpers, positional
from ..engine.report import AnalysisError
from ..engine.resolver import FuncInfo, Program, walk_no_nested
from ..engine.sympath import Effect, Path, SymExec
from ..engine.terms import Poly, TermEval
from ..engine.util import u

MOD = "microgrid._power_distributing._distribution_algorithm._battery_distribution_algorithm"
BDA = f"{MOD}:BatteryDistributionAlgorithm"
BMM = "microgrid._power_distributing._component_managers._battery_manager"
BM = f"{BMM}:BatteryManager"

_FRESH = (ast.Dict, ast.List, ast.Set, ast.ListComp, ast.DictComp, ast.SetComp)


class _Sym(SymExec):
    """Symbolic walker in which a name bound to a fresh mutable object keeps denoting that object."""

    def _bind(self, p: Path, target: ast.AST, value: ast.AST, lineno: int) -> None:
        if isinstance(target, ast.Name):
            p.env.pop(NEW + target.id, None)
        if isinstance(target, ast.Name) and isinstance(value, _FRESH):
            p.env.pop(target.id, None)
            p.env[NEW + target.id] = value      # how the object was created (never substituted: not a name)
            return
        super()._bind(p, target, value, lineno)


NEW = "<new>"


def created_as(p: Path, name: str) -> ast.AST | None:
    """The display / comprehension the fresh object currently called `name` was created from."""
    return p.env.get(NEW + name)


def _strip_doc(body: list[ast.stmt]) -> list[ast.stmt]:
    if body and isinstance(body[0], ast.Expr) and isinstance(body[0].value, ast.Constant) \
            and isinstance(body[0].value.value, str):
        return body[1:]
    return body


@dataclass
class Region:
    kind: str                                   # top | loop | else
    loop: ast.stmt | None                       # the For / While statement of a loop region
    headers: list[ast.AST]                      # substituted iterables seen on the parent's paths
    paths: list[tuple[Path, str]]               # (path, status next|return|raise|break|continue)
    parent: "Region | None" = None

    @property
    def target(self) -> ast.AST | None:
        return self.loop.target if isinstance(self.loop, (ast.For, ast.AsyncFor)) else None

    def element(self) -> str | None:
        """Name of the loop element when the loop target is a single name."""
        t = self.target
        return t.id if isinstance(t, ast.Name) else None

    def cell_pairs(self) -> list[tuple[str, str]]:
        """(key text, value text) of a loop over a mapping: `for k, v in d.items()` / `for k in d`."""
        t = self.target
        out: list[tuple[str, str]] = []
        if t is None:
            return out
        it = self.loop.iter  # type: ignore[union-attr]
        if isinstance(t, ast.Tuple) and len(t.elts) == 2 and all(isinstance(e, ast.Name) for e in t.elts) \
                and isinstance(it, ast.Call) and isinstance(it.func, ast.Attribute) and it.func.attr == "items" \
                and not it.args:
            out.append((u(t.elts[0]), u(t.elts[1])))
        elif isinstance(t, ast.Name) and isinstance(it, ast.Name):
            out.append((t.id, f"{it.id}[{t.id}]"))
        elif isinstance(t, ast.Name) and isinstance(it, ast.Call) and isinstance(it.func, ast.Attribute) \
                and it.func.attr == "keys" and not it.args:
            out.append((t.id, f"{u(it.func.value)}[{t.id}]"))
        return out


_MEMO: list[Any] = [None, {}, {}, None]  # [program, prepared functions, regions per prepared node, anchors]

# the private functions of the algorithm by role; the names are only the fall-back when a role cannot be
# bound by dataflow from the public entry point (see `anchors`)
HINT = {"consume": "_distribute_consume_power", "supply": "_distribute_supply_power", "dp": "_distribute_power",
        "ieb": "_inclusion_exclusion_bounds", "ar": "_compute_battery_availability_ratio",
        "greedy": "_greedy_distribute_remaining_power", "mip": "_distribute_multi_inverter_pairs"}


def _reset(prog: Program) -> None:
    if _MEMO[0] is not prog:
        _MEMO[:] = [prog, {}, {}, None]
        _MEMO_BIND.clear()


def _self_call(e: ast.AST, methods: Any) -> str | None:
    """Name of the method when `e` is `self.<m>(...)` / `cls.<m>(...)` / `<Class>.<m>(...)` of the class."""
    if isinstance(e, ast.Call) and isinstance(e.func, ast.Attribute) and isinstance(e.func.value, ast.Name) \
            and e.func.attr in methods:
        return e.func.attr
    return None


def _item0(e: ast.AST | None, methods: Any) -> str | None:
    """m when `e` is `self.<m>(...)[0]`."""
    if isinstance(e, ast.Subscript) and isinstance(e.slice, ast.Constant) and e.slice.value == 0:
        return _self_call(e.value, methods)
    return None


def anchors(prog: Program) -> dict[str, str]:
    """Role -> method name of BatteryDistributionAlgorithm, bound by who calls whom with what, starting at the
    public `distribute_power`:
      consume / supply  the methods it returns on the path where `0 < power` is true / false;
      ieb, dp           in the consume method: the callee whose result items are arguments of another callee,
                        and that other callee;
      ar                in dp: the callee whose first result item is iterated by the loop that creates cells;
      mip               in dp: the callee whose first result item is the `distribution` of the returned result;
      greedy            in dp: the callee whose first result item is handed to mip.
    A role that cannot be bound this way keeps its customary name (hint)."""
    _reset(prog)
    if _MEMO[3] is not None:
        return _MEMO[3]
    out = dict(HINT)
    try:
        methods = prog.cls(BDA).methods
    except (AnalysisError, KeyError):
        methods = {}

    def top(name: str) -> list[tuple[Path, str]]:
        return _regions(methods[name].node)[0].paths

    try:
        pub = methods.get("distribute_power")
        if pub is not None:
            prm = _params(pub)
            pos: dict[bool, set[str]] = {True: set(), False: set()}
            calls: dict[bool, list[ast.Call]] = {True: [], False: []}
            for p, _st in top("distribute_power"):
                m = _self_call(p.ret, methods) if p.exit == "return" and p.ret is not None else None
                if m is None or not prm:
                    continue
                decided = False
                for zero in ("0.0", "0"):
                    o = p.outcome(("<", zero, prm[0]))
                    if o is None and p.outcome(("<", prm[0], zero)) is not None:
                        o = not p.outcome(("<", prm[0], zero))
                    if o is not None:
                        pos[o].add(m)
                        calls[o].append(p.ret)  # type: ignore[arg-type]
                        decided = True
                if not decided and not _is_zero_request_exit(p, prm[0]):
                    # one call for both signs: the direction travels in an argument
                    for o in (True, False):
                        pos[o].add(m)
                        calls[o].append(p.ret)  # type: ignore[arg-type]
            if len(pos[True]) == 1 and len(pos[False]) == 1:
                out["consume"], out["supply"] = next(iter(pos[True])), next(iter(pos[False]))
                if out["consume"] == out["supply"] and out["consume"] in methods:
                    # sibling entry points merged into one function parametrised by the direction: each
                    # direction is that function with the direction parameter fixed to what it is called with
                    merged = methods[out["consume"]]
                    for positive in (True, False):
                        bind: dict[str, bool] = {}
                        for c in calls[positive]:
                            for k, a in positional(c, _params(merged)).items():
                                v = _truth(a, prm[0], positive)
                                if v is not None:
                                    bind[k] = v
                        _MEMO_BIND["consume" if positive else "supply"] = bind
        if out["consume"] in methods:
            for p, _st in top(out["consume"]):
                for e in p.calls():
                    m = _self_call(e.node, methods)
                    srcs = {_self_call(a.value, methods) for a in list(e.node.args) + [k.value for k in e.node.keywords]  # type: ignore[attr-defined]
                            if isinstance(a, ast.Subscript) and isinstance(a.slice, ast.Constant)}
                    srcs.discard(None)
                    if m is not None and len(srcs) == 1:
                        out["dp"], out["ieb"] = m, next(iter(srcs))  # type: ignore[assignment]
        if out["dp"] in methods:
            dpn = methods[out["dp"]].node
            rf = None
            for p, _st in top(out["dp"]):
                for e in p.effects:
                    if e.kind == "loop" and any(isinstance(n, ast.Call) and u(n.func) == "_Power" for n in ast.walk(e.orig)):
                        m = _item0(e.node, methods)
                        if m is not None:
                            out["ar"] = m
                if p.exit == "return" and isinstance(p.ret, ast.Call) and u(p.ret.func) == "DistributionResult":
                    if rf is None:
                        rf = fields_of(prog, f"{MOD}:DistributionResult")
                    d = positional(p.ret, rf).get(rf[0])
                    m = _item0(d, methods)
                    if m is not None:
                        out["mip"] = m
                        for a in list(d.value.args) + [k.value for k in d.value.keywords]:  # type: ignore[union-attr]
                            g = _item0(a, methods)
                            if g is not None:
                                out["greedy"] = g
            del dpn
    except AnalysisError:
        out = dict(HINT)
    _MEMO[3] = out
    return out


_MEMO_BIND: dict[str, dict[str, bool]] = {}      # entry role -> parameters fixed to a constant (merged entry points)


def _is_zero_request_exit(p: Path, request: str) -> bool:
    return any(zero_test(atom, request) is not None and o == zero_test(atom, request) for _k, _ko, atom, _ln, o in p.conds)


def _truth(a: ast.AST, request: str, positive: bool) -> bool | None:
    """Truth value of a direction argument for a positive / negative request: a boolean constant, or a
    comparison of the request with zero."""
    if isinstance(a, ast.Constant) and isinstance(a.value, bool):
        return a.value
    if isinstance(a, ast.UnaryOp) and isinstance(a.op, ast.Not):
        v = _truth(a.operand, request, positive)
        return None if v is None else not v
    if isinstance(a, ast.Compare) and len(a.ops) == 1:
        left, op, right = a.left, a.ops[0], a.comparators[0]
        if u(right) == request and _zero_const(left):
            left, right = right, left
            op = {ast.Lt: ast.Gt, ast.Gt: ast.Lt, ast.LtE: ast.GtE, ast.GtE: ast.LtE}.get(type(op), type(op))()
        if u(left) == request and _zero_const(right):
            if isinstance(op, (ast.Lt, ast.LtE)):
                return not positive
            if isinstance(op, (ast.Gt, ast.GtE)):
                return positive
    return None


def entry_bind(prog: Program, role: str) -> dict[str, bool]:
    """Parameters of the (merged) entry function that are fixed for `role`."""
    anchors(prog)
    return dict(_MEMO_BIND.get(role) or {})


def entry(prog: Program, role: str) -> FuncInfo:
    """The function that serves requests of one sign (role consume / supply), prepared; for merged entry
    points the direction parameter is fixed to the constant that direction is called with."""
    anchors(prog)
    base = prep(prog, q(prog, role))
    bind = _MEMO_BIND.get(role) or {}
    if not bind:
        return base
    key = f"{base.qual}#{role}"
    got = _MEMO[1].get(key)
    if got is None:
        node = copy.deepcopy(base.node)
        pre = [ast.Assign(targets=[ast.Name(id=k, ctx=ast.Store())], value=ast.Constant(v)) for k, v in bind.items()]
        body = list(node.body)
        at_ = 1 if _strip_doc(body) is not body else 0
        node.body = body[:at_] + pre + body[at_:]
        ast.fix_missing_locations(node)
        got = _MEMO[1][key] = FuncInfo(base.name, base.module, node, base.cls, base.outer)
    return got


INLINABLE = ("greedy", "mip")       # roles that the allocation function may play itself (helper inlined)


def has(prog: Program, role: str) -> bool:
    """Is there a function of its own for `role`?  (greedy / mip may be inlined into the allocation function:
    their obligations are then decided on its paths.)"""
    try:
        return anchors(prog)[role] in prog.cls(BDA).methods
    except (AnalysisError, KeyError):
        return False


def q(prog: Program, role: str) -> str:
    """Qualified name of the function that plays `role` (the allocation function for an inlined role)."""
    if role in INLINABLE and not has(prog, role):
        role = "dp"
    return f"{BDA}.{anchors(prog)[role]}"


def sc(prog: Program, role: str) -> str:
    """Text of the callee of a call of the function that plays `role`."""
    return f"self.{anchors(prog)[role]}"


def regions(fn: ast.FunctionDef | ast.AsyncFunctionDef, max_paths: int = 4096) -> list[Region]:
    """Top-level region plus one region per (nested) loop body, each walked symbolically (memoised for
    the functions prepared by `prep`; the result is read-only)."""
    got = _MEMO[2].get(id(fn))
    if got is not None and got[0] is fn:
        return got[1]
    out = _regions(fn, max_paths)
    if any(f.node is fn for f in _MEMO[1].values()):
        _MEMO[2][id(fn)] = (fn, out)
    return out


def _regions(fn: ast.FunctionDef | ast.AsyncFunctionDef, max_paths: int = 4096) -> list[Region]:
    se = _Sym(max_paths)
    top_paths = se.block(Path(), list(_strip_doc(fn.body)))
    for p, st in top_paths:
        if st == "next":
            p.exit, p.ret, p.lineno = "fall", None, getattr(fn, "end_lineno", 0) or 0
    out = [Region("top", None, [], top_paths)]
    once: dict[str, int] = {}           # how often a local is bound anywhere in the function
    for n in ast.walk(fn):
        if isinstance(n, ast.Name) and isinstance(n.ctx, (ast.Store, ast.Del)):
            once[n.id] = once.get(n.id, 0) + 1
    i = 0
    while i < len(out):
        r = out[i]
        i += 1
        found: dict[int, tuple[ast.AST, list[ast.AST], list[Path]]] = {}
        for p, _st in r.paths:
            for e in p.effects:
                if e.kind == "loop" and e.orig is not None:
                    ent = found.setdefault(id(e.orig), (e.orig, [], []))
                    ent[1].append(e.node)
                    ent[2].append(p)
        for loop, headers, through in found.values():
            start = _inherited(loop, through)
            consts = {k: v for k, v in _const_env(loop, through).items() if once.get(k, 0) <= 1}
            body = list(loop.body)  # type: ignore[attr-defined]
            out.append(Region("loop", loop, headers,
                              _Sym(max_paths).block(Path(conds=list(start), env=dict(consts)), body), r))
            if getattr(loop, "orelse", None):
                out.append(Region("else", loop, headers, _Sym(max_paths).block(
                    Path(conds=list(start), env=dict(consts)), list(loop.orelse)), r))  # type: ignore[attr-defined]
    return out


def _const_env(loop: ast.AST, through: list[Path]) -> dict[str, ast.AST]:
    """Locals that hold the same boolean / None constant on every path that runs the loop and that the loop
    does not re-bind: they keep that value inside it (a direction flag decides the branches of the body)."""
    if not through:
        return {}
    rebound = {n.id for n in ast.walk(loop) if isinstance(n, ast.Name) and isinstance(n.ctx, (ast.Store, ast.Del))}
    out: dict[str, ast.AST] = {}
    for name, val in through[0].env.items():
        if name in rebound or not (isinstance(val, ast.Constant) and (isinstance(val.value, bool) or val.value is None)):
            continue
        if all(isinstance(q.env.get(name), ast.Constant) and q.env[name].value is val.value for q in through[1:]):  # type: ignore[union-attr]
            out[name] = val
    return out


def _inherited(loop: ast.AST, through: list[Path]) -> list[tuple[Any, bool, ast.AST, int, bool]]:
    """Conditions that hold whenever the loop is reached: decided before it with the same outcome on every
    path of the enclosing region that runs the loop, and not about anything the loop itself rebinds."""
    if not through:
        return []
    rebound = {n.id for n in ast.walk(loop) if isinstance(n, ast.Name) and isinstance(n.ctx, (ast.Store, ast.Del))}
    written = {u(n) for n in ast.walk(loop) if isinstance(n, (ast.Attribute, ast.Subscript))
               and isinstance(n.ctx, (ast.Store, ast.Del))}
    ln = getattr(loop, "lineno", 0)
    out = []
    for c in through[0].conds:
        key, outcome, atom, cl, _o = c
        if cl >= ln or any(q.outcome(key) is not outcome for q in through[1:]):
            continue
        if any(isinstance(n, ast.Name) and n.id in rebound for n in ast.walk(atom)):
            continue
        text = u(atom)
        if any(w in text for w in written):
            continue
        out.append(c)
    return out


def helper_returns(prog: Program, fn: FuncInfo, call: ast.AST) -> list[tuple[Path, ast.AST | None]] | None:
    """Symbolic results of a call of a private (non-anchored) helper of `fn`'s class / module, with the
    parameters bound to the (already substituted) arguments: boolean constant arguments decide the helper's
    branches.  None when the callee is not such a helper."""
    from ..engine.normalize import ANCHOR_NAMES, _bind, _helper_target

    if not isinstance(call, ast.Call):
        return None
    h = _helper_target(prog, fn, call, {})
    if h is None or h.name in ANCHOR_NAMES:
        return None
    binds = _bind(h, call)
    if binds is None:
        return None
    start = Path()
    start.env = dict(binds)
    out: list[tuple[Path, ast.AST | None]] = []
    for p, st in _Sym().block(start, list(_strip_doc(h.body))):
        if st == "return":
            out.append((p, p.ret))
        elif st == "next":
            out.append((p, None))
    return out


def table_sources(prog: Program, fn: FuncInfo, p: Path, expr: ast.AST | None, depth: int = 2) -> list[tuple[str, Any]] | None:
    """Where a table comes from: [('stores', name)] for a fresh empty dict filled by subscript stores,
    ('comp', DictComp) for a dict comprehension, followed through locals and private helpers; None: unknown."""
    if isinstance(expr, ast.DictComp):
        return [("comp", expr)]
    if isinstance(expr, ast.Name):
        made = created_as(p, expr.id)
        if isinstance(made, ast.Dict) and not made.keys:
            return [("stores", expr.id)]
        if isinstance(made, ast.DictComp):
            return [("comp", made)]
        return None
    if isinstance(expr, ast.Call) and depth > 0:
        rets = helper_returns(prog, fn, expr)
        if not rets:
            return None
        out: list[tuple[str, Any]] = []
        for hp, ret in rets:
            got = table_sources(prog, fn, hp, ret, depth - 1)
            if got is None or any(k == "stores" for k, _ in got):
                return None
            out.extend(got)
        return out
    return None


def value_before(fn: Any, names: list[str]) -> list[ast.AST] | None:
    """Symbolic values of the locals `names` (aliases of one quantity) when the first loop (in program order,
    wherever it is nested) that re-binds one of them is reached, one per path reaching it; None when there
    is no such loop or none of the names is bound there."""
    body = copy.deepcopy(list(_strip_doc(fn.body)))
    mark = -7

    def cut(stmts: list[ast.stmt]) -> bool:
        for i, st in enumerate(stmts):
            if isinstance(st, (ast.For, ast.AsyncFor, ast.While)):
                if any(isinstance(n, ast.Name) and isinstance(n.ctx, ast.Store) and n.id in names for n in ast.walk(st)):
                    ret = ast.Return(value=ast.Tuple(elts=[ast.Name(id=n, ctx=ast.Load()) for n in names], ctx=ast.Load()))
                    stmts[i] = ast.fix_missing_locations(ast.copy_location(ret, st))
                    stmts[i].lineno = mark
                    del stmts[i + 1:]
                    return True
                continue
            if isinstance(st, (ast.FunctionDef, ast.AsyncFunctionDef, ast.ClassDef)):
                continue
            for f in ("body", "orelse", "finalbody"):
                sub = getattr(st, f, None)
                if isinstance(sub, list) and sub and isinstance(sub[0], ast.stmt) and cut(sub):
                    return True
            for h in getattr(st, "handlers", []) or []:
                if cut(h.body):
                    return True
        return False

    if not cut(body):
        return None
    out: list[ast.AST] = []
    for p, st in _Sym().block(Path(), body):
        if st != "return" or p.lineno != mark or not isinstance(p.ret, ast.Tuple):
            continue
        bound = [v for n, v in zip(names, p.ret.elts) if not (isinstance(v, ast.Name) and v.id == n)]
        if not bound:
            return None
        out.extend(bound)
    return out or None


def prep(prog: Program, qual: str) -> FuncInfo:
    """The anchored function with simple private helpers spliced into it (analysis-only copy; memoised per
    program)."""
    _reset(prog)
    got = _MEMO[1].get(qual)
    if got is None:
        fn = prog.func(qual)
        keep = set(anchors(prog).values())
        node = inline_helpers(prog, fn, node=splice_blocks(prog, fn, keep), exclude=keep)
        got = _MEMO[1][qual] = FuncInfo(fn.name, fn.module, node, fn.cls, fn.outer)
    return got


class _Rename(ast.NodeTransformer):
    def __init__(self, ren: dict[str, str], sub: dict[str, ast.AST]) -> None:
        self.ren, self.sub = ren, sub

    def visit_Name(self, node: ast.Name) -> ast.AST:  # noqa: N802
        if node.id in self.ren:
            return ast.copy_location(ast.Name(id=self.ren[node.id], ctx=node.ctx), node)
        if isinstance(node.ctx, ast.Load) and node.id in self.sub:
            return ast.copy_location(copy.deepcopy(self.sub[node.id]), node)
        return node

    def visit_Lambda(self, node: ast.Lambda) -> ast.AST:  # noqa: N802
        bound = {a.arg for a in node.args.args + node.args.kwonlyargs + node.args.posonlyargs}
        node.body = _Rename({k: v for k, v in self.ren.items() if k not in bound},
                            {k: v for k, v in self.sub.items() if k not in bound}).visit(node.body)
        return node


def _plain(e: ast.AST) -> bool:
    """An argument that can stand for the parameter wherever it is read (no call, nothing created)."""
    return all(isinstance(n, (ast.Name, ast.Attribute, ast.Subscript, ast.Constant, ast.Load, ast.UnaryOp, ast.USub,
                              ast.BinOp, ast.Mult, ast.Add, ast.Sub)) for n in ast.walk(e))


def _returns_in(st: ast.AST) -> bool:
    return any(isinstance(n, ast.Return) for n in walk_no_nested(st))


def _single_exit(stmts: list[ast.stmt], result: str | None) -> list[ast.stmt] | None:
    """The statement list without `return`: a return becomes an assignment to `result` (dropped for bare
    returns) and ends its branch; the statements after an `if` that may return are moved into the branches
    that fall through.  None when a return sits inside a loop / try / with / match."""
    out: list[ast.stmt] = []
    for i, st in enumerate(stmts):
        if isinstance(st, ast.Return):
            if result is not None:
                out.append(ast.copy_location(ast.Assign(
                    targets=[ast.Name(id=result, ctx=ast.Store())],
                    value=st.value if st.value is not None else ast.Constant(None)), st))
            return out
        if isinstance(st, ast.If) and _returns_in(st):
            rest = stmts[i + 1:]
            body = _single_exit(list(st.body) + copy.deepcopy(rest), result)
            orelse = _single_exit(list(st.orelse) + copy.deepcopy(rest), result)
            if body is None or orelse is None:
                return None
            new = ast.If(test=st.test, body=body or [ast.copy_location(ast.Pass(), st)], orelse=orelse)
            out.append(ast.copy_location(new, st))
            return out
        if _returns_in(st):
            return None
        out.append(st)
    return out


def splice_blocks(prog: Program, fn: FuncInfo, keep: Iterable[str] = (), depth: int = 3) -> Any:
    """Splice private (non-anchored) helpers that are a block of statements with at most one trailing return
    into the statement whose whole value is the call (expression statement, plain / annotated / augmented
    assignment, return) — on a copy.  Unlike the engine's splicer this also covers `x += helper(...)` and
    helpers that re-bind a parameter (`def add(total, ...): total += ...; return total`): every local of the
    helper, parameters that are re-bound included, gets a name of its own, re-bound parameters are
    initialised from their argument, the others stand for their (plain) argument."""
    from ..engine.normalize import ANCHOR_NAMES, _bind, _helper_target, _suite_lists

    root = copy.deepcopy(fn.node)
    for _ in range(depth):
        changed = False
        for suite in list(_suite_lists(root)):
            i = 0
            while i < len(suite):
                st = suite[i]
                i += 1
                val = getattr(st, "value", None) if isinstance(
                    st, (ast.Expr, ast.Assign, ast.AnnAssign, ast.AugAssign, ast.Return)) else None
                if not isinstance(val, ast.Call):
                    continue
                h = _helper_target(prog, fn, val, {})
                if h is None or h.name in ANCHOR_NAMES or h.name in keep or h.name == fn.node.name \
                        or isinstance(h, ast.AsyncFunctionDef):
                    continue
                if any(not (isinstance(d, ast.Name) and d.id in ("staticmethod", "override")) for d in h.decorator_list):
                    continue
                body = _strip_doc(h.body)
                rets = [n for b in body for n in walk_no_nested(b) if isinstance(n, ast.Return)]
                if not body or len(body) > 40:
                    continue
                if len(body) == 1 and rets:
                    continue            # a single expression: the engine's splicer handles it in place
                if len(rets) > 1 or (rets and rets[0] is not body[-1]):
                    # early / several returns: bring the body into single-exit form first (the statements
                    # after a returning `if` move into the branches that fall through)
                    res_name = "result" if any(r.value is not None for r in rets) else None
                    flat = _single_exit(copy.deepcopy(body), res_name)
                    if flat is None:
                        continue
                    body = flat
                    if res_name is not None:
                        body = [ast.Assign(targets=[ast.Name(id=res_name, ctx=ast.Store())], value=ast.Constant(None))] \
                            + body + [ast.Return(value=ast.Name(id=res_name, ctx=ast.Load()))]
                    rets = [body[-1]] if res_name is not None else []
                binds = _bind(h, val)
                if binds is None or any(isinstance(n, (ast.Await, ast.Yield, ast.YieldFrom, ast.Global, ast.Nonlocal))
                                        for b in body for n in ast.walk(b)):
                    continue
                tag = h.name.strip("_")
                stored = {n.id for b in body for n in ast.walk(b) if isinstance(n, ast.Name)
                          and isinstance(n.ctx, (ast.Store, ast.Del))}
                ren = {n: f"{n}__{tag}" for n in stored}
                prelude: list[ast.stmt] = []
                sub: dict[str, ast.AST] = {}
                for k, v in binds.items():
                    if k in stored or not _plain(v):
                        ren.setdefault(k, f"{k}__{tag}")
                        prelude.append(ast.Assign(targets=[ast.Name(id=ren[k], ctx=ast.Store())], value=copy.deepcopy(v)))
                    else:
                        sub[k] = v
                rn = _Rename(ren, sub)
                hb = [rn.visit(copy.deepcopy(b)) for b in body]
                tail = hb.pop() if rets else None
                new: list[ast.stmt] = prelude + hb
                if not isinstance(st, ast.Expr):
                    st2 = copy.copy(st)
                    st2.value = tail.value if tail is not None and tail.value is not None else ast.Constant(None)  # type: ignore[union-attr]
                    new.append(st2)
                for x in new:
                    for n in ast.walk(x):
                        if not hasattr(n, "lineno"):
                            ast.copy_location(n, st)
                suite[i - 1:i] = new or [ast.copy_location(ast.Pass(), st)]
                i = i - 1 + len(new or [1])
                changed = True
        if not changed:
            break
    ast.fix_missing_locations(root)
    return root


def at(lineno: int) -> Any:
    """A locator usable as `node=` of a report entry."""
    return SimpleNamespace(lineno=lineno)


def writes(p: Path, pred: Callable[[ast.AST, ast.AST], bool] | None = None) -> list[tuple[Effect, ast.AST, ast.AST]]:
    """(effect, substituted target, substituted value) of the attribute / subscript writes of a path."""
    out = []
    for e in p.effects:
        if e.kind == "write" and isinstance(e.node, ast.Tuple) and len(e.node.elts) == 2:
            t, v = e.node.elts
            if pred is None or pred(t, v):
                out.append((e, t, v))
    return out


def callee(call: ast.AST) -> str:
    return u(call.func) if isinstance(call, ast.Call) else ""


def all_calls(regs: Iterable[Region], name: str) -> list[tuple[Region, Path, Effect]]:
    out = []
    for r in regs:
        for p, _st in r.paths:
            for e in p.effects:
                if e.kind == "call" and callee(e.node) == name:
                    out.append((r, p, e))
    return out


# ------------------------------------------------------------------------------------- terms
class MinMax:
    """Term evaluator that remembers the arguments of every min/max atom it builds."""

    def __init__(self) -> None:
        self.reg: dict[str, tuple[str, list[Poly]]] = {}
        self.te = TermEval(atom_hook=self._hook)

    def _hook(self, e: ast.AST, te: TermEval) -> Poly | None:
        if isinstance(e, ast.Call) and u(e.func) in ("min", "max") and len(e.args) >= 2 and not e.keywords \
                and not any(isinstance(a, ast.Starred) for a in e.args):
            args = [te.ev(a) for a in e.args]
            name = f"{u(e.func)}({', '.join(sorted(repr(a) for a in args))})"
            self.reg[name] = (u(e.func), args)
            return Poly.atom(name)
        return None

    def ev(self, e: ast.AST) -> Poly:
        return self.te.ev(e)

    def capped(self, v: Poly, cap: Poly) -> bool:
        """`v <= cap` follows from the shape alone: v == rest + min(.., a, ..) with rest + a == cap."""
        for mono, coeff in v.terms.items():
            if coeff != 1 or len(mono) != 1 or mono[0][1] != 1:
                continue
            got = self.reg.get(mono[0][0])
            if got is None or got[0] != "min":
                continue
            rest = v - Poly.atom(mono[0][0])
            if any(a + rest == cap for a in got[1]):
                return True
        return False

    def clamp(self, v: Poly) -> tuple[str, list[Poly]] | None:
        """(min|max, arguments) when `v` is a single min/max atom."""
        a = v.as_atom()
        return self.reg.get(a) if a is not None else None


def is_zero(e: ast.AST) -> bool:
    return TermEval().ev(e).is_zero()


# ------------------------------------------------------------------------------------- zero tests
def _zero_const(e: ast.AST) -> bool:
    return isinstance(e, ast.Constant) and not isinstance(e.value, bool) and isinstance(e.value, (int, float)) \
        and e.value == 0


def zero_test(atom: ast.AST, operand: str) -> bool | None:
    """If `atom` tests `operand` against zero: the truth value of the atom on the side where the
    operand is (close to) zero or not positive; None if it is no such test."""
    if isinstance(atom, ast.Call) and atom.args and u(atom.args[0]) == operand and not any(
            isinstance(a, ast.Starred) for a in atom.args):
        name = u(atom.func)
        if name == "is_close_to_zero":
            return True
        if name in ("math.isclose", "isclose") and len(atom.args) >= 2 and _zero_const(atom.args[1]):
            return True
    if isinstance(atom, ast.Compare) and len(atom.ops) == 1:
        left, op, right = atom.left, atom.ops[0], atom.comparators[0]
        if u(left) == operand and _zero_const(right):
            if isinstance(op, (ast.Eq, ast.LtE)):
                return True
            if isinstance(op, (ast.NotEq, ast.Gt)):
                return False
        if u(right) == operand and _zero_const(left):
            if isinstance(op, (ast.Eq, ast.GtE)):
                return True
            if isinstance(op, (ast.NotEq, ast.Lt)):
                return False
    return None


def nonzero_established(p: Path, operand: str) -> bool:
    """Some condition taken on the path says that `operand` is not (close to) zero."""
    for _key, _ko, atom, _ln, outcome in p.conds:
        z = zero_test(atom, operand)
        if z is not None and outcome != z:
            return True
    return False


def negative_established(p: Path, operand: str) -> bool:
    """Some condition taken on the path says that `operand` is below zero."""
    for _key, _ko, atom, _ln, outcome in p.conds:
        if isinstance(atom, ast.Compare) and len(atom.ops) == 1:
            left, op, right = atom.left, atom.ops[0], atom.comparators[0]
            if u(left) == operand and _zero_const(right) and (
                    (isinstance(op, ast.Lt) and outcome) or (isinstance(op, ast.GtE) and not outcome)):
                return True
            if u(right) == operand and _zero_const(left) and (
                    (isinstance(op, ast.Gt) and outcome) or (isinstance(op, ast.LtE) and not outcome)):
                return True
    return False


def test_paths(test: ast.AST) -> list[tuple[Path, bool]]:
    """The atomic decisions of a condition (short-circuit semantics) with the outcome of the whole test."""
    return _Sym().test(Path(), test, getattr(test, "lineno", 0))


def ordered(p: Path, small: str, big: str) -> bool:
    """The path conditions establish `small <= big` in any spelling (strict or not, negated or not)."""
    return (p.outcome(("<=", small, big)) is True or p.outcome(("<", small, big)) is True
            or p.outcome(("<", big, small)) is False or p.outcome(("<=", big, small)) is False)


def strictly(p: Path, small: str, big: str) -> bool:
    """The path conditions establish `small < big`."""
    return p.outcome(("<", small, big)) is True or p.outcome(("<=", big, small)) is False


def at_least(p: Path, small: str, big: str) -> bool:
    """The path conditions establish `small <= big` (as a conjunct: the outcome is fixed on the path)."""
    return (p.outcome(("<=", small, big)) is True or p.outcome(("<", small, big)) is True
            or p.outcome(("<", big, small)) is False)


def settle_minmax(p: Path, e: ast.AST) -> ast.AST:
    """`e` with every two-operand `min(a, b)` / `max(a, b)` whose order the conditions of the path established
    replaced by the operand it selects (`min(share, cap)` is `cap` after `share > cap` was taken, `share` after it
    was refused): merged arms `if A or B: x = min(a, b) - m` store on each path what the separate arms stored."""
    class T(ast.NodeTransformer):
        def visit_Call(self, node: ast.Call) -> ast.AST:  # noqa: N802
            self.generic_visit(node)
            if isinstance(node.func, ast.Name) and node.func.id in ("min", "max") and len(node.args) == 2 \
                    and not node.keywords and not any(isinstance(a, ast.Starred) for a in node.args):
                a, b = node.args
                ta, tb = u(a), u(b)
                if ta == tb:
                    return a
                small = a if ordered(p, ta, tb) else b if ordered(p, tb, ta) else None
                if small is not None:
                    return small if node.func.id == "min" else (b if small is a else a)
            return node
    return T().visit(copy.deepcopy(e))


# ------------------------------------------------------------------------------------- dataclass fields
def fields_of(prog: Program, qual: str) -> list[str]:
    """Field names of a dataclass in declaration order (= positional order of its constructor)."""
    cls = prog.cls(qual)
    out = [s.target.id for s in cls.node.body if isinstance(s, ast.AnnAssign) and isinstance(s.target, ast.Name)]
    if not out:
        raise AnalysisError(f"{qual}: no dataclass fields found")
    return out


def ctor_args(call: ast.Call, fields: list[str], what: str) -> dict[str, ast.AST]:
    if any(isinstance(a, ast.Starred) for a in call.args) or any(k.arg is None for k in call.keywords) \
            or len(call.args) > len(fields):
        raise AnalysisError(f"{what}: constructor arguments cannot be bound to fields: {u(call)}")
    return positional(call, fields)


# ------------------------------------------------------------------------------------- roles
class Wrong(AnalysisError):
    """An anchor was found and understood, and what it does is recognisably not what the property needs:
    reported as a violation of `rule` by the caller (left uncaught it still fails closed)."""

    def __init__(self, rule: str, function: str, construct: str, message: str, file: str = "", lineno: int = 0) -> None:
        super().__init__(f"{function}: {message}")
        self.rule, self.function, self.construct, self.message = rule, function, construct, message
        self.file, self.lineno = file, lineno


@dataclass
class Roles:
    dp: dict[str, str] = field(default_factory=dict)    # role -> parameter of _distribute_power
    ar: dict[str, str] = field(default_factory=dict)    # ... of _compute_battery_availability_ratio
    mip: dict[str, str] = field(default_factory=dict)   # ... of _distribute_multi_inverter_pairs
    headroom: dict[str, tuple[ast.AST, Path]] = field(default_factory=dict)  # entry function -> (headroom argument, path)
    tables: dict[str, str] = field(default_factory=dict)    # table built by _inclusion_exclusion_bounds -> incl|excl
    flag: str | None = None                                 # its direction parameter (true = supply)
    flag_default: ast.AST | None = None
    entry_flag: dict[str, ast.AST | None] = field(default_factory=dict)   # entry function -> flag argument
    entry_args: dict[str, dict[str, ast.AST]] = field(default_factory=dict)  # ... -> arguments of _distribute_power


def _params(fn: FuncInfo) -> list[str]:
    ps = fn.params
    return ps[1:] if ps and ps[0] in ("self", "cls") else ps


def _bounds_result_order(prog: Program, roles: "Roles | None" = None) -> dict[int, str]:
    """index in the result tuple of _inclusion_exclusion_bounds -> 'incl' | 'excl' (from what is stored)."""
    fn = prep(prog, q(prog, "ieb"))
    rets = [n for n in walk_no_nested(fn.node) if isinstance(n, ast.Return)]
    names: list[str] | None = None
    for r in rets:
        if not (isinstance(r.value, ast.Tuple) and len(r.value.elts) == 2 and all(
                isinstance(e, ast.Name) for e in r.value.elts)):
            # some other source of the pair (e.g. a stored one): the order of the pair is bound from the
            # returns that build it here; a result that does not come from this call is C02.PURE's matter
            continue
        got = [e.id for e in r.value.elts]  # type: ignore[attr-defined]
        if names is not None and got != names:
            raise AnalysisError(f"{fn.qual}: returns differ")
        names = got
    if names is None or names[0] == names[1]:
        raise AnalysisError(f"{fn.qual}: no result pair found")
    kinds: dict[str, set[str]] = {n: set() for n in names}
    for r in regions(fn.node):
        for p, _st in r.paths:
            for _e, t, v in writes(p):
                if isinstance(t, ast.Subscript) and isinstance(t.value, ast.Name) and t.value.id in kinds:
                    attrs = {n.attr for n in ast.walk(v) if isinstance(n, ast.Attribute)}
                    k = {("incl" if "inclusion" in a else "excl") for a in attrs if "inclusion" in a or "exclusion" in a}
                    if not k:
                        raise AnalysisError(f"{fn.qual}: cannot classify what is stored into {t.value.id}: {u(v)}")
                    kinds[t.value.id] |= k
    out: dict[int, str] = {}
    for i, n in enumerate(names):
        if len(kinds[n]) != 1:
            raise Wrong("C02.TAB", fn.qual, f"table {n}",
                        f"the bound table `{n}` is written from {' and '.join(sorted(kinds[n])) or 'no'} bounds: "
                        "inclusion and exclusion bounds are mixed in one table", fn.file, fn.node.lineno)
        out[i] = next(iter(kinds[n]))
    if sorted(out.values()) != ["excl", "incl"]:
        raise Wrong("C02.TAB", fn.qual, f"return {', '.join(names)}",
                    "the result is not one inclusion table and one exclusion table", fn.file, fn.node.lineno)
    if roles is not None:
        roles.tables = {n: out[i] for i, n in enumerate(names)}
    return out


def _ieb_index(prog: Program, e: ast.AST) -> int | None:
    if isinstance(e, ast.Subscript) and isinstance(e.slice, ast.Constant) and isinstance(e.slice.value, int) \
            and isinstance(e.value, ast.Call) and callee(e.value) == sc(prog, "ieb"):
        return e.slice.value
    return None


def the_call(regs: list[Region], name: str, fn: FuncInfo, rule: str = "C02.CAP") -> list[tuple[Region, Path, Effect]]:
    got = all_calls(regs, name)
    if not got:
        raise Wrong(rule, fn.qual, f"call of {name}", f"{name.split('.')[-1]} is never called here: its part of "
                    "the bounds discipline is skipped", fn.file, fn.node.lineno)
    return got


def _fold(a: ast.AST) -> ast.AST:
    """`not <boolean constant>` folded."""
    if isinstance(a, ast.UnaryOp) and isinstance(a.op, ast.Not):
        v = _fold(a.operand)
        if isinstance(v, ast.Constant) and isinstance(v.value, bool):
            return ast.copy_location(ast.Constant(not v.value), a)
    return a


def discover_roles(prog: Program, pow_operand: Callable[[FuncInfo, list[Region]], str | None]) -> Roles:
    """Bind the bound-table / headroom parameters of the private allocation functions by dataflow."""
    roles = Roles()
    order = _bounds_result_order(prog, roles)
    dp = prog.func(q(prog, "dp"))
    ar = prog.func(q(prog, "ar"))
    mip = prog.func(q(prog, "mip"))
    ieb = prog.func(q(prog, "ieb"))
    entry_args = roles.entry_args
    entry_paths: dict[str, Path] = {}
    flags: set[str] = set()
    ieb_calls: dict[str, dict[str, ast.AST]] = {}
    for fname in ("consume", "supply"):
        fn = entry(prog, fname)
        regs = regions(fn.node)
        seen: dict[str, str] = {}
        for _r, _p, e in all_calls(regs, sc(prog, "ieb")):
            ieb_calls[fname] = {k: _fold(a) for k, a in positional(e.node, _params(ieb)).items()}  # type: ignore[arg-type]
            flags |= {k for k, a in ieb_calls[fname].items() if isinstance(a, ast.Constant) and isinstance(a.value, bool)}
        dcalls = the_call(regs, sc(prog, "dp"), fn)
        for _r, cp, e in [c for c in dcalls if c[0].kind == "top"] or dcalls:
            args = positional(e.node, _params(dp))  # type: ignore[arg-type]
            entry_args[fname] = args
            entry_paths[fname] = cp
            for prm, a in args.items():
                i = _ieb_index(prog, a)
                if i is not None:
                    if i not in order:
                        raise AnalysisError(f"{fn.qual}: result index {i} of _inclusion_exclusion_bounds")
                    if seen.get(order[i], prm) != prm:
                        raise AnalysisError(f"{fn.qual}: {order[i]} bounds passed twice")
                    seen[order[i]] = prm
        for role in ("incl", "excl"):
            if role not in seen:
                raise Wrong("C02.TAB", fn.qual, "bound tables handed to _distribute_power",
                            f"the {role}usion bounds built by _inclusion_exclusion_bounds do not reach "
                            "_distribute_power", fn.file, fn.node.lineno)
            if roles.dp.setdefault(role, seen[role]) != seen[role]:
                raise AnalysisError(f"{fn.qual}: consume and supply paths pass the bound tables differently")
    # the direction flag of _inclusion_exclusion_bounds (the parameter that receives a boolean constant)
    if len(flags) == 1:
        roles.flag = next(iter(flags))
        a = ieb.node.args
        names = [x.arg for x in a.posonlyargs + a.args]
        defaults = dict(zip(names[len(names) - len(a.defaults):], a.defaults))
        roles.flag_default = defaults.get(roles.flag)
        for fname, args in ieb_calls.items():
            roles.entry_flag[fname] = args.get(roles.flag, roles.flag_default)
    # inside _distribute_power: parameters handed on
    dpn = prep(prog, dp.qual)
    dregs = regions(dpn.node)
    inv = {v: k for k, v in roles.dp.items()}
    ar_args = [positional(e.node, _params(ar)) for _r, _p, e in the_call(  # type: ignore[arg-type]
        dregs, sc(prog, "ar"), dp)]
    if has(prog, "mip"):
        mip_args = [positional(e.node, _params(mip)) for _r, _p, e in the_call(  # type: ignore[arg-type]
            dregs, sc(prog, "mip"), dp, "C02.INV")]
    else:       # the per-inverter split is part of the allocation function: it reads that function's tables
        mip_args = []
        roles.mip = {k: v for k, v in roles.dp.items() if k in ("incl", "excl")}
    for args, dst, need in ((ar_args, roles.ar, ("excl",)), (mip_args, roles.mip, ("incl", "excl"))):
        for a in args:
            for prm, v in a.items():
                if isinstance(v, ast.Name) and v.id in inv:
                    if dst.setdefault(inv[v.id], prm) != prm:
                        raise AnalysisError(f"{dp.qual}: bound tables handed on inconsistently")
        for role in need:
            if role not in dst:
                raise AnalysisError(f"{dp.qual}: the {role}usion bound table is not handed on unchanged")
    # headroom: the table whose entry is raised to the distributor exponent in the ratio
    arn = prep(prog, ar.qual)
    av = pow_operand(arn, regions(arn.node))
    if av is None:
        return roles            # the ratio is not built from one headroom table: reported by C02.AVAIL
    if av not in _params(ar):
        raise AnalysisError(f"{ar.qual}: the SoC headroom table `{av}` is not a parameter")
    roles.ar["avail"] = av
    for a in ar_args:
        v = a.get(av)
        if not (isinstance(v, ast.Name) and v.id in _params(dp)):
            raise AnalysisError(f"{dp.qual}: the SoC headroom table is not handed on unchanged to "
                                "_compute_battery_availability_ratio")
        if roles.dp.setdefault("avail", v.id) != v.id:
            raise AnalysisError(f"{dp.qual}: headroom handed on inconsistently")
    for fname, args in entry_args.items():
        v = args.get(roles.dp["avail"])
        if v is None:
            raise AnalysisError(f"{q(prog, fname)}: no SoC headroom handed on")
        roles.headroom[fname] = (v, entry_paths[fname])
    return roles
