"""Generic facilities used by the C20 checker (kept out of sa/engine on purpose: owned by C20).

  Expander        scope-aware, analysis-only substitution of single-binding locals by the expression
                  they were bound to (what value / which object does this name denote?); closures see
                  their enclosing function's locals
  cpath           canonical path into nested containers: X[k] and X.setdefault(k, d) denote the same slot
  presence        polarity of a membership guard (k in C / k not in C / C.get(k) is [not] None)
  enum_paths      path enumeration of a loop-free function body with the local environment applied
  fold_loops      `acc = []; for t in it: ...; acc.append(e)`  ->  `acc = [e for t in it]`
  subst_names     replace parameter names by argument expressions
  bind_call       parameter -> argument map of a call (keyword and positional forms coincide)
  result_expr     the expression a straight-line function returns (loops folded, locals expanded)
  derived_names   the names that can denote (a part of) the objects held by given variables (loop / comprehension
                  targets over them, locals made from them)
(the summary of boolean scan helpers, `scan_summary`, lives in c20.py next to the rule that uses it)
"""
from __future__ import annotations

import ast
import copy
from typing import Any, Callable, Iterable, Iterator

from ..engine.report import AnalysisError
from ..engine.resolver import FuncNode
from ..engine.util import canon, reaching_defs, u

_COMP = (ast.ListComp, ast.SetComp, ast.DictComp, ast.GeneratorExp)
_DEFS = (ast.FunctionDef, ast.AsyncFunctionDef, ast.ClassDef)


# ------------------------------------------------------------------------------------ scopes
def params_of(fn: FuncNode | ast.Lambda) -> list[str]:
    a = fn.args
    out = [x.arg for x in a.posonlyargs + a.args + a.kwonlyargs]
    if a.vararg:
        out.append(a.vararg.arg)
    if a.kwarg:
        out.append(a.kwarg.arg)
    return out


def _collect_bindings(fn: FuncNode) -> dict[str, list[ast.AST | None]]:
    """name -> the values it is bound to in this function's own scope (None = not a plain value)."""
    binds: dict[str, list[ast.AST | None]] = {}

    def add(name: str, val: ast.AST | None) -> None:
        binds.setdefault(name, []).append(val)

    def visit(n: ast.AST) -> None:
        if isinstance(n, _DEFS):
            add(n.name, None)
            return
        if isinstance(n, ast.Lambda):
            return
        if isinstance(n, _COMP):
            return  # comprehension targets live in their own scope
        if isinstance(n, ast.Assign):
            if len(n.targets) == 1 and isinstance(n.targets[0], ast.Name):
                add(n.targets[0].id, n.value)
            else:
                for t in n.targets:
                    visit(t)
            visit(n.value)
            return
        if isinstance(n, ast.AnnAssign):
            if isinstance(n.target, ast.Name):
                if n.value is not None:
                    add(n.target.id, n.value)
            else:
                visit(n.target)
            if n.value is not None:
                visit(n.value)
            return
        if isinstance(n, ast.Name):
            if isinstance(n.ctx, (ast.Store, ast.Del)):
                add(n.id, None)
            return
        if isinstance(n, ast.ExceptHandler) and n.name:
            add(n.name, None)
        if isinstance(n, (ast.Import, ast.ImportFrom)):
            for al in n.names:
                add((al.asname or al.name).split(".")[0], None)
            return
        if isinstance(n, (ast.Global, ast.Nonlocal)):
            for nm in n.names:
                add(nm, None)
                add(nm, None)
            return
        for c in ast.iter_child_nodes(n):
            visit(c)

    for s in fn.body:
        visit(s)
    return binds


def _bound_inside(expr: ast.AST) -> set[str]:
    """Names (re)bound inside an expression: comprehension targets, lambda parameters, walrus."""
    out: set[str] = set()
    for n in ast.walk(expr):
        if isinstance(n, ast.Name) and isinstance(n.ctx, (ast.Store, ast.Del)):
            out.add(n.id)
        elif isinstance(n, ast.Lambda):
            out.update(params_of(n))
    return out


class Expander:
    """Substitute single-binding locals of a function (and of its enclosing functions) by the
    expression they were bound to.  Analysis-only: answers which value/object a name denotes."""

    def __init__(self, fn: FuncNode, outer: "Expander | None" = None) -> None:
        self.fn = fn
        self.outer = outer
        self.params = set(params_of(fn))
        self.binds = _collect_bindings(fn)

    def is_local(self, name: str) -> bool:
        return name in self.params or name in self.binds

    def unstable(self, name: str) -> bool:
        """The name denotes different values at different times (several bindings)."""
        if self.is_local(name):
            n = len(self.binds.get(name, []))
            return n > 1 or (name in self.params and n > 0)
        return self.outer.unstable(name) if self.outer is not None else False

    def value_of(self, name: str) -> ast.AST | None:
        """The single plain value bound to a local (not expanded), if it has exactly one."""
        if self.is_local(name):
            if name in self.params:
                return None
            bl = self.binds.get(name, [])
            return bl[0] if len(bl) == 1 else None
        return self.outer.value_of(name) if self.outer is not None else None

    def all_values(self, name: str) -> list[ast.AST | None]:
        if self.is_local(name):
            return list(self.binds.get(name, [])) + ([None] if name in self.params else [])
        return self.outer.all_values(name) if self.outer is not None else []

    def _resolve(self, name: str, depth: int) -> ast.AST | None:
        if depth > 12:
            return None
        if not self.is_local(name):
            return self.outer._resolve(name, depth) if self.outer is not None else None
        val = self.value_of(name)
        if val is None:
            return None
        inner = _bound_inside(val)
        for n in ast.walk(val):
            if isinstance(n, ast.Name) and isinstance(n.ctx, ast.Load) and n.id not in inner:
                if n.id == name or self.unstable(n.id):
                    return None
        return self.expand(val, depth + 1)

    def expand(self, expr: ast.AST, depth: int = 0) -> ast.AST:
        expr = copy.deepcopy(expr)
        shadow = _bound_inside(expr)
        me = self

        class T(ast.NodeTransformer):
            def visit_Name(self, node: ast.Name) -> ast.AST:  # noqa: N802
                if isinstance(node.ctx, ast.Load) and node.id not in shadow:
                    r = me._resolve(node.id, depth)
                    if r is not None:
                        return ast.copy_location(r, node)
                return node

        wrapper = ast.Expr(value=expr)  # so that a bare Name at the root can be replaced
        T().visit(wrapper)
        return wrapper.value

    def x(self, expr: ast.AST | None) -> str:
        return "" if expr is None else u(self.expand(expr))


def subst_names(expr: ast.AST, mapping: dict[str, ast.AST]) -> ast.AST:
    expr = copy.deepcopy(expr)
    shadow = _bound_inside(expr)

    class T(ast.NodeTransformer):
        def visit_Name(self, node: ast.Name) -> ast.AST:  # noqa: N802
            if isinstance(node.ctx, ast.Load) and node.id in mapping and node.id not in shadow:
                return ast.copy_location(copy.deepcopy(mapping[node.id]), node)
            return node

    wrapper = ast.Expr(value=expr)
    T().visit(wrapper)
    return wrapper.value


def bind_call(call: ast.Call, params: list[str]) -> dict[str, ast.AST] | None:
    """parameter name -> argument expression (positional and keyword forms coincide)."""
    if any(isinstance(a, ast.Starred) for a in call.args) or any(k.arg is None for k in call.keywords):
        return None
    if len(call.args) > len(params):
        return None
    out: dict[str, ast.AST] = dict(zip(params, call.args))
    for k in call.keywords:
        if k.arg in out or k.arg not in params:
            return None
        out[k.arg] = k.value  # type: ignore[index]
    return out


# ------------------------------------------------------------------------------------ containers
def cpath(expr: ast.AST) -> tuple[str, ...] | None:
    """Canonical slot path: `R[a][b]`, `R.setdefault(a, {})[b]`, `R.setdefault(a, {}).setdefault(b, [])`
    all give (R, a, b).  `expr` should already be expanded."""
    keys: list[str] = []
    cur = expr
    while True:
        if isinstance(cur, ast.Subscript):
            keys.append(u(cur.slice))
            cur = cur.value
        elif isinstance(cur, ast.Call) and isinstance(cur.func, ast.Attribute) and cur.func.attr == "setdefault" \
                and len(cur.args) == 2 and not cur.keywords:
            keys.append(u(cur.args[0]))
            cur = cur.func.value
        else:
            break
    if not keys:
        return None
    return (u(cur), *reversed(keys))


def presence(test: ast.AST, key: str, cont: str) -> int | None:
    """+1: the test is true iff `key` is present in `cont`; -1: true iff absent; None: something else."""
    c = canon(test)
    if c == ("in", key, cont):
        return 1
    if c == ("notin", key, cont):
        return -1
    got = f"{cont}.get({key})"
    if c == ("isnot", frozenset({got, "None"})):
        return 1
    if c == ("is", frozenset({got, "None"})):
        return -1
    return None


def branch(cfg: Any, nid: int, label: str) -> list[int]:
    return [m for m, lab in cfg.succ[nid] if lab == label]


# ------------------------------------------------------------------------------------ path enumeration
class PathEnd:
    def __init__(self, kind: str, value: ast.AST | None, facts: list[tuple[Any, bool]], stmts: list[ast.stmt]) -> None:
        self.kind = kind  # 'return' | 'raise' | 'fall'
        self.value = value  # returned expression with the path's local environment applied
        self.facts = facts  # (canonical test with environment applied, outcome)
        self.stmts = stmts  # executed simple statements (environment applied to their values)


def enum_paths(fn: FuncNode, limit: int = 512, opaque: bool = False) -> list[PathEnd]:
    """All syntactic paths of a loop-free function body.  Fails closed on loops/try/with, unless `opaque`:
    then a compound statement without `return` counts as one statement that completes normally."""
    out: list[PathEnd] = []

    def ap(env: dict[str, ast.AST], e: ast.AST) -> ast.AST:
        return subst_names(e, env) if env else copy.deepcopy(e)

    def run(stmts: list[ast.stmt], env: dict[str, ast.AST], facts: list[tuple[Any, bool]], done: list[ast.stmt]) -> None:
        if len(out) > limit:
            raise AnalysisError(f"{fn.name}: too many paths")
        for i, s in enumerate(stmts):
            rest = stmts[i + 1:]
            if isinstance(s, ast.If):
                t = canon(ap(env, s.test))
                run(list(s.body) + rest, dict(env), facts + [(t, True)], list(done))
                run(list(s.orelse) + rest, dict(env), facts + [(t, False)], list(done))
                return
            if isinstance(s, ast.Match):
                neg: list[tuple[Any, bool]] = []
                exhaustive = False
                for case in s.cases:
                    pats = case.pattern.patterns if isinstance(case.pattern, ast.MatchOr) else [case.pattern]
                    if case.guard is not None:
                        raise AnalysisError(f"{fn.name}: guarded match arm not supported")
                    if all(isinstance(p, ast.MatchValue) for p in pats):
                        for p in pats:
                            t = canon(ap(env, ast.Compare(left=s.subject, ops=[ast.Eq()], comparators=[p.value])))  # type: ignore[attr-defined]
                            run(list(case.body) + rest, dict(env), facts + neg + [(t, True)], list(done))
                        for p in pats:
                            t = canon(ap(env, ast.Compare(left=s.subject, ops=[ast.Eq()], comparators=[p.value])))  # type: ignore[attr-defined]
                            neg.append((t, False))
                    elif len(pats) == 1 and isinstance(pats[0], ast.MatchAs) and pats[0].pattern is None:
                        run(list(case.body) + rest, dict(env), facts + neg, list(done))
                        exhaustive = True
                        break
                    else:
                        raise AnalysisError(f"{fn.name}: match pattern not supported")
                if not exhaustive:
                    run(rest, dict(env), facts + neg, list(done))
                return
            if isinstance(s, ast.Return):
                out.append(PathEnd("return", ap(env, s.value) if s.value is not None else None, facts, done))
                return
            if isinstance(s, ast.Raise):
                out.append(PathEnd("raise", None, facts, done))
                return
            if isinstance(s, (ast.For, ast.AsyncFor, ast.While, ast.Try, ast.With, ast.AsyncWith)) or (
                    hasattr(ast, "TryStar") and isinstance(s, ast.TryStar)):
                if not opaque or any(isinstance(n, ast.Return) for n in walk_own(s)):
                    raise AnalysisError(f"{fn.name}: return inside {type(s).__name__} in a dispatch function is not supported")
                # opaque: it completes normally (its raising exits end the call and decide nothing here)
                done.append(copy.deepcopy(s))
                for n in ast.walk(s):
                    if isinstance(n, ast.Name) and isinstance(n.ctx, (ast.Store, ast.Del)):
                        env.pop(n.id, None)
                continue
            if isinstance(s, _DEFS):
                continue
            s2 = copy.deepcopy(s)
            if isinstance(s2, (ast.Assign, ast.AnnAssign, ast.Expr, ast.AugAssign)) and getattr(s2, "value", None) is not None:
                s2.value = ap(env, s2.value)  # type: ignore[union-attr]
            done.append(s2)
            tgt = None
            if isinstance(s, ast.Assign) and len(s.targets) == 1 and isinstance(s.targets[0], ast.Name):
                tgt = s.targets[0].id
            elif isinstance(s, ast.AnnAssign) and isinstance(s.target, ast.Name) and s.value is not None:
                tgt = s.target.id
            if tgt is not None:
                env[tgt] = s2.value  # type: ignore[union-attr]
            else:
                for n in ast.walk(s):
                    if isinstance(n, ast.Name) and isinstance(n.ctx, (ast.Store, ast.Del)):
                        env.pop(n.id, None)
        out.append(PathEnd("fall", None, facts, done))

    body = list(fn.body)
    if body and isinstance(body[0], ast.Expr) and isinstance(body[0].value, ast.Constant):
        body = body[1:]
    run(body, {}, [], [])
    return out


def equal_fact(fact: tuple[Any, bool], var: str) -> str | None:
    """`var == X` / `var is X` known true (or `!=` / `is not` known false) on a path: returns X."""
    c, truth = fact
    if not (isinstance(c, tuple) and len(c) == 2 and isinstance(c[1], frozenset) and len(c[1]) == 2 and var in c[1]):
        return None
    if (c[0] in ("==", "is") and truth) or (c[0] in ("!=", "isnot") and not truth):
        return next(iter(c[1] - {var}))
    return None


# ------------------------------------------------------------------------------------ loops -> comprehensions
def _is_empty_list(e: ast.AST | None) -> bool:
    return (isinstance(e, ast.List) and not e.elts) or (
        isinstance(e, ast.Call) and isinstance(e.func, ast.Name) and e.func.id == "list" and not e.args and not e.keywords)


def fold_loops(stmts: list[ast.stmt]) -> list[ast.stmt]:
    """Rewrite (on a copy) every `acc = []` + `for T in IT: <plain local assignments>; acc.append(E)`
    pair into `acc = [E' for T in IT]`, innermost first; E' has the loop body's locals substituted."""
    stmts = [copy.deepcopy(s) for s in stmts]

    def fold(suite: list[ast.stmt]) -> list[ast.stmt]:
        for s in suite:
            if isinstance(s, (ast.For,)):
                s.body = fold(s.body)
        out: list[ast.stmt] = []
        pending: dict[str, int] = {}  # accumulator -> index in out of its `acc = []`
        for s in suite:
            tgt = None
            if isinstance(s, ast.Assign) and len(s.targets) == 1 and isinstance(s.targets[0], ast.Name):
                tgt = s.targets[0].id
            elif isinstance(s, ast.AnnAssign) and isinstance(s.target, ast.Name) and s.value is not None:
                tgt = s.target.id
            if tgt is not None and _is_empty_list(s.value):  # type: ignore[union-attr]
                pending[tgt] = len(out)
                out.append(s)
                continue
            if isinstance(s, ast.For) and not s.orelse and s.body:
                last = s.body[-1]
                acc = None
                if isinstance(last, ast.Expr) and isinstance(last.value, ast.Call) and isinstance(last.value.func, ast.Attribute) \
                        and last.value.func.attr == "append" and isinstance(last.value.func.value, ast.Name) \
                        and len(last.value.args) == 1 and not last.value.keywords:
                    acc = last.value.func.value.id
                env: dict[str, ast.AST] = {}
                plain = acc is not None and acc in pending
                if plain:
                    for b in s.body[:-1]:
                        if isinstance(b, ast.Assign) and len(b.targets) == 1 and isinstance(b.targets[0], ast.Name) \
                                and b.targets[0].id != acc and b.targets[0].id not in env:
                            env[b.targets[0].id] = subst_names(b.value, env)
                        elif isinstance(b, ast.AnnAssign) and isinstance(b.target, ast.Name) and b.value is not None \
                                and b.target.id != acc and b.target.id not in env:
                            env[b.target.id] = subst_names(b.value, env)
                        else:
                            plain = False
                            break
                # the accumulator must not be touched between its creation and the loop
                if plain and not any(isinstance(n, ast.Name) and n.id == acc for o in out[pending[acc] + 1:] for n in ast.walk(o)) \
                        and not any(isinstance(n, ast.Name) and n.id == acc for b in s.body[:-1] for n in ast.walk(b)) \
                        and not any(isinstance(n, ast.Name) and n.id == acc for n in ast.walk(s.iter)):
                    elt = subst_names(last.value.args[0], env)  # type: ignore[union-attr]
                    comp = ast.ListComp(elt=elt, generators=[ast.comprehension(target=s.target, iter=s.iter, ifs=[], is_async=0)])
                    init = out[pending[acc]]
                    new = ast.Assign(targets=[ast.Name(id=acc, ctx=ast.Store())], value=comp)  # type: ignore[arg-type]
                    ast.copy_location(new, init)
                    ast.fix_missing_locations(new)
                    out[pending[acc]] = new
                    del pending[acc]  # type: ignore[arg-type]
                    continue
            out.append(s)
        return out

    return fold(stmts)


def result_expr(fn: FuncNode) -> ast.AST | None:
    """The single expression a straight-line function returns, with loops folded into comprehensions
    and its single-binding locals expanded; None when the body is not of that shape."""
    body = list(fn.body)
    if body and isinstance(body[0], ast.Expr) and isinstance(body[0].value, ast.Constant):
        body = body[1:]
    folded = fold_loops(body)
    if not folded or not isinstance(folded[-1], ast.Return) or folded[-1].value is None:
        return None
    if any(not isinstance(s, (ast.Assign, ast.AnnAssign)) for s in folded[:-1]):
        return None
    if any(isinstance(n, ast.Return) for s in folded[:-1] for n in ast.walk(s)):
        return None
    shell = copy.copy(fn)
    shell.body = folded
    return Expander(shell).expand(folded[-1].value)


# ------------------------------------------------------------------------------------ misc
def walk_own(node: ast.AST) -> Iterator[ast.AST]:
    """ast.walk over a function body without entering nested defs/lambdas (root excluded if a def)."""
    stack = list(ast.iter_child_nodes(node))
    while stack:
        cur = stack.pop()
        if isinstance(cur, (*_DEFS, ast.Lambda)):
            continue
        yield cur
        stack.extend(ast.iter_child_nodes(cur))


def calls_where(node: ast.AST, pred: Callable[[ast.Call], bool], nested: bool = True) -> list[ast.Call]:
    it: Iterable[ast.AST] = ast.walk(node) if nested else walk_own(node)
    return [n for n in it if isinstance(n, ast.Call) and pred(n)]


def const_bool(e: ast.AST | None) -> bool | None:
    if isinstance(e, ast.Constant) and isinstance(e.value, bool):
        return e.value
    return None


# ------------------------------------------------------------------------------------ flow-sensitive expansion
def expand_at(cfg: Any, x: Expander, nid: int, expr: ast.AST, depth: int = 0) -> ast.AST:
    """Like Expander.expand, but a local with several bindings is also replaced when exactly one plain
    binding `name = value` reaches CFG node `nid` (flow-sensitive; the value is expanded at its own node)."""
    expr = copy.deepcopy(expr)
    shadow = _bound_inside(expr)

    class T(ast.NodeTransformer):
        def visit_Name(self, node: ast.Name) -> ast.AST:  # noqa: N802
            if isinstance(node.ctx, ast.Load) and node.id not in shadow and depth < 8 and x.is_local(node.id) \
                    and x.unstable(node.id) and node.id not in x.params:
                defs = reaching_defs(cfg, nid, node.id)
                if len(defs) == 1:
                    d = cfg.nodes[defs[0]]
                    a = d.ast
                    val = None
                    if d.kind == "stmt" and isinstance(a, ast.Assign) and len(a.targets) == 1 and isinstance(a.targets[0], ast.Name):
                        val = a.value
                    elif d.kind == "stmt" and isinstance(a, ast.AnnAssign) and isinstance(a.target, ast.Name) and a.value is not None:
                        val = a.value
                    if val is not None and not any(isinstance(n, ast.Name) and n.id == node.id for n in ast.walk(val)):
                        return ast.copy_location(expand_at(cfg, x, defs[0], val, depth + 1), node)
            return node

    wrapper = ast.Expr(value=expr)
    T().visit(wrapper)
    return x.expand(wrapper.value)


# ------------------------------------------------------------------------------------ value helpers
def splice_value_calls(expr: ast.AST, resolve: Callable[[ast.Call], tuple[FuncNode, list[str]] | None], rounds: int = 3) -> ast.AST:
    """Replace calls of helpers that merely compute a value (straight-line local bindings and one
    returned expression, loops folded) by that expression with the arguments substituted.
    `resolve(call)` returns (helper node, its parameter names without self) or None."""
    expr = copy.deepcopy(expr)
    for _ in range(rounds):
        changed = False

        class T(ast.NodeTransformer):
            def visit_Call(self, node: ast.Call) -> ast.AST:  # noqa: N802
                nonlocal changed
                self.generic_visit(node)
                r = resolve(node)
                if r is None:
                    return node
                helper, ps = r
                b = bind_call(node, ps)
                if b is None or set(b) != set(ps) or isinstance(helper, ast.AsyncFunctionDef):
                    return node
                val = result_expr(helper)
                if val is None:
                    return node
                changed = True
                return ast.copy_location(subst_names(val, b), node)

        wrapper = ast.Expr(value=expr)
        T().visit(wrapper)
        expr = wrapper.value
        if not changed:
            break
    return expr


# ------------------------------------------------------------------------------------ procedure splicing
def _single_exit(stmts: list[ast.stmt], ret: str) -> list[ast.stmt] | None:
    """Rewrite a statement list with early returns (in if/else only) into one without `return`, where
    every path assigns the result to `ret`; None when a return sits in a loop / try / with / match."""
    out: list[ast.stmt] = []
    for i, s in enumerate(stmts):
        if isinstance(s, ast.Return):
            val = s.value if s.value is not None else ast.Constant(value=None)
            out.append(ast.copy_location(ast.Assign(targets=[ast.Name(id=ret, ctx=ast.Store())], value=val), s))
            return out
        has_ret = any(isinstance(n, ast.Return) for n in walk_own(s))
        if not has_ret:
            out.append(s)
            continue
        if not isinstance(s, ast.If):
            return None
        rest = stmts[i + 1:]
        body = _single_exit(list(s.body) + rest, ret)
        orelse = _single_exit(list(s.orelse) + rest, ret)
        if body is None or orelse is None:
            return None
        new = ast.If(test=s.test, body=body or [ast.Pass()], orelse=orelse)
        out.append(ast.copy_location(new, s))
        return out
    out.append(ast.Assign(targets=[ast.Name(id=ret, ctx=ast.Store())], value=ast.Constant(value=None)))
    return out


def rename_and_bind(stmts: list[ast.stmt], rename: dict[str, str], binds: dict[str, ast.AST]) -> list[ast.stmt]:
    class T(ast.NodeTransformer):
        def visit_Name(self, node: ast.Name) -> ast.AST:  # noqa: N802
            if node.id in rename:
                return ast.copy_location(ast.Name(id=rename[node.id], ctx=node.ctx), node)
            if isinstance(node.ctx, ast.Load) and node.id in binds:
                return ast.copy_location(copy.deepcopy(binds[node.id]), node)
            return node

        def visit_Lambda(self, node: ast.Lambda) -> ast.AST:  # noqa: N802
            if set(params_of(node)) & (set(rename) | set(binds)):
                return node
            return self.generic_visit(node)

    return [T().visit(copy.deepcopy(s)) for s in stmts]


def splice_procedures(root: FuncNode, resolve: Callable[[ast.Call], tuple[FuncNode, list[str]] | None],
                      rounds: int = 3, max_stmts: int = 40) -> FuncNode:
    """Splice (on a copy) calls of private procedures that are a whole statement - `h(a)`, `x = h(a)`,
    `await h(a)`, `x = await h(a)` - into the caller: parameters replaced by the argument expressions, the
    helper's locals renamed, early returns turned into if/else (any number of returns outside loops).
    Analysis-only.  `resolve(call)` gives (helper node, parameters bound by a call) or None."""
    root = copy.deepcopy(root)
    counter = 0
    for _ in range(rounds):
        changed = False
        for holder in list(ast.walk(root)):
            for field in ("body", "orelse", "finalbody"):
                suite = getattr(holder, field, None)
                if not (isinstance(suite, list) and suite and isinstance(suite[0], ast.stmt)):
                    continue
                i = 0
                while i < len(suite):
                    s = suite[i]
                    i += 1
                    if not isinstance(s, (ast.Expr, ast.Assign, ast.AnnAssign)) or getattr(s, "value", None) is None:
                        continue
                    v = s.value
                    awaited = isinstance(v, ast.Await)
                    call = v.value if awaited else v
                    if not isinstance(call, ast.Call):
                        continue
                    r = resolve(call)
                    if r is None:
                        continue
                    helper, ps = r
                    if helper is root or isinstance(helper, ast.AsyncFunctionDef) != awaited:
                        continue
                    b = bind_call(call, ps)
                    if b is None or set(b) != set(ps):
                        continue
                    body = list(helper.body)
                    if body and isinstance(body[0], ast.Expr) and isinstance(body[0].value, ast.Constant):
                        body = body[1:]
                    hb = _collect_bindings(helper)
                    if any(p in hb for p in ps) or sum(1 for _n in ast.walk(helper)) > 60 * max_stmts \
                            or any(isinstance(n, _DEFS + (ast.Yield, ast.YieldFrom, ast.Global, ast.Nonlocal)) for st in body for n in ast.walk(st)):
                        continue
                    counter += 1
                    ret = f"ret__{helper.name.strip('_')}_{counter}"
                    flat = _single_exit(body, ret)
                    if flat is None or len(flat) > max_stmts:
                        continue
                    rename = {n: f"{n}__{helper.name.strip('_')}_{counter}" for n in hb}
                    new = rename_and_bind(flat, rename, b)
                    if isinstance(s, ast.Assign):
                        new.append(ast.copy_location(ast.Assign(targets=s.targets, value=ast.Name(id=ret, ctx=ast.Load())), s))
                    elif isinstance(s, ast.AnnAssign):
                        new.append(ast.copy_location(ast.AnnAssign(target=s.target, annotation=s.annotation,
                                                                    value=ast.Name(id=ret, ctx=ast.Load()), simple=s.simple), s))
                    for st in new:
                        for n in ast.walk(st):
                            if not hasattr(n, "lineno") and isinstance(n, (ast.stmt, ast.expr)):
                                ast.copy_location(n, s)
                    suite[i - 1:i] = new
                    i += len(new) - 1
                    changed = True
        if not changed:
            break
    ast.fix_missing_locations(root)
    return root


def slot_reads(expr: ast.AST, cont: str) -> ast.AST:
    """`cont.get(k)` read as `cont[k]` (on a copy): both denote the value filed under k; whether k is
    present is a matter of the guards, which are checked with their own polarity (`presence`)."""
    class T(ast.NodeTransformer):
        def visit_Call(self, node: ast.Call) -> ast.AST:  # noqa: N802
            self.generic_visit(node)
            if isinstance(node.func, ast.Attribute) and node.func.attr == "get" and len(node.args) == 1 and not node.keywords \
                    and u(node.func.value) == cont:
                return ast.copy_location(ast.Subscript(value=node.func.value, slice=node.args[0], ctx=ast.Load()), node)
            return node

    wrapper = ast.Expr(value=copy.deepcopy(expr))
    T().visit(wrapper)
    return wrapper.value


# ------------------------------------------------------------------------------------ what is made of a value
def mentions(expr: ast.AST | None, names: set[str]) -> bool:
    """The expression reads one of `names` (outside nested defs / lambdas)."""
    return expr is not None and any(isinstance(n, ast.Name) and n.id in names for n in [expr, *walk_own(expr)])


def derived_names(nodes: Iterable[ast.AST], seed: set[str]) -> set[str]:
    """Names that denote (a part of / something made from) the values of `seed` among `nodes` (the nodes of one
    function body): targets of loops and comprehensions that range over them, locals bound to an expression that
    reads them, `with ... as` names - to a fixed point.  An over-approximation on purpose: it answers "could this
    name be one of the objects held by the seed", never "is it"."""
    nodes = list(nodes)
    out = set(seed)
    changed = True
    while changed:
        changed = False
        for n in nodes:
            pairs: list[tuple[ast.AST | None, ast.AST | None]] = []
            if isinstance(n, (ast.For, ast.AsyncFor, ast.comprehension)):
                pairs.append((n.iter, n.target))
            elif isinstance(n, ast.Assign):
                pairs += [(n.value, t) for t in n.targets]
            elif isinstance(n, (ast.AnnAssign, ast.AugAssign)):
                pairs.append((n.value, n.target))
            elif isinstance(n, ast.NamedExpr):
                pairs.append((n.value, n.target))
            elif isinstance(n, ast.withitem):
                pairs.append((n.context_expr, n.optional_vars))
            for src, tgt in pairs:
                if tgt is None or not mentions(src, out):
                    continue
                for t in ast.walk(tgt):
                    if isinstance(t, ast.Name) and isinstance(t.ctx, ast.Store) and t.id not in out:
                        out.add(t.id)
                        changed = True
    return out
