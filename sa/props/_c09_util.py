"""Facilities for the C09 checker that the engine does not (yet) offer.

  ordered_paths(prog, fn)     symbolic paths (sympath) of `fn` with simple private helpers spliced in, where
                              the *position* at which every atomic condition was decided is recorded inside
                              `effects` (kind 'cond', `orig` = (key, outcome)); loop effects carry the
                              environment at loop entry (`env`) so that a loop body can be walked with the
                              locals defined before the loop substituted in (`loop_paths`).
  decided / entails_le / entails_lt
                              what the conditions taken on a path (optionally: before a given effect) say about
                              the order of two operands, in every spelling (`a < b`, `b > a`, `not a >= b`, ...).
  lower_bounded / upper_bounded
                              is an expression provably >= / <= one of a set of limits on this path: it *is* the
                              limit, is `max(.., limit)` / `min(.., limit)` (any argument order, nested), a
                              monotone grid-preserving wrapper of such a value, or the path conditions entail it.
  MutationSummary             which `self.<attr>` state a method of a class may write, transitively through
                              calls of methods on `self`.
"""
from __future__ import annotations

import ast
import copy
from typing import Any, Callable, Iterable

from ..engine.normalize import ANCHOR_NAMES, _bind, _helper_target, _replace_node
from ..engine.report import AnalysisError
from ..engine.resolver import ClassInfo, FuncInfo, FuncNode, Program, walk_no_nested
from ..engine.sympath import Effect, Path, SymExec, SymUnsupported
from ..engine.util import u

MUTATING_METHODS = {"append", "extend", "insert", "remove", "pop", "clear", "sort", "reverse", "update",
                    "add", "discard", "setdefault", "popitem", "fill", "put", "resize", "__setitem__",
                    "__delitem__"}


# --------------------------------------------------------------------------------------- ordered paths
KEEP_RESOLVER: Callable[[Program], set[str]] | None = None   # set by the checker: role-bound anchors


def kept(prog: Program | None) -> set[str]:
    """Names of the private methods the rules anchor on (never spliced / entered): the engine's list plus the
    ones the checker has bound by role."""
    if prog is None:
        return set(ANCHOR_NAMES)
    if "_c09_keep" not in prog.__dict__ and KEEP_RESOLVER is not None:
        prog.__dict__["_c09_keep"] = set()     # re-entrancy guard while the roles are being resolved
        prog.__dict__["_c09_keep"] = set(KEEP_RESOLVER(prog))
    return set(prog.__dict__.get("_c09_keep", set())) | (ANCHOR_NAMES - set(ROLE_HINT_NAMES))


ROLE_HINT_NAMES: set[str] = set()   # hint names of role-bound anchors: only anchors while they play the role

PRE = "pre@"


def pre_name(lineno: int, chain: str) -> str:
    """Name standing for the value `chain` (a `self.X` attribute) held *before* the write at that line."""
    return f"{PRE}{lineno}({chain})"


class _Rename(ast.NodeTransformer):
    def __init__(self, chain: str, name: str) -> None:
        self.chain, self.name = chain, name

    def visit_Attribute(self, node: ast.Attribute) -> ast.AST:  # noqa: N802
        if isinstance(node.ctx, ast.Load) and u(node) == self.chain:
            new = ast.copy_location(ast.Name(id=self.name, ctx=ast.Load()), node)
            new._inlined = True  # type: ignore[attr-defined]
            return new
        return self.generic_visit(node)


UP = "<caller>"


class _SubstEnv(ast.NodeTransformer):
    def __init__(self, env: dict[str, ast.AST]) -> None:
        self.env = env

    def visit_Name(self, node: ast.Name) -> ast.AST:  # noqa: N802
        if isinstance(node.ctx, ast.Load) and node.id in self.env:
            new = ast.copy_location(copy.deepcopy(self.env[node.id]), node)
            new._inlined = True  # type: ignore[attr-defined]
            return new
        return node


class OrderedSymExec(SymExec):
    """SymExec that
      * records where on the path each atomic condition was decided (effects of kind 'cond');
      * keeps pre-state and post-state apart: when `self.X` is written, every local bound before the write
        that holds an expression reading `self.X` now reads `pre@<line>(self.X)`;
      * executes private, non-anchored helpers of the same class/module interprocedurally when the call is
        the whole value of a statement (any number of returns, effects allowed): the helper's statements run
        on the caller's path with the parameters bound to the substituted arguments."""

    def __init__(self, max_paths: int = 4096, prog: Program | None = None, fn: FuncInfo | None = None,
                 depth: int = 3) -> None:
        super().__init__(max_paths)
        self.prog, self.fn, self.depth = prog, fn, depth
        self.stack: list[str] = []

    def _bind(self, p: Path, target: ast.AST, value: ast.AST, lineno: int) -> None:
        n = len(p.effects)
        super()._bind(p, target, value, lineno)
        if isinstance(target, ast.Attribute) and len(p.effects) == n + 1 and p.effects[-1].kind == "write":
            chain = u(p.effects[-1].node.elts[0])  # type: ignore[attr-defined]
            if chain:
                ren = _Rename(chain, pre_name(lineno, chain))
                p.env = {k: ren.visit(copy.deepcopy(v)) if chain in u(v) else v for k, v in p.env.items()}

    def _whole_call(self, s: ast.stmt) -> ast.Call | None:
        if isinstance(s, (ast.Expr, ast.Return)) and isinstance(s.value, ast.Call):
            return s.value
        if isinstance(s, ast.Assign) and isinstance(s.value, ast.Call):
            return s.value
        if isinstance(s, ast.AnnAssign) and isinstance(s.value, ast.Call):
            return s.value
        return None

    def _enter(self, p: Path, s: ast.stmt, call: ast.Call) -> list[tuple[Path, str]] | None:
        if self.prog is None or self.fn is None or len(self.stack) >= self.depth:
            return None
        h = _helper_target(self.prog, self.fn, call, {})
        if h is None or h.name in kept(self.prog) or isinstance(h, ast.AsyncFunctionDef) or h.name in self.stack \
                or h.name == self.fn.name:
            return None
        if h.decorator_list and not all(isinstance(d, ast.Name) and d.id in ("staticmethod", "override")
                                        for d in h.decorator_list):
            return None
        binds = _bind(h, call)
        if binds is None:
            return None
        ln = getattr(s, "lineno", 0)
        cur: list[tuple[Path, dict[str, ast.AST]]] = [(p, {})]
        for name, arg in binds.items():
            nxt = []
            for q, got in cur:
                for q2, e in self.ev(q, arg, ln):
                    nxt.append((q2, {**got, name: e}))
            cur = nxt
        out: list[tuple[Path, str]] = []
        self.stack.append(h.name)
        try:
            for q, args in cur:
                q.env = {**{UP * (len(self.stack)) + k: v for k, v in q.env.items()}, **args}
                for r, st in self.block(q, list(_strip_doc(list(h.body)))):
                    if st in ("break", "continue"):
                        raise SymUnsupported(f"{h.name}: {st} outside a loop")
                    if st == "raise":
                        out.append((r, st))
                        continue
                    val = r.ret if st == "return" and r.ret is not None else ast.Constant(None)
                    mark = UP * len(self.stack)
                    r.env = {k[len(mark):]: v for k, v in r.env.items() if k.startswith(mark)}
                    r.ret, r.exit = None, ""
                    if isinstance(s, ast.Return):
                        r.ret, r.exit, r.lineno = val, "return", ln
                        out.append((r, "return"))
                        continue
                    if isinstance(s, ast.Assign):
                        for t in s.targets:
                            self._bind(r, t, val, ln)
                    elif isinstance(s, ast.AnnAssign):
                        self._bind(r, s.target, val, ln)
                    out.append((r, "next"))
        finally:
            self.stack.pop()
        return out

    def _log(self, p: Path, orig: ast.AST, sub: ast.AST, lineno: int) -> None:
        # SymExec._test logs the atom it has just appended to p.conds with a Constant(None) origin
        if isinstance(orig, ast.Constant) and orig.value is None and p.conds and p.conds[-1][2] is sub:
            key, outcome = p.conds[-1][0], p.conds[-1][1]
            p.effects.append(Effect("cond", sub, p.epoch, lineno, (key, outcome)))  # type: ignore[arg-type]
        super()._log(p, orig, sub, lineno)

    def _test(self, p: Path, t: ast.AST, lineno: int, orig: ast.AST) -> list[tuple[Path, bool]]:
        # `a <= k < b` is decided as `a <= k and k < b` (the shared operand is a substituted pure term here)
        if isinstance(t, ast.Compare) and len(t.ops) > 1:
            parts, left = [], t.left
            for op, right in zip(t.ops, t.comparators):
                parts.append(ast.copy_location(ast.Compare(left=left, ops=[op], comparators=[right]), t))
                left = right
            t = ast.copy_location(ast.BoolOp(op=ast.And(), values=parts), t)
        return super()._test(p, t, lineno, orig)

    def _fold_for(self, s: ast.For, it: ast.AST, entry: dict[str, ast.AST], bound: set[str]) -> dict[str, ast.AST]:
        """What a pure `for` loop leaves in the locals that were defined before it, as one expression:
             acc = a0; for t in it: [if c:] acc += e           ->  a0 + sum(e for t in it [if c])
             x = d; for t in it: if c: x = v; break            ->  next((v for t in it if c), d)
           (`it` is the loop header with the locals substituted).  {} when the loop is anything else."""
        live = {n for n in bound if n in entry}
        targets = {n.id for n in ast.walk(s.target) if isinstance(n, ast.Name)}
        if not live or live & targets:
            return {}
        q0 = Path()
        q0.env = {k: v for k, v in entry.items() if k not in bound}
        try:
            body = OrderedSymExec(256, self.prog, self.fn, self.depth).block(q0, list(s.body))
        except AnalysisError:
            return {}
        if not body or len(body) > 8:
            return {}
        for q, st in body:
            if st not in ("next", "break"):
                return {}
            for e in q.effects:
                if e.kind == "cond":
                    continue
                if e.kind != "call" or not _pure_call(e.node):  # type: ignore[arg-type]
                    return {}

        def cond_of(q: Path) -> list[ast.expr]:
            out: list[ast.expr] = []
            for e in q.effects:
                if e.kind == "cond":
                    atom = copy.deepcopy(e.node)
                    written_true = next((c[4] for c in q.conds if c[2] is e.node), True)
                    out.append(atom if written_true else ast.UnaryOp(op=ast.Not(), operand=atom))  # type: ignore[arg-type]
            return out

        def changed(q: Path, n: str) -> ast.AST | None:
            v = q.env.get(n)
            return None if v is None or (isinstance(v, ast.Name) and v.id == n) else v

        def comp(ifs: list[ast.expr]) -> ast.comprehension:
            test = [ifs[0] if len(ifs) == 1 else ast.BoolOp(op=ast.And(), values=ifs)] if ifs else []
            return ast.comprehension(target=copy.deepcopy(s.target), iter=copy.deepcopy(it), ifs=test, is_async=0)

        out: dict[str, ast.AST] = {}
        breaks = [(q, st) for q, st in body if st == "break"]
        if not breaks:
            for n in live:
                hits = [(q, changed(q, n)) for q, _st in body if changed(q, n) is not None]
                if not hits:
                    continue
                terms = []
                for q, v in hits:
                    if not (isinstance(v, ast.BinOp) and isinstance(v.op, ast.Add)):
                        return {}
                    e = v.right if u(v.left) == n else v.left if u(v.right) == n else None
                    if e is None or any(isinstance(x, ast.Name) and x.id in live for x in ast.walk(e)):
                        return {}
                    terms.append((u(e), e, cond_of(q)))
                if len({t[0] for t in terms}) != 1 or len(hits) > 1 and len(body) != 2:
                    return {}
                ifs = terms[0][2] if len(body) > 1 else []
                total: ast.AST = ast.Call(func=ast.Name(id="sum", ctx=ast.Load()), args=[
                    ast.GeneratorExp(elt=copy.deepcopy(terms[0][1]), generators=[comp(ifs)])], keywords=[])
                a0 = entry[n]
                if not (isinstance(a0, ast.Constant) and a0.value == 0 and not isinstance(a0.value, bool)):
                    total = ast.BinOp(left=copy.deepcopy(a0), op=ast.Add(), right=total)
                out[n] = ast.fix_missing_locations(ast.copy_location(total, s))
            return out
        if len(breaks) != 1 or any(changed(q, n) is not None for q, st in body if st == "next" for n in live):
            return {}
        qb = breaks[0][0]
        ifs = cond_of(qb)
        if not ifs:
            return {}
        for n in live:
            v = changed(qb, n)
            if v is None:
                continue
            nxt = ast.Call(func=ast.Name(id="next", ctx=ast.Load()), args=[
                ast.GeneratorExp(elt=copy.deepcopy(v), generators=[comp([copy.deepcopy(c) for c in ifs])]),
                copy.deepcopy(entry[n])], keywords=[])
            out[n] = ast.fix_missing_locations(ast.copy_location(nxt, s))
        return out

    def _search_else(self, p: Path, s: ast.For) -> list[tuple[Path, str]] | None:
        """for TARGET in it: if c: break / else: <orelse>   ==   hit = next((TARGET for TARGET in it if c), None);
        if hit is None: <orelse> else: TARGET = hit   (the loop variables are the result of the search)."""
        ln = getattr(s, "lineno", 0)
        bound = {n.id for x in s.body for n in ast.walk(x) if isinstance(n, ast.Name) and isinstance(n.ctx, (ast.Store, ast.Del))}
        targets = {n.id for n in ast.walk(s.target) if isinstance(n, ast.Name)}
        q0 = Path()
        q0.env = {k: v for k, v in p.env.items() if k not in bound | targets}
        try:
            body = OrderedSymExec(256, self.prog, self.fn, self.depth).block(q0, list(s.body))
        except AnalysisError:
            return None
        breaks = [q for q, st in body if st == "break"]
        if len(breaks) != 1 or len(body) > 8 or any(st not in ("next", "break") for _q, st in body):
            return None
        for q, _st in body:
            if any(e.kind != "cond" and not (e.kind == "call" and _pure_call(e.node)) for e in q.effects):  # type: ignore[arg-type]
                return None
            if any(k in p.env and u(v) != k for k, v in q.env.items() if k in bound):
                return None    # the body also changes locals that live on: not a plain search
        ifs: list[ast.expr] = []
        for e in breaks[0].effects:
            if e.kind == "cond":
                as_written = next((c[4] for c in breaks[0].conds if c[2] is e.node), True)
                atom = copy.deepcopy(e.node)
                ifs.append(atom if as_written else ast.UnaryOp(op=ast.Not(), operand=atom))  # type: ignore[arg-type]
        if not ifs:
            return None
        it = _SubstEnv(p.env).visit(copy.deepcopy(s.iter))
        self._log(p, s.iter, it, ln)
        elt = copy.deepcopy(s.target)
        for n in ast.walk(elt):
            if hasattr(n, "ctx"):
                n.ctx = ast.Load()  # type: ignore[attr-defined]
        gen = ast.GeneratorExp(elt=elt, generators=[ast.comprehension(
            target=copy.deepcopy(s.target), iter=it, ifs=[ifs[0] if len(ifs) == 1 else ast.BoolOp(op=ast.And(), values=ifs)],
            is_async=0)])
        hit = ast.fix_missing_locations(ast.copy_location(ast.Call(
            func=ast.Name(id="next", ctx=ast.Load()), args=[gen, ast.Constant(None)], keywords=[]), s))
        test = ast.fix_missing_locations(ast.copy_location(
            ast.Compare(left=hit, ops=[ast.Is()], comparators=[ast.Constant(None)]), s))
        out: list[tuple[Path, str]] = []
        for q, none_found in self._test(p, test, ln, test):
            if none_found:
                out.extend(self.block(q, list(s.orelse)))
            else:
                self._bind(q, s.target, copy.deepcopy(hit), ln)
                out.append((q, "next"))
        return out

    def _search_return(self, s: ast.For, after: ast.stmt) -> ast.Return | None:
        """for TARGET in it: if c: return V          ==   return next((V for TARGET in it if c), D)
           return D
        a first-match search written as a loop with several returns (the engine's loop statement is opaque and would
        drop the return inside the body).  None when the loop is anything else: the body must be pure, have exactly one
        returning way, change nothing that lives on, and D must not read what the loop binds."""
        if s.orelse or not isinstance(after, ast.Return) or after.value is None:
            return None
        bound = {n.id for n in ast.walk(s) if isinstance(n, ast.Name) and isinstance(n.ctx, (ast.Store, ast.Del))}
        if any(isinstance(n, ast.Name) and n.id in bound for n in ast.walk(after.value)):
            return None
        try:
            body = OrderedSymExec(256, self.prog, self.fn, self.depth).block(Path(), list(s.body))
        except AnalysisError:
            return None
        rets = [q for q, st in body if st == "return"]
        if len(rets) != 1 or rets[0].ret is None or len(body) > 8 \
                or any(st not in ("next", "continue", "return") for _q, st in body):
            return None
        for q, _st in body:
            if any(e.kind != "cond" and not (e.kind == "call" and _pure_call(e.node)) for e in q.effects):  # type: ignore[arg-type]
                return None
        ifs: list[ast.expr] = []
        for e in rets[0].effects:
            if e.kind == "cond":
                as_written = next((c[4] for c in rets[0].conds if c[2] is e.node), True)
                atom = copy.deepcopy(e.node)
                ifs.append(atom if as_written else ast.UnaryOp(op=ast.Not(), operand=atom))  # type: ignore[arg-type]
        if not ifs:
            return None
        gen = ast.GeneratorExp(elt=copy.deepcopy(rets[0].ret), generators=[ast.comprehension(
            target=copy.deepcopy(s.target), iter=copy.deepcopy(s.iter),
            ifs=[ifs[0] if len(ifs) == 1 else ast.BoolOp(op=ast.And(), values=ifs)], is_async=0)])
        call = ast.Call(func=ast.Name(id="next", ctx=ast.Load()), args=[gen, copy.deepcopy(after.value)], keywords=[])
        return ast.fix_missing_locations(ast.copy_location(ast.Return(value=call), s))

    def block(self, p: Path, stmts: list[ast.stmt]) -> list[tuple[Path, str]]:
        stmts = list(stmts)
        for i in range(len(stmts) - 1):
            if isinstance(stmts[i], ast.For):
                folded = self._search_return(stmts[i], stmts[i + 1])  # type: ignore[arg-type]
                if folded is not None:
                    stmts = stmts[:i] + [folded]
                    break
        return super().block(p, stmts)

    def stmt(self, p: Path, s: ast.stmt) -> list[tuple[Path, str]]:
        if isinstance(s, ast.For) and s.orelse:
            got = self._search_else(p, s)
            if got is not None:
                return got
        if isinstance(s, (ast.For, ast.AsyncFor, ast.While)):
            env = dict(p.env)
            out = super().stmt(p, s)
            bound = {n.id for n in ast.walk(s) if isinstance(n, ast.Name) and isinstance(n.ctx, (ast.Store, ast.Del))}
            for q, _st in out:
                for e in reversed(q.effects):
                    if e.kind == "loop" and e.orig is s:
                        e.env = {k: v for k, v in env.items() if k not in bound}  # type: ignore[attr-defined]
                        e.entry = env  # type: ignore[attr-defined]  # every local at loop entry
                        if isinstance(s, ast.For) and not s.orelse:
                            for name, val in self._fold_for(s, e.node, env, bound).items():
                                q.env[name] = val
                        break
            return out
        call = self._whole_call(s)
        if call is not None:
            got = self._enter(p, s, call)
            if got is not None:
                return got
        return super().stmt(p, s)


PURE_NAMES = {"max", "min", "len", "abs", "int", "float", "round", "bool", "isinstance", "timedelta", "sum",
              "enumerate", "range", "zip", "tuple", "list", "sorted", "any", "all"}
PURE_METHODS = {"total_seconds", "contains", "isnan", "timestamp", "index", "count", "get", "is_missing", "has_value"}


def _pure_call(c: ast.Call) -> bool:
    if isinstance(c.func, ast.Name):
        return c.func.id in PURE_NAMES
    return isinstance(c.func, ast.Attribute) and c.func.attr in PURE_METHODS


def selection(sel: ast.AST, seq: str) -> tuple[str, str] | None:
    """(what is selected, under which condition) of a filter(...) / generator / list comprehension over
    `seq`, `enumerate(seq)` or `range(len(seq))`, written over the canonical names I (position) and E (element):
    `filter(lambda x: x[1].f(t), enumerate(seq))` and `((i, g) for i, g in enumerate(seq) if g.f(t))` both give
    ('(I, E)', 'E.f(t)')."""
    def src_kind(x: ast.AST) -> str | None:
        t = u(x)
        return "plain" if t == seq else "enum" if t == f"enumerate({seq})" else "range" if t == f"range(len({seq}))" else None

    def rename(x: ast.AST, var: ast.AST, kind: str) -> str:
        x = copy.deepcopy(x)
        names: dict[str, str] = {}
        if isinstance(var, ast.Tuple) and kind == "enum" and len(var.elts) == 2 \
                and all(isinstance(v, ast.Name) for v in var.elts):
            names = {var.elts[0].id: "I", var.elts[1].id: "E"}  # type: ignore[attr-defined]
        elif isinstance(var, ast.Name):
            names = {var.id: {"plain": "E", "enum": "<pair>", "range": "I"}[kind]}
        else:
            return "?"

        class R(ast.NodeTransformer):
            def visit_Subscript(self, n: ast.Subscript) -> ast.AST:  # noqa: N802
                if isinstance(n.value, ast.Name) and names.get(n.value.id) == "<pair>" and u(n.slice) in ("0", "1"):
                    return ast.Name(id="I" if u(n.slice) == "0" else "E", ctx=ast.Load())
                return self.generic_visit(n)

            def visit_Name(self, n: ast.Name) -> ast.AST:  # noqa: N802
                if n.id in names:
                    return ast.Name(id="(I, E)" if names[n.id] == "<pair>" else names[n.id], ctx=ast.Load())
                return n
        text = u(R().visit(x))
        return text.replace(f"{seq}[I]", "E") if kind == "range" else text

    if isinstance(sel, ast.Call) and u(sel.func) in ("list", "tuple", "iter") and len(sel.args) == 1 and not sel.keywords:
        return selection(sel.args[0], seq)
    if isinstance(sel, ast.Call) and u(sel.func) == "filter" and len(sel.args) == 2 and isinstance(sel.args[0], ast.Lambda) \
            and len(sel.args[0].args.args) == 1:
        kind = src_kind(sel.args[1])
        if kind is None:
            return None
        var = ast.Name(id=sel.args[0].args.args[0].arg, ctx=ast.Load())
        return rename(var, var, kind), rename(sel.args[0].body, var, kind)
    if isinstance(sel, (ast.GeneratorExp, ast.ListComp)) and len(sel.generators) == 1:
        g = sel.generators[0]
        kind = src_kind(g.iter)
        if kind is None or not g.ifs:
            return None
        cond = g.ifs[0] if len(g.ifs) == 1 else ast.BoolOp(op=ast.And(), values=list(g.ifs))
        return rename(sel.elt, g.target, kind), rename(cond, g.target, kind)
    return None


def _check_markers(paths: Iterable[Path], what: str) -> None:
    for p in paths:
        want = sum(1 for c in p.conds if not (isinstance(c[0], tuple) and c[0] and c[0][0] == "except"))
        have = sum(1 for e in p.effects if e.kind == "cond")
        if want != have:
            raise AnalysisError(f"{what}: condition positions could not be recorded ({have}/{want})")


def _strip_doc(body: list[ast.stmt]) -> list[ast.stmt]:
    if body and isinstance(body[0], ast.Expr) and isinstance(body[0].value, ast.Constant) \
            and isinstance(body[0].value.value, str):
        return body[1:]
    return body


class _Sub(ast.NodeTransformer):
    def __init__(self, env: dict[str, ast.AST]) -> None:
        self.env = env

    def visit_Name(self, node: ast.Name) -> ast.AST:  # noqa: N802
        if isinstance(node.ctx, ast.Load) and node.id in self.env:
            return ast.copy_location(copy.deepcopy(self.env[node.id]), node)
        return node


def _stmts_as_expr(stmts: list[ast.stmt], env: dict[str, ast.AST]) -> ast.expr | None:
    """The value a statement list returns, as one (conditional) expression: only `if`/`return`, plain
    single-name assignments (substituted), assertions and docstrings are understood."""
    if not stmts:
        return None
    s, rest = stmts[0], stmts[1:]
    if isinstance(s, ast.Return):
        return _Sub(env).visit(copy.deepcopy(s.value)) if s.value is not None else ast.Constant(None)
    if isinstance(s, ast.Assert) or isinstance(s, ast.Pass) or (
            isinstance(s, ast.Expr) and isinstance(s.value, ast.Constant)):
        return _stmts_as_expr(rest, env)
    if isinstance(s, (ast.Assign, ast.AnnAssign)):
        tgt = s.targets[0] if isinstance(s, ast.Assign) and len(s.targets) == 1 else getattr(s, "target", None)
        if not isinstance(tgt, ast.Name) or s.value is None:
            return None
        env = dict(env)
        env[tgt.id] = _Sub(env).visit(copy.deepcopy(s.value))
        return _stmts_as_expr(rest, env)
    if isinstance(s, ast.If):
        a = _stmts_as_expr(list(s.body) + rest, env)
        b = _stmts_as_expr(list(s.orelse) + rest, env)
        if a is None or b is None:
            return None
        return ast.copy_location(ast.IfExp(test=_Sub(env).visit(copy.deepcopy(s.test)), body=a, orelse=b), s)
    return None


def inline_value_helpers(prog: Program, fn: FuncInfo, root: FuncNode, rounds: int = 3) -> FuncNode:
    """Calls of private, non-anchored, effect-free helpers with several `return`s are replaced (on `root`,
    already a copy) by the conditional expression they compute — the engine's inliner only takes helpers with
    a single trailing return."""
    for _ in range(rounds):
        changed = False
        for call in [n for n in ast.walk(root) if isinstance(n, ast.Call)]:
            h = _helper_target(prog, fn, call, {})
            if h is None or h is root or h.name in kept(prog) or isinstance(h, ast.AsyncFunctionDef) \
                    or h.name == fn.name:
                continue
            if h.decorator_list and not all(isinstance(d, ast.Name) and d.id in ("staticmethod", "override")
                                            for d in h.decorator_list):
                continue
            binds = _bind(h, call)
            if binds is None:
                continue
            expr = _stmts_as_expr(_strip_doc(list(h.body)), dict(binds))
            if expr is None:
                continue
            _replace_node(root, call, expr, awaited=False)
            changed = True
            break
        if not changed:
            break
    ast.fix_missing_locations(root)
    return root


def spliced(prog: Program, fn: FuncInfo) -> FuncNode:
    """A copy of `fn` in which calls of private value helpers (no effects; any number of returns, reassigned
    parameters and locals allowed) are replaced by the expression they compute.  Helpers with effects are not
    spliced: OrderedSymExec executes them when the call is the whole value of a statement."""
    return inline_value_helpers(prog, fn, copy.deepcopy(fn.node))


def ordered_paths(prog: Program, fn: FuncInfo, inline: bool = True, max_paths: int = 4096) -> list[Path]:
    """Ordered symbolic paths of `fn` (cached per program: rules only read them)."""
    cache = prog.__dict__.setdefault("_c09_paths", {})
    key = (fn.qual, inline)
    if key not in cache:
        cache[key] = _ordered_paths(prog, fn, inline, max_paths)
    return cache[key]


def _ordered_paths(prog: Program, fn: FuncInfo, inline: bool, max_paths: int) -> list[Path]:
    node = spliced(prog, fn) if inline else fn.node
    se = OrderedSymExec(max_paths, prog, fn if inline else None)
    out = []
    for p, st in se.block(Path(), list(_strip_doc(node.body))):
        if st == "next":
            p.exit, p.ret, p.lineno = "fall", None, getattr(node, "end_lineno", 0) or 0
        elif st in ("break", "continue"):
            raise SymUnsupported(f"{fn.qual}: {st} outside a loop")
        out.append(p)
    if not out:
        raise AnalysisError(f"{fn.qual}: no path found")
    _check_markers(out, fn.qual)
    return out


def loop_paths(paths: Iterable[Path], what: str, depth: int = 3, prog: Program | None = None,
               fn: FuncInfo | None = None) -> list[Path]:
    """Paths through the body of every loop met on `paths` (recursively), the locals defined before the
    loop substituted in; the conditions taken before the loop are NOT assumed inside it."""
    out: list[Path] = []
    seen: set[int] = set()
    work = [(p, 0) for p in paths]
    while work:
        p, d = work.pop()
        for e in p.effects:
            if e.kind != "loop" or e.orig is None or id(e.orig) in seen or d >= depth:
                continue
            seen.add(id(e.orig))
            q = Path()
            q.env = dict(getattr(e, "env", {}))
            body = OrderedSymExec(4096, prog, fn).block(q, list(e.orig.body))  # type: ignore[attr-defined]
            ps = [bp for bp, _st in body]
            _check_markers(ps, what)
            out.extend(ps)
            work.extend((bp, d + 1) for bp in ps)
    return out


def index_of(p: Path, eff: Effect) -> int:
    for i, e in enumerate(p.effects):
        if e is eff:
            return i
    raise AnalysisError("effect not on path")


def first_call(p: Path, text: str) -> int | None:
    """Position in `effects` of the first call whose (substituted) text is `text`."""
    for i, e in enumerate(p.effects):
        if e.kind == "call" and u(e.node) == text:
            return i
    return None


# --------------------------------------------------------------------------------------- entailment
def decided(p: Path, key: Any, before: int | None = None) -> bool | None:
    """Outcome of the atomic condition `key` on this path (None: not tested [before that effect])."""
    for i, e in enumerate(p.effects):
        if before is not None and i >= before:
            break
        if e.kind == "cond" and e.orig[0] == key:  # type: ignore[index]
            return e.orig[1]  # type: ignore[index]
    return None


def variants(e: ast.AST | str) -> set[str]:
    """Texts of an expression up to commutativity of its top-level `+` / `*`."""
    if isinstance(e, str):
        e = ast.parse(e, mode="eval").body
    out = {u(e)}
    if isinstance(e, ast.BinOp) and isinstance(e.op, (ast.Add, ast.Mult)):
        out.add(u(ast.BinOp(left=e.right, op=e.op, right=e.left)))
    return out


def _texts(x: Any) -> set[str]:
    if isinstance(x, (str, ast.AST)):
        return variants(x)
    out: set[str] = set()
    for y in x:
        out |= variants(y)
    return out


def entails_le(p: Path, small: Any, big: Any, before: int | None = None) -> bool:
    """The conditions taken entail small <= big (totally ordered operands)."""
    for s in _texts(small):
        for b in _texts(big):
            if s == b or decided(p, ("<", b, s), before) is False or decided(p, ("<=", s, b), before) is True \
                    or decided(p, ("<", s, b), before) is True or decided(p, ("<=", b, s), before) is False \
                    or decided(p, ("==", frozenset({s, b})), before) is True:
                return True
    return False


def entails_lt(p: Path, small: Any, big: Any, before: int | None = None) -> bool:
    """The conditions taken entail small < big (totally ordered operands)."""
    for s in _texts(small):
        for b in _texts(big):
            if decided(p, ("<", s, b), before) is True or decided(p, ("<=", b, s), before) is False:
                return True
    return False


def _call_name(e: ast.AST) -> str:
    return u(e.func) if isinstance(e, ast.Call) else ""


def _bounded(p: Path, e: ast.AST | None, limits: set[str], before: int | None, lower: bool,
             through: Callable[[ast.Call], ast.AST | None] | None) -> bool:
    if e is None:
        return False
    if variants(e) & limits:
        return True
    if isinstance(e, ast.Call) and not e.keywords and e.args and not any(isinstance(a, ast.Starred) for a in e.args):
        name = _call_name(e)
        if len(e.args) >= 2 and name in ("max", "min"):
            keeps = (name == "max") == lower      # max keeps a lower bound of any argument, min an upper bound
            rec = [_bounded(p, a, limits, before, lower, through) for a in e.args]
            if any(rec) if keeps else all(rec):
                return True
        if through is not None:
            inner = through(e)
            if inner is not None and _bounded(p, inner, limits, before, lower, through):
                return True
    if isinstance(e, ast.IfExp):
        return _bounded(p, e.body, limits, before, lower, through) and _bounded(p, e.orelse, limits, before, lower, through)
    return entails_le(p, limits, e, before) if lower else entails_le(p, e, limits, before)


def lower_bounded(p: Path, e: ast.AST | None, limits: Iterable[str], before: int | None = None,
                  through: Callable[[ast.Call], ast.AST | None] | None = None) -> bool:
    """`e` >= one of `limits` on this path."""
    return _bounded(p, e, _texts(list(limits)), before, True, through)


def upper_bounded(p: Path, e: ast.AST | None, limits: Iterable[str], before: int | None = None,
                  through: Callable[[ast.Call], ast.AST | None] | None = None) -> bool:
    """`e` <= one of `limits` on this path."""
    return _bounded(p, e, _texts(list(limits)), before, False, through)


# --------------------------------------------------------------------------------------- mutation summaries
def self_attr_root(e: ast.AST) -> str | None:
    """`self.X`, `self.X[...]`, `self.X.y` -> X."""
    n = e
    last = None
    while isinstance(n, (ast.Attribute, ast.Subscript)):
        if isinstance(n, ast.Attribute):
            last = n.attr
        n = n.value
    if isinstance(n, ast.Name) and n.id == "self":
        # the attribute directly on self is the last one recorded while walking down
        return last
    return None


def _stored_targets(s: ast.AST) -> list[ast.AST]:
    out: list[ast.AST] = []
    for n in walk_no_nested(s):
        if isinstance(n, (ast.Attribute, ast.Subscript)) and isinstance(n.ctx, (ast.Store, ast.Del)):
            out.append(n)
    return out


class MutationSummary:
    """attrs of `self` a method may write (assignment, deletion, item/slice store, mutating container method),
    transitively through `self.<method>(...)` calls resolved in the class hierarchy."""

    def __init__(self, prog: Program, cls: ClassInfo) -> None:
        self.prog = prog
        self.cls = cls
        self._memo: dict[str, set[str]] = {}

    def direct(self, node: ast.AST) -> set[str]:
        out: set[str] = set()
        for t in _stored_targets(node):
            r = self_attr_root(t)
            if r is not None:
                out.add(r)
        for c in walk_no_nested(node):
            if isinstance(c, ast.Call):
                out |= self.of_call(c, _direct_only=True)
        return out

    def of_call(self, c: ast.Call, _direct_only: bool = False, _stack: tuple[str, ...] = ()) -> set[str]:
        f = c.func
        if not isinstance(f, ast.Attribute):
            return set()
        if isinstance(f.value, ast.Name) and f.value.id == "self":
            return set() if _direct_only else self.of_method(f.attr, _stack)
        r = self_attr_root(f.value)
        if r is not None and f.attr in MUTATING_METHODS:
            return {r}
        return set()

    def of_method(self, name: str, _stack: tuple[str, ...] = ()) -> set[str]:
        if name in self._memo:
            return self._memo[name]
        if name in _stack:
            return set()
        m = self.prog.resolve_method(self.cls, name)
        if m is None:
            return set()
        out = self.direct(m.node)
        for c in walk_no_nested(m.node):
            if isinstance(c, ast.Call) and isinstance(c.func, ast.Attribute) \
                    and isinstance(c.func.value, ast.Name) and c.func.value.id == "self":
                out |= self.of_method(c.func.attr, _stack + (name,))
        if not _stack:
            self._memo[name] = out
        return out


def func_params(node: FuncNode, drop_self: bool = True) -> list[str]:
    a = node.args
    names = [x.arg for x in a.posonlyargs + a.args]
    static = any(isinstance(d, ast.Name) and d.id == "staticmethod" for d in node.decorator_list)
    if drop_self and not static and names and names[0] in ("self", "cls"):
        names = names[1:]
    return names + [x.arg for x in a.kwonlyargs]


def subscripts_of(e: ast.AST | None, base: str) -> list[ast.Subscript]:
    """Item reads `base[...]` inside an expression."""
    if e is None:
        return []
    return [n for n in ast.walk(e) if isinstance(n, ast.Subscript) and isinstance(n.ctx, ast.Load)
            and u(n.value) == base]


def is_extreme_of(p: Path, v: ast.AST, a: str, b: str, biggest: bool, before: int | None = None) -> bool:
    """`v` is max(a, b) (biggest) / min(a, b) on this path: the call itself (any argument order), or one of
    the two operands with the path conditions entailing that it is the larger / smaller one."""
    if isinstance(v, ast.Call) and u(v.func) == ("max" if biggest else "min") and not v.keywords \
            and len(v.args) == 2 and {u(x) for x in v.args} == {a, b}:
        return True
    for mine, other in ((a, b), (b, a)):
        if u(v) == mine and (entails_le(p, other, mine, before) if biggest else entails_le(p, mine, other, before)):
            return True
    return False


def zero(p: Path, n: str, before: int | None = None) -> bool | None:
    """Has the path established n == 0 (True) / n != 0 (False) for a non-negative count n?"""
    tests = [(("==", frozenset({n, "0"})), True), (("<=", n, "0"), True), (("<", n, "1"), True),
             (("truthy", n), False), (("<", "0", n), False), (("<=", "1", n), False)]
    for key, pol in tests:
        o = decided(p, key, before)
        if o is not None:
            return o == pol
    return None


def truth(p: Path, text: str, before: int | None = None) -> bool | None:
    return decided(p, ("truthy", text), before)


def none_test(p: Path, text: str, before: int | None = None) -> bool | None:
    """Outcome of `text is None` on this path."""
    return decided(p, ("is", frozenset({text, "None"})), before)


def writes(p: Path) -> list[tuple[int, ast.AST, ast.AST, int]]:
    """(position, target, value, line) of every attribute / item store on the path."""
    return [(i, e.node.elts[0], e.node.elts[1], e.lineno)  # type: ignore[attr-defined]
            for i, e in enumerate(p.effects) if e.kind == "write"]


def rename_comp_vars(e: ast.AST) -> ast.AST:
    """Comprehension variables renamed canonically (v0, v1, ...) on a copy, so that two comprehensions that
    differ only in the variable name coincide."""
    e = copy.deepcopy(e)
    k = 0
    for n in ast.walk(e):
        if isinstance(n, (ast.GeneratorExp, ast.ListComp, ast.SetComp)):
            for g in n.generators:
                if isinstance(g.target, ast.Name):
                    old, new = g.target.id, f"v{k}"
                    k += 1
                    for m in ast.walk(n):
                        if isinstance(m, ast.Name) and m.id == old:
                            m.id = new
    return e
