"""Support code for C11: a symbolic interpreter of PowerManagingActor methods and structural
builders for the in-memory controls.

The interpreter gives meaning to the *shared state* of the actor (the two Matryoshka groups, the
system-bounds cache, the subscription tables, the requests sender) and to the public API it calls
(`calculate_target_power`, `get_target_power`, `get_status`, `send`, `Request`, `Bounds`,
`SystemBounds`).  Everything else is plain Python semantics from `engine.absint.Interp`: locals may
have any name, values may travel through introduced locals, ternaries, early returns, keyword or
positional arguments and through private helper methods / module functions (which are interpreted,
not pattern-matched).  What the interpreter cannot give meaning to raises AnalysisError.
"""
from __future__ import annotations

import ast
from typing import Any, Iterable

from ..engine.absint import Interp, Obj, _Break, _Continue, _Raise, _Return
from ..engine.report import AnalysisError
from ..engine.resolver import ClassInfo, FuncInfo, Program, walk_no_nested

GROUP_ATTRS = {"_set_op_power_group": "op", "_set_power_group": "reg"}
SUBS_ATTRS = {"_set_op_power_subscriptions": "op", "_set_power_subscriptions": "reg"}
CACHE_ATTR = "_system_bounds"
REQ_SENDER_ATTR = "_power_distributing_requests_sender"
ALGO = "microgrid._power_managing._base_classes:BaseAlgorithm"


# ------------------------------------------------------------------------------ symbolic values
class Sym:
    """An opaque value (a Power, a component-id set, a message …) compared by identity."""

    def __init__(self, name: str) -> None:
        self.name = name

    def __repr__(self) -> str:
        return self.name


class Flag:
    """An unknown boolean input; decided (forked) the first time its truth value is needed."""

    def __init__(self, name: str) -> None:
        self.name = name

    def __repr__(self) -> str:
        return self.name


class Lin:
    """Integer linear combination of symbols (`a + b`, `lo - x`), compared up to commutativity."""

    def __init__(self, coeffs: dict[str, int]) -> None:
        self.coeffs = {k: c for k, c in coeffs.items() if c != 0}

    def __repr__(self) -> str:
        out = ""
        for k in sorted(self.coeffs):
            c = self.coeffs[k]
            sign = "-" if c < 0 else "+"
            mag = "" if abs(c) == 1 else f"{abs(c)}*"
            out += f" {sign} {mag}{k}" if out or c < 0 else f"{mag}{k}"
        return out.strip() or "0"


def lin_of(v: Any) -> dict[str, int] | None:
    """Coefficients of a power value; None (the Python value) contributes nothing."""
    if v is None:
        return {}
    if isinstance(v, Sym):
        return {v.name: 1}
    if isinstance(v, Lin):
        return dict(v.coeffs)
    return None


def by_name(params: list[str], pos: list[Any], kw: dict[str, Any], what: str) -> dict[str, Any]:
    """Positional and keyword arguments of a call keyed by parameter name."""
    if len(pos) > len(params):
        raise AnalysisError(f"{what}: too many positional arguments")
    out = dict(zip(params, pos))
    for k, v in kw.items():
        if k in out or k not in params:
            raise AnalysisError(f"{what}: unexpected keyword argument {k}")
        out[k] = v
    return out


def dataclass_fields(cls: ClassInfo) -> list[str]:
    out = []
    for s in cls.node.body:
        if isinstance(s, ast.AnnAssign) and isinstance(s.target, ast.Name) \
                and "ClassVar" not in ast.unparse(s.annotation):
            out.append(s.target.id)
    return out


# ------------------------------------------------------------------------------ the interpreter
class ActorInterp(Interp):
    """Interprets methods of the actor class; `opaque` methods become recorded events."""

    def __init__(self, prog: Program, cls: ClassInfo, opaque: dict[str, str]) -> None:
        super().__init__()
        self.prog = prog
        self.cls = cls
        self.opaque = dict(opaque)  # method name -> role ("calc", "shift", "su", "reports", "tracker")
        algo = prog.cls(ALGO)
        self.algo_params: dict[str, list[str]] = {}
        for m in ("calculate_target_power", "get_target_power", "get_status"):
            fi = prog.resolve_method(algo, m)
            if fi is None:
                raise AnalysisError(f"{ALGO}.{m} not found")
            self.algo_params[m] = fi.params[1:]
        self.reset()

    # -------------------------------------------------------------- per-run state
    def reset(self) -> None:
        self.stored: dict[str, Any] = {}       # group -> current target (absent = None)
        self.events: list[dict[str, Any]] = []
        self.cache: dict[Any, Any] = {}        # what was written to self._system_bounds[...]
        self.initial_sb: dict[Any, Obj] = {}
        self.flags: dict[str, bool] = {}
        self.memo: dict[str, Any] = {}         # per-run answers of the environment (cache hit, subscribers)
        self.facts: dict[Any, bool] = {}       # per-run decided facts (field is None, a <= b, …)
        self.fresh = 0
        self.ret_seq = 0
        self.ret_node: ast.AST | None = None
        self.ids: Any = None                   # the component-id set this run is about
        self.n_messages = 2
        self.inputs: dict[str, Any] = {}       # what make_args fed into this run

    def snapshot(self) -> Any:
        return {"stored": dict(self.stored), "events": list(self.events), "ret_node": self.ret_node,
                "cache": dict(self.cache), "inputs": dict(self.inputs)}

    def environment(self, ids: Any) -> dict[str, bool]:
        """Decide now (instead of on first use) whether bounds are cached and who subscribed."""
        cached = self.choose(2, "no system bounds cached yet") == 0
        self.memo["cached"] = cached
        out = {"cached": cached}
        for g in ("op", "reg"):
            has = self.choose(2, f"no {g} subscribers") == 0
            self.memo[g] = {Sym(f"priority_{g}"): Obj("Sender", group=g)} if has else None
            out[g] = has
        return out

    def is_cached(self, key: Any) -> bool:
        """Whether self._system_bounds has an entry for the group (one answer per run)."""
        if key in self.cache:
            return True
        if "cached" not in self.memo:  # nothing else writes the cache during the run
            self.memo["cached"] = self.choose(2, "no system bounds cached yet") == 0
        return bool(self.memo["cached"])

    def subscribers(self, group: str) -> dict[Any, Any] | None:
        """The {priority: sender} entry of the group's subscription table, None if absent."""
        if group not in self.memo:
            self.memo[group] = {Sym(f"priority_{group}"): Obj("Sender", group=group)} \
                if self.choose(2, f"no {group} subscribers") == 0 else None
        return self.memo[group]

    def self_obj(self) -> Obj:
        return Obj("self")

    def same_ids(self, v: Any, what: str) -> None:
        if v is not self.ids:
            raise AnalysisError(f"{what}: component ids `{v!r}` are not the group under analysis "
                                "(the C11 domain tracks one component group)")

    def system_bounds(self, key: Any) -> Any:
        if key in self.cache:
            return self.cache[key]
        if key not in self.initial_sb:
            self.initial_sb[key] = Obj("SB", ids=key)
        return self.initial_sb[key]

    # -------------------------------------------------------------- statements
    def stmt(self, s: ast.stmt) -> None:
        if isinstance(s, ast.Return):
            before = self.ret_seq
            v = self.eval(s.value) if s.value is not None else None
            if self.ret_seq == before:
                self.ret_node = s  # the innermost return that produced the value
            self.ret_seq += 1
            raise _Return(v)
        if isinstance(s, ast.AsyncFor):
            src = self.eval(s.iter)
            if not (isinstance(src, Obj) and src.cls == "Receiver"):
                raise AnalysisError(f"async for over {src!r} not modelled (line {s.lineno})")
            broke = False
            for i in range(self.n_messages):
                item = Obj("SB", ids=self.ids, message=i + 1)
                self.events.append({"kind": "recv", "value": item, "node": s, "cache": dict(self.cache)})
                self.assign(s.target, item)
                try:
                    self.block(s.body)
                except _Break:
                    broke = True
                    break
                except _Continue:
                    continue
            if not broke:
                self.block(s.orelse)
            return
        super().stmt(s)

    def eval(self, e: ast.AST | None) -> Any:
        if isinstance(e, ast.Subscript) and isinstance(e.slice, ast.Slice):
            return eval_slice(self, e)
        return super().eval(e)

    # -------------------------------------------------------------- names / attributes
    def unknown_name(self, ident: str, node: ast.AST) -> Any:
        mod = self.cls.module
        if ident in mod.functions:
            return ("function", mod.functions[ident])
        return ("global", ident)

    def attr_of(self, base: Any, attr: str, node: ast.AST) -> Any:
        if isinstance(base, tuple) and base and base[0] == "global":
            return ("global", f"{base[1]}.{attr}")
        if isinstance(base, (Sym, Lin)):
            return ("power", base, attr)  # a method of a power value (isclose, ...)
        return super().attr_of(base, attr, node)

    def fork(self, key: Any, label: str, node: ast.AST | None) -> bool:
        """An environment fact decided once per run (forked); recorded with the construct asking."""
        if key not in self.facts:
            self.facts[key] = self.choose(2, label) == 1
            self.events.append({"kind": "fork", "label": label, "outcome": self.facts[key], "node": node})
        return self.facts[key]

    def get_attr(self, base: Any, attr: str, node: ast.AST) -> Any:
        if isinstance(base, Obj) and base.cls == "SB" and attr not in base.fields \
                and attr in ("timestamp", "inclusion_bounds", "exclusion_bounds"):
            # a SystemBounds message / cache entry: fields are unknown, decided when first read
            tag = "message" if "message" in base.fields else "cached bounds"
            n = base.fields.get("message", "")
            if attr == "timestamp":
                base.fields[attr] = Sym(f"{tag}{n}.timestamp")
            elif self.fork((id(base), attr), f"{tag}{n}.{attr} is None", node):
                base.fields[attr] = None
            else:
                base.fields[attr] = Obj("Bounds", lower=Sym(f"{tag}{n}.{attr}.lower"),
                                        upper=Sym(f"{tag}{n}.{attr}.upper"))
            return base.fields[attr]
        if isinstance(base, Obj) and base.cls == "self":
            if attr in GROUP_ATTRS:
                return Obj("Group", name=GROUP_ATTRS[attr])
            if attr in SUBS_ATTRS:
                return Obj("Subs", name=SUBS_ATTRS[attr])
            if attr == CACHE_ATTR:
                return Obj("BoundsCache")
            if attr == REQ_SENDER_ATTR:
                return Obj("ReqSender")
            if attr in self.opaque:
                return ("actor", attr)
            m = self.prog.resolve_method(self.cls, attr)
            if m is not None and m.cls is not None:
                return ("method", m)
            raise AnalysisError(f"self.{attr} not modelled in the C11 domain")
        return super().get_attr(base, attr, node)

    def obj_method(self, base: Obj, attr: str, node: ast.AST) -> Any:
        if base.cls == "Group" and attr in self.algo_params:
            return ("group", attr, base.fields["name"])
        if base.cls == "BoundsCache" and attr == "get":
            return ("cacheget",)
        if base.cls == "Subs" and attr == "get":
            return ("subsget", base.fields["name"])
        if base.cls == "ReqSender" and attr == "send":
            return ("reqsend",)
        if base.cls == "Sender" and attr == "send":
            return ("repsend", base)
        raise AnalysisError(f"{base.cls}.{attr} not modelled in the C11 domain "
                            f"(line {getattr(node, 'lineno', '?')})")

    def get_item(self, base: Any, key: Any, node: ast.AST) -> Any:
        if isinstance(base, Obj) and base.cls == "BoundsCache":
            self.same_ids(key, "self._system_bounds[...]")
            if self.memo.get("cached") is False and key not in self.cache:
                raise _Raise("KeyError", node)  # a run in which the entry is known to be absent
            return self.system_bounds(key)      # (a bare subscript asserts that the entry exists)
        if isinstance(base, Obj) and base.cls == "Subs":
            self.same_ids(key, f"{base.fields['name']} subscriptions[...]")
            subs = self.subscribers(base.fields["name"])
            if subs is None:
                raise _Raise("KeyError", node)
            return subs
        if isinstance(base, tuple) and base and base[0] == "global":
            return base  # Bounds[Power](...) is Bounds(...)
        return super().get_item(base, key, node)

    def set_item(self, base: Any, key: Any, v: Any, node: ast.AST) -> None:
        if isinstance(base, Obj) and base.cls == "BoundsCache":
            self.same_ids(key, "self._system_bounds[...] = ...")
            self.cache[key] = v
            self.events.append({"kind": "store", "key": key, "value": v, "node": node})
            return
        super().set_item(base, key, v, node)

    def set_attr(self, base: Any, attr: str, v: Any, node: ast.AST) -> None:
        if isinstance(base, Obj) and base.cls in ("self", "SystemBounds", "Bounds", "Request", "SB",
                                                  "Group", "Subs", "BoundsCache"):
            raise AnalysisError(f"write to {base.cls}.{attr} not modelled in the C11 domain")
        super().set_attr(base, attr, v, node)

    # -------------------------------------------------------------- calls
    def apply(self, fn: Any, pos: list[Any], kw: dict[str, Any], node: ast.AST) -> Any:  # noqa: C901
        if not (isinstance(fn, tuple) and fn):
            return super().apply(fn, pos, kw, node)
        tag = fn[0]
        if tag in ("method", "function"):
            fi: FuncInfo = fn[1]
            me = self.self_obj() if tag == "method" and not _is_static(fi.node) else None
            args = self.bind_args(fi.node, pos, kw, self_value=me)
            return self.call_node(fi.node, args)
        if tag == "group":
            return self.group_call(fn[1], fn[2], pos, kw, node)
        if tag == "cacheget":
            if not pos:
                raise AnalysisError("self._system_bounds.get() call shape not recognised")
            self.same_ids(pos[0], "self._system_bounds.get(...)")
            if self.is_cached(pos[0]):
                return self.system_bounds(pos[0])
            return pos[1] if len(pos) > 1 else kw.get("default")
        if tag == "subsget":
            if not pos:
                raise AnalysisError("subscriptions.get() call shape not recognised")
            self.same_ids(pos[0], f"{fn[1]} subscriptions.get(...)")
            subs = self.subscribers(fn[1])
            if subs is not None:
                return subs
            return pos[1] if len(pos) > 1 else None
        if tag == "reqsend":
            if len(pos) != 1 or kw:
                raise AnalysisError("requests sender send() call shape not recognised")
            self.events.append({"kind": "request", "value": pos[0], "node": node})
            return None
        if tag == "repsend":
            self.events.append({"kind": "report", "sender": fn[1], "value": pos[0] if pos else None,
                                "node": node})
            return None
        if tag == "actor":
            return self.actor_call(fn[1], pos, kw, node)
        if tag == "power":
            return power_method(self, fn[1], fn[2], pos, kw, node)
        return super().apply(fn, pos, kw, node)

    def group_call(self, meth: str, group: str, pos: list[Any], kw: dict[str, Any],
                   node: ast.AST) -> Any:
        a = by_name(self.algo_params[meth], pos, kw, f"{group}.{meth}")
        p = self.algo_params[meth]
        if p[0] not in a:
            raise AnalysisError(f"{meth} call shape not recognised")
        self.same_ids(a[p[0]], f"{group} group {meth}")
        if meth == "get_target_power":
            return self.stored.get(group)
        if meth == "get_status":
            if len(p) < 3 or p[2] not in a:
                raise AnalysisError("get_status call shape not recognised")
            self.events.append({"kind": "status", "group": group, "priority": a.get(p[1]),
                                "bounds": a[p[2]], "node": node})
            return Obj("Report", group=group)
        # calculate_target_power(component_ids, proposal, system_bounds, must_return_power)
        if len(p) < 3 or p[1] not in a or p[2] not in a:
            raise AnalysisError("calculate_target_power call shape not recognised")
        before = self.stored.get(group)
        changed = self.choose(2, f"{group}.calculate_target_power returns new target") == 1
        if changed:
            self.fresh += 1
            val: Any = Sym(f"T_{group}_new{self.fresh}")
            self.stored[group] = val
        else:
            val = None  # unchanged (or no proposals at all): stored target stays as it was
        self.events.append({"kind": "recalc", "group": group, "proposal": a[p[1]], "bounds": a[p[2]],
                            "result": val, "stored_before": before, "node": node})
        return val

    def actor_call(self, name: str, pos: list[Any], kw: dict[str, Any], node: ast.AST) -> Any:
        """A call of another role holder: not followed, recorded as an event named after the role."""
        role = self.opaque[name]
        fi = self.prog.resolve_method(self.cls, name)
        if fi is None:
            raise AnalysisError(f"anchor {self.cls.qual}.{name} not found")
        a = by_name(fi.params[1:], pos, kw, f"self.{name}")
        vals = [a.get(p, _MISSING) for p in fi.params[1:]]
        if role == "shift":
            if len(vals) < 2 or vals[0] is _MISSING or vals[1] is _MISSING:
                raise AnalysisError(f"{name} call shape not recognised")
            return Obj("Shifted", base=vals[0], by=vals[1])
        ev: dict[str, Any] = {"kind": role, "args": vals, "node": node, "cache": dict(self.cache)}
        if role == "calc":
            if self.choose(2, f"{name} returns a power") == 1:
                ev["result"] = Sym("target_power")
            else:
                ev["result"] = None
            self.events.append(ev)
            return ev["result"]
        self.events.append(ev)
        return None

    def apply_other(self, fn: Any, pos: list[Any], kw: dict[str, Any], node: ast.AST) -> Any:
        if isinstance(fn, tuple) and fn and fn[0] == "global":
            dotted = fn[1]
            last = dotted.rsplit(".", 1)[-1]
            head = dotted.split(".", 1)[0]
            if head in ("_logger", "logging", "_log"):
                return None
            res = pure_builtin(self, dotted, pos, kw, node)
            if res is not _NOT_BUILTIN:
                return res
            res = power_builtin(self, dotted, pos, kw, node)
            if res is not _NOT_BUILTIN:
                return res
            if last in ("Request", "Bounds", "SystemBounds"):
                target = self.prog.resolve_name(self.cls.module, dotted)
                if isinstance(target, ClassInfo):
                    fields = dataclass_fields(target)
                elif pos:
                    raise AnalysisError(f"{dotted}(...) with positional arguments: class not resolved")
                else:
                    fields = list(kw)
                return Obj(last, **by_name(fields, pos, kw, dotted))
            if last == "replace" and pos and isinstance(pos[0], Obj) and not pos[1:]:
                new = Obj(pos[0].cls, **pos[0].fields)
                new.fields.update(kw)
                return new
            raise AnalysisError(f"call of {dotted} not modelled in the C11 domain "
                                f"(line {getattr(node, 'lineno', '?')})")
        return super().apply_other(fn, pos, kw, node)

    # -------------------------------------------------------------- domain
    def binop(self, op: ast.operator, a: Any, b: Any, node: ast.AST) -> Any:
        la, lb = lin_of(a), lin_of(b)
        if isinstance(op, (ast.Add, ast.Sub)) and la is not None and lb is not None:
            if a is None or b is None:
                raise _Raise("TypeError", node)  # None + Power
            sign = 1 if isinstance(op, ast.Add) else -1
            out = dict(la)
            for k, c in lb.items():
                out[k] = out.get(k, 0) + sign * c
            return Lin(out)
        if isinstance(op, ast.Mult) and (_is_int(a) and lb is not None and b is not None
                                         or _is_int(b) and la is not None and a is not None):
            factor: int = a if _is_int(a) else b
            scaled: dict[str, int] = (lb if _is_int(a) else la) or {}
            return Lin({n: c * factor for n, c in scaled.items()})
        if isinstance(op, (ast.Mult, ast.Div, ast.FloorDiv, ast.Mod, ast.Pow)) and (
                isinstance(a, (Sym, Lin)) or isinstance(b, (Sym, Lin))) and all(
                isinstance(x, (Sym, Lin, int, float)) and not isinstance(x, bool) for x in (a, b)):
            # a scaled / divided power: some other value, equal to no target, sum or bound of the domain
            return Sym(f"({a!r} {_OP_TEXT.get(type(op), '?')} {b!r})")
        raise AnalysisError("operator on power values not modelled (only `+`/`-` of powers, scaling)")

    def unaryop(self, op: ast.unaryop, v: Any, node: ast.AST) -> Any:
        lv = lin_of(v)
        if isinstance(op, ast.USub) and lv is not None and v is not None:
            return Lin({k: -c for k, c in lv.items()})
        if isinstance(op, ast.UAdd) and lv is not None and v is not None:
            return v
        return super().unaryop(op, v, node)

    def contains(self, container: Any, item: Any, node: ast.AST) -> bool:
        if isinstance(container, Obj) and container.cls == "BoundsCache":
            self.same_ids(item, "`in self._system_bounds`")
            return self.is_cached(item)
        if isinstance(container, Obj) and container.cls == "Subs":
            self.same_ids(item, f"`in` {container.fields['name']} subscriptions")
            return self.subscribers(container.fields["name"]) is not None
        if isinstance(container, (list, tuple)):
            # `x in seq` tests identity first, then equality
            return any(x is item or self.concrete_eq(item, x, node) for x in container)
        return super().contains(container, item, node)

    def compare_values(self, op: ast.cmpop, a: Any, b: Any, node: ast.AST) -> Any:
        return compare_opaque(self, op, a, b, node) if _opaque_pair(a, b) else \
            super().compare_values(op, a, b, node)

    def truth_of(self, v: Any, node: ast.AST | None) -> bool:
        if isinstance(v, Flag):
            if v.name not in self.flags:
                self.flags[v.name] = self.choose(2, f"{v.name} is true") == 1
            return self.flags[v.name]
        if isinstance(v, (Sym, Lin, Obj)):
            return True  # Quantity / dataclasses define no __bool__/__len__: truthiness is a None test
        return super().truth_of(v, node)


_MISSING = Sym("<missing>")
_NOT_BUILTIN = Sym("<not a modelled builtin>")


_OP_TEXT = {ast.Mult: "*", ast.Div: "/", ast.FloorDiv: "//", ast.Mod: "%", ast.Pow: "**"}


def _is_int(v: Any) -> bool:
    return isinstance(v, int) and not isinstance(v, bool)


def power_method(interp: Any, base: Any, attr: str, pos: list[Any], kw: dict[str, Any], node: ast.AST) -> Any:
    """A method called on a power value.  `isclose` is a fact of the environment (forked once per run, keyed by
    the difference of the two values); any other method yields some other value of which nothing is known - it
    is identical to no target, sum or bound, so a rule that demands "this very value" fails on it."""
    if attr == "isclose" and pos and (pos[0] is None or isinstance(pos[0], (Sym, Lin))):
        if pos[0] is None:
            raise _Raise("AttributeError", node)
        d = _diff_key(base, pos[0])
        if d is None:
            return True
        key, _sign = d
        return interp.fork(("isclose", key), f"{base!r}.isclose({pos[0]!r})", node)
    args = ", ".join([repr(x) for x in pos] + [f"{k}={v!r}" for k, v in kw.items()])
    return Sym(f"{base!r}.{attr}({args})")


def power_builtin(interp: Any, name: str, pos: list[Any], kw: dict[str, Any], node: ast.AST) -> Any:
    """`Power.zero()` / `Power.from_watts(...)` (a power value of its own), `min` / `max` of power values (one
    of the arguments, selected by forked order facts), `abs` (some other value)."""
    head = name.split(".", 1)[0]
    if head == "Power" and "." in name:
        args = ", ".join([repr(x) for x in pos] + [f"{k}={v!r}" for k, v in kw.items()])
        return Sym(f"{name}({args})")
    if name in ("min", "max") and len(pos) >= 2 and not kw and all(
            x is None or isinstance(x, (Sym, Lin)) for x in pos):
        if any(x is None for x in pos):
            raise _Raise("TypeError", node)
        best = pos[0]
        for x in pos[1:]:
            # min: x replaces best if x < best; max: if x > best
            if compare_opaque(interp, ast.Lt() if name == "min" else ast.Gt(), x, best, node):
                best = x
        return best
    if name == "abs" and len(pos) == 1 and not kw and isinstance(pos[0], (Sym, Lin)):
        return Sym(f"abs({pos[0]!r})")
    return _NOT_BUILTIN


def _diff_key(a: Any, b: Any) -> tuple[tuple[tuple[str, int], ...], int] | None:
    """Canonical form of `a - b` for two power values: (sorted coefficients with a positive leading one,
    the sign that was factored out); None if the difference is identically zero."""
    la, lb = lin_of(a), lin_of(b)
    assert la is not None and lb is not None
    d = dict(la)
    for k, c in lb.items():
        d[k] = d.get(k, 0) - c
    items = sorted((k, c) for k, c in d.items() if c != 0)
    if not items:
        return None
    sign = 1 if items[0][1] > 0 else -1
    return tuple((k, c * sign) for k, c in items), sign


def eval_slice(interp: Interp, e: ast.Subscript) -> Any:
    """`seq[a:b:c]` on a concrete list / tuple with concrete integer bounds."""
    base = interp.eval(e.value)
    sl = e.slice
    assert isinstance(sl, ast.Slice)
    parts = [interp.eval(x) if x is not None else None for x in (sl.lower, sl.upper, sl.step)]
    if isinstance(base, (list, tuple)) and all(x is None or (isinstance(x, int) and not isinstance(x, bool))
                                               for x in parts):
        return base[slice(*parts)]
    raise AnalysisError(f"slice of {type(base).__name__} not interpretable (line {e.lineno})")


def pure_builtin(interp: Interp, name: str, pos: list[Any], kw: dict[str, Any], node: ast.AST) -> Any:
    """all / any / len / bool / list / tuple / sorted-free builtins over concrete sequences whose
    elements the domain can judge (a loop written as a comprehension / any / all)."""
    if kw or len(pos) != 1:
        return _NOT_BUILTIN
    v = pos[0]
    if name in ("all", "any") and isinstance(v, (list, tuple)):
        truths = [interp.truth(x, node) for x in v]
        return all(truths) if name == "all" else any(truths)
    if name == "len" and isinstance(v, (list, tuple, dict, set, frozenset)):
        return len(v)
    if name == "bool":
        return interp.truth(v, node)
    if name in ("list", "tuple") and isinstance(v, (list, tuple)):
        return list(v) if name == "list" else tuple(v)
    return _NOT_BUILTIN


def _opaque_pair(a: Any, b: Any) -> bool:
    sym = (Sym, Lin, Obj)
    return (isinstance(a, sym) and (b is None or isinstance(b, sym))) or (a is None and isinstance(b, sym))


def compare_opaque(interp: Any, op: ast.cmpop, a: Any, b: Any, node: ast.AST) -> bool:
    """==, !=, <, <=, >, >= on opaque values: None never equals a value, a value equals itself,
    anything else is an unknown fact of the environment (forked once per run, kept consistent
    between an operator and its mirror / complement)."""
    eq = isinstance(op, (ast.Eq, ast.NotEq))
    if a is None or b is None:
        if eq:
            return isinstance(op, ast.NotEq)
        raise _Raise("TypeError", node)
    if not (isinstance(a, Sym) and isinstance(b, Sym)):
        if eq and a is b:
            return isinstance(op, ast.Eq)
        if isinstance(a, (Sym, Lin)) and isinstance(b, (Sym, Lin)):
            # linear combinations of powers (`hi - x < x - lo`): the sign of the difference is a fact of the
            # environment, forked once per run for the canonical form of `a - b`
            d = _diff_key(a, b)
            if d is None:
                return isinstance(op, (ast.Eq, ast.LtE, ast.GtE))
            key, sign = d
            form = Lin(dict(key))
            zero = interp.fork(("eq0", key), f"{form!r} == 0", node)
            if eq:
                return zero if isinstance(op, ast.Eq) else not zero
            if zero:
                return isinstance(op, (ast.LtE, ast.GtE))
            neg = interp.fork(("lt0", key), f"{form!r} < 0", node)
            a_lt_b = neg if sign == 1 else not neg
            return a_lt_b if isinstance(op, (ast.Lt, ast.LtE)) else not a_lt_b
        raise AnalysisError(f"comparison of {a!r} and {b!r} not modelled "
                            f"(line {getattr(node, 'lineno', '?')})")
    if a is b:
        return isinstance(op, (ast.Eq, ast.LtE, ast.GtE))
    if eq:
        same = interp.fork(("eq", frozenset((a.name, b.name))), f"{a} == {b}", node)
        return same if isinstance(op, ast.Eq) else not same
    # order: decide `x < y` and `x == y` for the sorted pair, derive the rest
    x, y = sorted((a, b), key=lambda v: v.name)
    if interp.fork(("eq", frozenset((a.name, b.name))), f"{x} == {y}", node):
        return isinstance(op, (ast.LtE, ast.GtE))
    x_lt_y = interp.fork(("lt", x.name, y.name), f"{x} < {y}", node)
    a_lt_b = x_lt_y if a is x else not x_lt_y
    return a_lt_b if isinstance(op, (ast.Lt, ast.LtE)) else not a_lt_b


def _is_static(fn: ast.AST) -> bool:
    return any(isinstance(d, ast.Name) and d.id == "staticmethod" for d in getattr(fn, "decorator_list", []))


def is_shift(v: Any) -> bool:
    return isinstance(v, Obj) and v.cls == "Shifted"


# ------------------------------------------------------------------------------ the resolver
MATRYOSHKA = "microgrid._power_managing._matryoshka:Matryoshka"


class ResolverInterp(Interp):
    """Interprets Matryoshka.calculate_target_power over: bucket of the group absent / empty /
    non-empty, stored target absent / present, validation passes / fails, fresh target equal /
    unequal to the stored one, must_return_power.  `_calc_target_power` and
    `_validate_component_ids` are opaque (C03 decides them); other private helpers are interpreted."""

    HINTS = {"sweep": "_calc_target_power", "validate": "_validate_component_ids"}

    def __init__(self, prog: Program, cls: ClassInfo) -> None:
        super().__init__()
        self.prog = prog
        self.cls = cls
        self.opaque = self.bind_opaque()  # method name -> role
        self.reset()

    def bind_opaque(self) -> dict[str, str]:
        """The two methods that are not followed: the proposal sweep (computes a target from a
        bucket and bounds) and the id validation.  The historical names are hints; otherwise the
        sweep is the reachable private method that loops over its own first parameter and the
        validation the one that raises NotImplementedError (overlapping groups)."""
        out: dict[str, str] = {}
        root = self.cls.methods.get("calculate_target_power")
        reach = reachable_methods(self.prog, self.cls, root)[1:] if root is not None else []
        for role, hint in self.HINTS.items():
            if hint in self.cls.methods:
                out[hint] = role
                continue
            for m in reach:
                first = m.params[1] if len(m.params) > 1 else None
                if role == "sweep" and first is not None and any(
                        isinstance(n, ast.For) and any(isinstance(x, ast.Name) and x.id == first
                                                       for x in ast.walk(n.iter)) for n in ast.walk(m.node)):
                    out[m.name] = role
                    break
                if role == "validate" and any(
                        isinstance(n, ast.Raise) and n.exc is not None and "NotImplementedError" in ast.unparse(n.exc)
                        for n in ast.walk(m.node)):
                    out[m.name] = role
                    break
        return out

    def reset(self) -> None:
        self.bucket = "absent"            # absent | empty | nonempty | unknown
        self.bucket_obj = Obj("Bucket")
        self.stored: Any = None
        self.events: list[dict[str, Any]] = []
        self.facts: dict[Any, bool] = {}
        self.flags: dict[str, bool] = {}
        self.inputs: dict[str, Any] = {}
        self.ids: Any = None
        self.ret_seq = 0
        self.ret_node: ast.AST | None = None
        self.last_test: ast.AST | None = None
        self.valid: bool | None = None

    def snapshot(self) -> Any:
        return {"bucket": self.bucket, "stored": self.stored, "events": list(self.events),
                "inputs": dict(self.inputs), "ret_node": self.ret_node, "last_test": self.last_test,
                "valid": self.valid, "facts": dict(self.facts)}

    def fork(self, key: Any, label: str, node: ast.AST | None) -> bool:
        if key not in self.facts:
            self.facts[key] = self.choose(2, label) == 1
        return self.facts[key]

    def same_ids(self, v: Any, what: str) -> None:
        if v is not self.ids:
            raise AnalysisError(f"{what}: key `{v!r}` is not the component group under analysis")

    def stmt(self, s: ast.stmt) -> None:
        if isinstance(s, ast.Return):
            before = self.ret_seq
            v = self.eval(s.value) if s.value is not None else None
            if self.ret_seq == before:
                self.ret_node = s
            self.ret_seq += 1
            raise _Return(v)
        if isinstance(s, (ast.If, ast.While)):
            self.last_test = s.test
        super().stmt(s)

    def eval(self, e: ast.AST | None) -> Any:
        if isinstance(e, ast.IfExp):
            self.last_test = e.test
        if isinstance(e, ast.Subscript) and isinstance(e.slice, ast.Slice):
            return eval_slice(self, e)
        return super().eval(e)

    # -------------------------------------------------------------- names / attributes
    def unknown_name(self, ident: str, node: ast.AST) -> Any:
        mod = self.cls.module
        if ident in mod.functions:
            return ("function", mod.functions[ident])
        return ("global", ident)

    def attr_of(self, base: Any, attr: str, node: ast.AST) -> Any:
        if isinstance(base, tuple) and base and base[0] == "global":
            return ("global", f"{base[1]}.{attr}")
        return super().attr_of(base, attr, node)

    def get_attr(self, base: Any, attr: str, node: ast.AST) -> Any:
        if isinstance(base, Obj) and base.cls == "self":
            if attr == "_component_buckets":
                return Obj("Buckets")
            if attr == "_target_power":
                return Obj("Targets")
            if attr in self.opaque:
                return ("resolver", attr)
            m = self.prog.resolve_method(self.cls, attr)
            if m is not None and m.cls is not None:
                return ("method", m)
            raise AnalysisError(f"Matryoshka: self.{attr} not modelled in the C11 domain")
        return super().get_attr(base, attr, node)

    def obj_method(self, base: Obj, attr: str, node: ast.AST) -> Any:
        if base.cls in ("Buckets", "Targets", "Bucket"):
            return ("state", base.cls, attr)
        raise AnalysisError(f"Matryoshka: {base.cls}.{attr} not modelled (line {getattr(node, 'lineno', '?')})")

    def get_item(self, base: Any, key: Any, node: ast.AST) -> Any:
        if isinstance(base, Obj) and base.cls == "Buckets":
            self.same_ids(key, "self._component_buckets[...]")
            if self.bucket == "absent":
                raise _Raise("KeyError", node)
            return self.bucket_obj
        if isinstance(base, Obj) and base.cls == "Targets":
            self.same_ids(key, "self._target_power[...]")
            if self.stored is None:
                raise _Raise("KeyError", node)
            return self.stored
        return super().get_item(base, key, node)

    def set_item(self, base: Any, key: Any, v: Any, node: ast.AST) -> None:
        if isinstance(base, Obj) and base.cls == "Targets":
            self.same_ids(key, "self._target_power[...] = ...")
            self.stored = v
            self.events.append({"kind": "store", "value": v, "node": node})
            return
        if isinstance(base, Obj) and base.cls == "Buckets":
            self.same_ids(key, "self._component_buckets[...] = ...")
            if isinstance(v, set) and not v:
                self.bucket = "empty"
            elif v is self.bucket_obj:
                pass
            else:
                raise AnalysisError("Matryoshka: bucket replaced by a value that is not modelled")
            return
        super().set_item(base, key, v, node)

    def delete(self, t: ast.AST) -> None:
        if isinstance(t, ast.Subscript):
            base = self.eval(t.value)
            if isinstance(base, Obj) and base.cls in ("Buckets", "Targets"):
                raise AnalysisError(f"Matryoshka: del on {base.cls} not modelled")
        super().delete(t)

    def contains(self, container: Any, item: Any, node: ast.AST) -> bool:
        if isinstance(container, Obj) and container.cls == "Buckets":
            self.same_ids(item, "`in self._component_buckets`")
            return self.bucket != "absent"
        if isinstance(container, Obj) and container.cls == "Targets":
            self.same_ids(item, "`in self._target_power`")
            return self.stored is not None
        if isinstance(container, Obj) and container.cls == "Bucket":
            if self.bucket in ("absent", "empty"):
                return False
            return self.fork(("member", id(item)), "the proposal is already in the bucket", node)
        return super().contains(container, item, node)

    # -------------------------------------------------------------- calls
    def apply(self, fn: Any, pos: list[Any], kw: dict[str, Any], node: ast.AST) -> Any:  # noqa: C901
        if not (isinstance(fn, tuple) and fn):
            return super().apply(fn, pos, kw, node)
        tag = fn[0]
        if tag in ("method", "function"):
            fi: FuncInfo = fn[1]
            me = Obj("self") if tag == "method" and not _is_static(fi.node) else None
            return self.call_node(fi.node, self.bind_args(fi.node, pos, kw, self_value=me))
        if tag == "resolver":
            fi2 = self.prog.resolve_method(self.cls, fn[1])
            if fi2 is None:
                raise AnalysisError(f"anchor Matryoshka.{fn[1]} not found")
            a = by_name(fi2.params[1:], pos, kw, f"self.{fn[1]}")
            vals = [a.get(p, _MISSING) for p in fi2.params[1:]]
            if self.opaque[fn[1]] == "validate":
                if not vals or vals[0] is not self.ids:
                    raise AnalysisError(f"{fn[1]} call shape not recognised")
                self.valid = not self.fork("valid", "component ids fail validation", node)
                return self.valid
            fresh = Sym("fresh_target")
            self.events.append({"kind": "calc", "args": vals, "result": fresh, "node": node,
                                "bucket_state": self.bucket})
            return fresh
        if tag == "state":
            return self.state_call(fn[1], fn[2], pos, kw, node)
        return super().apply(fn, pos, kw, node)

    def state_call(self, cls: str, meth: str, pos: list[Any], kw: dict[str, Any], node: ast.AST) -> Any:
        if cls == "Buckets" and meth in ("get", "setdefault") and pos:
            self.same_ids(pos[0], f"self._component_buckets.{meth}(...)")
            if meth == "setdefault":
                if self.bucket == "absent":
                    if len(pos) > 1 and not (isinstance(pos[1], set) and not pos[1]):
                        raise AnalysisError("Matryoshka: bucket default is not an empty set")
                    self.bucket = "empty"
                return self.bucket_obj
            if self.bucket == "absent":
                return pos[1] if len(pos) > 1 else None
            return self.bucket_obj
        if cls == "Targets" and meth == "get" and pos:
            self.same_ids(pos[0], "self._target_power.get(...)")
            return self.stored if self.stored is not None else (pos[1] if len(pos) > 1 else None)
        if cls == "Bucket" and meth in ("add", "remove", "discard") and len(pos) == 1:
            if meth == "add":
                self.bucket = "nonempty"
            elif self.bucket == "nonempty":
                self.bucket = "unknown"
            return None
        raise AnalysisError(f"Matryoshka: {cls}.{meth}(...) not modelled (line {getattr(node, 'lineno', '?')})")

    def apply_other(self, fn: Any, pos: list[Any], kw: dict[str, Any], node: ast.AST) -> Any:
        if isinstance(fn, tuple) and fn and fn[0] == "global":
            head = fn[1].split(".", 1)[0]
            if head in ("_logger", "logging", "_log"):
                return None
            if fn[1] == "set" and not pos and not kw:
                return set()
            if not (fn[1] == "len" and len(pos) == 1 and pos[0] is self.bucket_obj):
                res = pure_builtin(self, fn[1], pos, kw, node)
                if res is not _NOT_BUILTIN:
                    return res
            if head == "Power":
                return Sym(f"{fn[1]}(...)")  # some other power value, never the stored / fresh one
            if fn[1] == "len" and len(pos) == 1 and pos[0] is self.bucket_obj:
                return 1 if self.truth_of(pos[0], node) else 0
            raise AnalysisError(f"Matryoshka: call of {fn[1]} not modelled (line {getattr(node, 'lineno', '?')})")
        return super().apply_other(fn, pos, kw, node)

    # -------------------------------------------------------------- domain
    def compare_values(self, op: ast.cmpop, a: Any, b: Any, node: ast.AST) -> Any:
        return compare_opaque(self, op, a, b, node) if _opaque_pair(a, b) else \
            super().compare_values(op, a, b, node)

    def truth_of(self, v: Any, node: ast.AST | None) -> bool:
        if isinstance(v, Flag):
            if v.name not in self.flags:
                self.flags[v.name] = self.choose(2, f"{v.name} is true") == 1
            return self.flags[v.name]
        if v is self.bucket_obj:
            if self.bucket == "unknown":
                self.bucket = "nonempty" if self.fork("left", "proposals are left in the bucket", node) \
                    else "empty"
            return self.bucket == "nonempty"
        if isinstance(v, (Sym, Lin, Obj)):
            return True
        return super().truth_of(v, node)


# ------------------------------------------------------------------------------ uses of a state mapping
STORE_ATTR = "_target_power"          # group -> stored target (reported, summed, baseline of "unchanged")
BUCKETS_ATTR = "_component_buckets"   # group -> proposals
_MAP_REMOVERS = {"pop", "popitem", "clear", "__delitem__"}
_MAP_WRITERS = {"update", "setdefault", "__setitem__", "__ior__"}
_MAP_READERS = {"get", "keys", "values", "items", "copy", "__contains__", "__getitem__", "__len__", "__iter__"}
_PURE_CALLS = {"len", "bool", "dict", "list", "tuple", "set", "frozenset", "sorted", "iter", "repr", "str", "any",
               "all", "enumerate", "reversed", "id", "print", "min", "max", "sum", "isinstance", "type", "next"}


def self_attr_ref(attr: str) -> Any:
    """Predicate: the node is `self.<attr>`."""
    return lambda n: (isinstance(n, ast.Attribute) and n.attr == attr and isinstance(n.value, ast.Name)
                      and n.value.id == "self")


def foreign_attr_ref(attr: str) -> Any:
    """Predicate: the node is `<something other than self>.<attr>` (another object's state)."""
    return lambda n: (isinstance(n, ast.Attribute) and n.attr == attr
                      and not (isinstance(n.value, ast.Name) and n.value.id == "self"))


def mapping_uses(fn: ast.AST, is_ref: Any) -> list[dict[str, Any]]:
    """How a function uses a state mapping (references chosen by `is_ref`, plus local names bound to one).

    Each use is {kind, node, how}: kind is
      set     an entry is written (`m[k] = v`, `m[k] += v`, update / setdefault / |=)
      remove  an entry is removed (`del m[k]`, pop / popitem / clear)
      rebind  the attribute itself is assigned or deleted (`value`: the assigned expression or None)
      read    look-ups, membership tests, iteration, copies, truthiness, pure builtins, logging
      escape  the mapping is handed to code this function does not show (argument of a call that is not a
              pure builtin, returned, stored in another object, unknown method)."""
    from ..engine.resolver import parent_map

    parents = parent_map(fn)
    aliases: set[str] = set()

    def ref(n: ast.AST) -> bool:
        return bool(is_ref(n)) or (isinstance(n, ast.Name) and n.id in aliases)

    changed = True
    while changed:  # local names bound to the mapping (transitively)
        changed = False
        for n in ast.walk(fn):
            tgt: ast.AST | None = None
            if isinstance(n, ast.Assign) and len(n.targets) == 1 and ref(n.value):
                tgt = n.targets[0]
            elif isinstance(n, (ast.AnnAssign, ast.NamedExpr)) and n.value is not None and ref(n.value):
                tgt = n.target
            if isinstance(tgt, ast.Name) and tgt.id not in aliases:
                aliases.add(tgt.id)
                changed = True

    out: list[dict[str, Any]] = []

    def use(kind: str, node: ast.AST, how: str, **kw: Any) -> None:
        out.append({"kind": kind, "node": node, "how": how, **kw})

    for n in ast.walk(fn):
        if not ref(n):
            continue
        p = parents.get(n)
        ctx = getattr(n, "ctx", None)
        if isinstance(n, ast.Attribute) and isinstance(ctx, (ast.Store, ast.Del)):
            value = getattr(p, "value", None) if isinstance(p, (ast.Assign, ast.AnnAssign)) else None
            use("rebind", p if p is not None else n, "the mapping itself is replaced", value=value)
        elif isinstance(n, ast.Name) and isinstance(ctx, (ast.Store, ast.Del)):
            continue  # (re)binding of the local alias, judged where its value comes from
        elif isinstance(p, ast.Subscript) and p.value is n:
            if isinstance(p.ctx, ast.Store):
                use("set", parents.get(p, p), "an entry is assigned")
            elif isinstance(p.ctx, ast.Del):
                use("remove", parents.get(p, p), "an entry is deleted")
            else:
                use("read", p, "look-up")
        elif isinstance(p, ast.Attribute) and p.value is n:
            call = parents.get(p)
            if not (isinstance(call, ast.Call) and call.func is p):
                use("escape", p, f"bound method `.{p.attr}` taken")
            elif p.attr in _MAP_REMOVERS:
                use("remove", call, f"`.{p.attr}(...)` removes entries")
            elif p.attr in _MAP_WRITERS:
                use("set", call, f"`.{p.attr}(...)` writes entries")
            elif p.attr in _MAP_READERS:
                use("read", call, f"`.{p.attr}(...)`")
            else:
                use("escape", call, f"unknown method `.{p.attr}(...)`")
        elif isinstance(p, ast.AugAssign) and p.target is n:
            use("set", p, "augmented assignment of the mapping")
        elif isinstance(p, (ast.Compare, ast.BoolOp, ast.UnaryOp, ast.If, ast.While, ast.IfExp, ast.Assert,
                            ast.For, ast.AsyncFor, ast.comprehension, ast.Starred, ast.FormattedValue, ast.Expr)):
            use("read", p, "test / iteration")
        elif isinstance(p, ast.Dict) and any(v is n and k is None for k, v in zip(p.keys, p.values)):
            use("read", p, "`{**m}` copy")
        elif isinstance(p, (ast.Assign, ast.AnnAssign, ast.NamedExpr)) and getattr(p, "value", None) is n:
            tgt2 = p.targets[0] if isinstance(p, ast.Assign) and len(p.targets) == 1 else getattr(p, "target", None)
            if isinstance(tgt2, ast.Name):
                use("read", p, "bound to a local name (followed)")
            else:
                use("escape", p, "stored in another object")
        elif isinstance(p, (ast.Call, ast.keyword)):
            call2 = p if isinstance(p, ast.Call) else parents.get(p)
            name = ast.unparse(call2.func) if isinstance(call2, ast.Call) else "?"
            if name in _PURE_CALLS or name.split(".", 1)[0] in ("_logger", "logging", "_log"):
                use("read", p, f"argument of {name}")
            else:
                use("escape", call2 if call2 is not None else p, f"argument of `{name}(...)`")
        else:
            use("escape", p if p is not None else n, f"used in a {type(p).__name__}")
    return out


def is_empty_mapping(e: ast.AST | None) -> bool:
    """`{}` or `dict()`."""
    if isinstance(e, ast.Dict):
        return not e.keys
    return isinstance(e, ast.Call) and ast.unparse(e.func) == "dict" and not e.args and not e.keywords


# ------------------------------------------------------------------------------ who names which group
FLAG_ATTR = "set_operating_point"     # message field: operating-point group (true) or regular group (false)
GROUP_KEY = ("component_ids", FLAG_ATTR)  # the fields of a message that name the group it is about


def group_message_classes(prog: Program) -> tuple[ClassInfo, list[ClassInfo]]:
    """The message classes of the power-managing package that name a group (they carry the operating-point
    flag): (the proposal class - the type of the proposal parameter of the algorithm's calculate_target_power -,
    the other ones = report subscriptions).  The report itself carries no flag."""
    algo = prog.cls(ALGO)
    calc = prog.resolve_method(algo, "calculate_target_power")
    carriers = [c for c in algo.module.classes.values() if FLAG_ATTR in dataclass_fields(c)]
    ann = ""
    if calc is not None and len(calc.node.args.args) > 2 and calc.node.args.args[2].annotation is not None:
        ann = ast.unparse(calc.node.args.args[2].annotation)
    words = set(_words(ann))
    proposal = [c for c in carriers if c.name in words]
    subs = [c for c in carriers if c not in proposal]
    if len(proposal) != 1 or not subs:
        raise AnalysisError(f"{algo.module.name}: the proposal / subscription message classes carrying "
                            f"`{FLAG_ATTR}` were not found ({[c.name for c in carriers]})")
    return proposal[0], subs


def _words(text: str) -> list[str]:
    out, cur = [], ""
    for ch in text:
        if ch.isalnum() or ch == "_":
            cur += ch
        else:
            if cur:
                out.append(cur)
            cur = ""
    if cur:
        out.append(cur)
    return out


def construction_sites(prog: Program, classes: list[ClassInfo]) -> list[tuple[FuncInfo, ast.Call, ClassInfo]]:
    """Every call in the package that constructs one of `classes` (callee resolved through the imports of the
    calling module, so `_power_managing.Proposal(...)`, `Proposal(...)` and an alias all count)."""
    from ..engine.resolver import dotted as dotted_name

    names = {c.name for c in classes}
    out: list[tuple[FuncInfo, ast.Call, ClassInfo]] = []
    mentions = {m.name for m in prog.modules.values() if any(n in m.source for n in names)}
    for fi in prog.all_functions():
        if fi.module.name not in mentions:
            continue  # an alias of the class is created by an import that spells its name
        aliases = {k for k, v in fi.module.imports.items() if v.rsplit(".", 1)[-1] in names}
        for n in ast.walk(fi.node):
            if not isinstance(n, ast.Call):
                continue
            d = dotted_name(n.func)
            if d is None or not (d.rsplit(".", 1)[-1] in names or d in aliases):
                continue
            target = prog.resolve_name(fi.module, d)
            for c in classes:
                if target is c:
                    out.append((fi, n, c))
    return out


def message_args(call: ast.Call, cls: ClassInfo, where: str) -> dict[str, ast.AST]:
    if any(k.arg is None for k in call.keywords) or any(isinstance(a, ast.Starred) for a in call.args):
        raise AnalysisError(f"{where}: {cls.name}(...) built with * / ** arguments: its fields cannot be read")
    fields = dataclass_fields(cls)
    out: dict[str, ast.AST] = dict(zip(fields, call.args))
    for k in call.keywords:
        if k.arg is not None:
            out[k.arg] = k.value
    return out


def canonical_source(prog: Program, fi: FuncInfo, expr: ast.AST, depth: int = 0) -> str:
    """Where a value comes from, as text that is equal for equal sources: local names assigned once are
    replaced by what they were assigned (transitively); a parameter of a private helper is replaced by the
    argument its callers in the same class pass (when they all pass the same)."""
    import copy

    if depth > 4:
        return ast.unparse(expr)
    params = set(fi.params)
    assigned: dict[str, list[ast.AST | None]] = {}
    for n in walk_no_nested(fi.node):
        tgt: ast.AST | None = None
        val: ast.AST | None = None
        if isinstance(n, ast.Assign):
            val = n.value
            for t in n.targets:
                for x in ast.walk(t):
                    if isinstance(x, ast.Name):
                        assigned.setdefault(x.id, []).append(val if t is x else None)
            continue
        if isinstance(n, (ast.AnnAssign, ast.NamedExpr)):
            tgt, val = n.target, n.value
        elif isinstance(n, (ast.AugAssign,)):
            tgt, val = n.target, None
        elif isinstance(n, (ast.For, ast.AsyncFor, ast.comprehension)):
            tgt, val = n.target, None
        elif isinstance(n, (ast.With, ast.AsyncWith)):
            for item in n.items:
                if item.optional_vars is not None:
                    for x in ast.walk(item.optional_vars):
                        if isinstance(x, ast.Name):
                            assigned.setdefault(x.id, []).append(None)
            continue
        if tgt is not None:
            for x in ast.walk(tgt):
                if isinstance(x, ast.Name):
                    assigned.setdefault(x.id, []).append(val if tgt is x else None)

    def param_source(name: str) -> str | None:
        if fi.cls is None:
            return None
        idx = fi.params.index(name)
        seen: set[str] = set()
        for m in fi.cls.methods.values():
            for c in ast.walk(m.node):
                if isinstance(c, ast.Call) and isinstance(c.func, ast.Attribute) and c.func.attr == fi.name \
                        and isinstance(c.func.value, ast.Name) and c.func.value.id in ("self", "cls"):
                    arg: ast.AST | None = None
                    pos = idx - 1  # without self
                    if 0 <= pos < len(c.args):
                        arg = c.args[pos]
                    for k in c.keywords:
                        if k.arg == name:
                            arg = k.value
                    if arg is None:
                        return None
                    seen.add(canonical_source(prog, m, arg, depth + 1))
        return seen.pop() if len(seen) == 1 else None

    class Sub(ast.NodeTransformer):
        def visit_Name(self, node: ast.Name) -> ast.AST:  # noqa: N802
            if not isinstance(node.ctx, ast.Load):
                return node
            vals = assigned.get(node.id, [])
            if node.id not in params and len(vals) == 1 and vals[0] is not None:
                return _as_expr(canonical_source(prog, fi, vals[0], depth + 1))
            if node.id in params and not vals and node.id not in ("self", "cls"):
                src = param_source(node.id)
                if src is not None:
                    return _as_expr(src)
                return ast.Name(id=f"<parameter {node.id} of {fi.name}>", ctx=ast.Load())
            return node

    return ast.unparse(Sub().visit(copy.deepcopy(expr)))


def _as_expr(text: str) -> ast.AST:
    try:
        return ast.parse(text, mode="eval").body
    except SyntaxError:
        return ast.Name(id=text, ctx=ast.Load())


def flag_polarity(test: ast.AST, flag_names: set[str]) -> int:
    """+1 if the test is true exactly when the message's operating-point flag is, -1 for its negation, 0 if the
    test is not about the flag (`x.set_operating_point`, a local bound to it, `not ...`, `... is True/False`,
    `... == True/False`)."""
    if isinstance(test, ast.UnaryOp) and isinstance(test.op, ast.Not):
        return -flag_polarity(test.operand, flag_names)
    if isinstance(test, ast.Attribute) and test.attr == FLAG_ATTR:
        return 1
    if isinstance(test, ast.Name) and test.id in flag_names:
        return 1
    if isinstance(test, ast.Compare) and len(test.ops) == 1 and isinstance(test.comparators[0], ast.Constant) \
            and isinstance(test.comparators[0].value, bool) and isinstance(test.ops[0], (ast.Is, ast.IsNot, ast.Eq,
                                                                                          ast.NotEq)):
        inner = flag_polarity(test.left, flag_names)
        sign = 1 if test.comparators[0].value else -1
        if isinstance(test.ops[0], (ast.IsNot, ast.NotEq)):
            sign = -sign
        return inner * sign
    return 0


def flag_locals(fn: ast.AST) -> set[str]:
    """Local names bound (only) to a read of the operating-point flag of a message."""
    bound: dict[str, list[bool]] = {}
    for n in walk_no_nested(fn):
        if isinstance(n, ast.Assign) and len(n.targets) == 1 and isinstance(n.targets[0], ast.Name):
            bound.setdefault(n.targets[0].id, []).append(
                isinstance(n.value, ast.Attribute) and n.value.attr == FLAG_ATTR)
        elif isinstance(n, (ast.AnnAssign, ast.NamedExpr)) and isinstance(n.target, ast.Name) and n.value is not None:
            bound.setdefault(n.target.id, []).append(
                isinstance(n.value, ast.Attribute) and n.value.attr == FLAG_ATTR)
    return {k for k, v in bound.items() if v and all(v)}


def table_choices(fn: ast.AST) -> list[dict[str, Any]]:
    """The conditionals of a function that choose between the subscription tables by the operating-point flag:
    {node, when_op: tables named where the flag is true, when_reg: tables named where it is false} (tables as
    group names "op" / "reg"), plus the table references of the function that no such conditional covers."""
    names = flag_locals(fn)
    covered: set[int] = set()
    out: list[dict[str, Any]] = []

    def tables(nodes: Iterable[ast.AST]) -> list[ast.Attribute]:
        return [x for n in nodes for x in ast.walk(n) if isinstance(x, ast.Attribute) and x.attr in SUBS_ATTRS]

    for n in walk_no_nested(fn):
        if not isinstance(n, (ast.If, ast.IfExp)):
            continue
        pol = flag_polarity(n.test, names)
        if pol == 0:
            continue
        body: list[ast.AST] = list(n.body) if isinstance(n.body, list) else [n.body]
        orelse: list[ast.AST] = list(n.orelse) if isinstance(n.orelse, list) else [n.orelse]
        t_true, t_false = tables(body), tables(orelse)
        if not t_true and not t_false:
            continue
        for x in t_true + t_false:
            covered.add(id(x))
        if pol < 0:
            t_true, t_false = t_false, t_true
        out.append({"node": n, "when_op": t_true, "when_reg": t_false})
    loose = [x for x in walk_no_nested(fn) if isinstance(x, ast.Attribute) and x.attr in SUBS_ATTRS
             and id(x) not in covered]
    return out + [{"node": x, "loose": True} for x in loose]


# ------------------------------------------------------------------------------ reachability
def reachable_methods(prog: Program, cls: ClassInfo, root: FuncInfo, stop: Iterable[str] = ()) -> list[FuncInfo]:
    """`root` and the same-class methods it (transitively) calls through `self.<m>(...)`."""
    stop_s = set(stop)
    out = [root]
    seen = {root.name}
    i = 0
    while i < len(out):
        for n in walk_no_nested(out[i].node):
            if isinstance(n, ast.Attribute) and isinstance(n.value, ast.Name) and n.value.id == "self" \
                    and n.attr not in seen and n.attr not in stop_s:
                m = prog.resolve_method(cls, n.attr)
                if m is not None and m.cls is not None:
                    seen.add(n.attr)
                    out.append(m)
        i += 1
    return out


# ------------------------------------------------------------------------------ roles
ROLE_HINTS = {"calc": "_calculate_target_power", "shift": "_calculate_shifted_bounds",
              "su": "_send_updated_target_power", "reports": "_send_reports", "tracker": "_bounds_tracker"}


def _self_refs(fn: ast.AST) -> list[str]:
    """Names m of `self.m` mentioned in the function, in source order."""
    out: list[str] = []
    for n in walk_no_nested(fn):
        if isinstance(n, ast.Attribute) and isinstance(n.value, ast.Name) and n.value.id == "self" and n.attr not in out:
            out.append(n.attr)
    return out


def _uses_attr(fn: ast.AST, attr: str, load_only: bool = False) -> bool:
    return any(isinstance(n, ast.Attribute) and n.attr == attr and (not load_only or isinstance(n.ctx, ast.Load))
               for n in ast.walk(fn))


def _builds_system_bounds(fn: ast.AST) -> bool:
    for n in ast.walk(fn):
        if isinstance(n, ast.Call):
            last = ast.unparse(n.func).split(".")[-1]
            if last == "SystemBounds" or (last == "replace" and any(k.arg == "inclusion_bounds" for k in n.keywords)):
                return True
    return False


def resolve_roles(prog: Program, cls: ClassInfo) -> dict[str, FuncInfo]:
    """Which method of the actor plays which role.  The historical name is only a hint; otherwise a
    role is bound by what the method does / who calls it:

      run      the Actor entry point `_run`
      su       called from `_run`, reaches the requests sender ("send the updated target power")
      calc     called from `su`, reaches the groups' calculate_target_power; `su` itself if the
               computation was inlined there (combined mode)
      shift    builds a SystemBounds and is reached from the method that calls the groups'
               calculate_target_power (its result is the bounds handed to the second group)
      reports  called from `_run`, reaches the groups' get_status
      tracker  consumes a receiver (`async for`) and reaches a write of self._system_bounds[...]

    AnalysisError only if no method (or more than one) plays a role."""
    M = cls.methods
    if "_run" not in M:
        raise AnalysisError(f"{cls.qual}._run not found")
    roles: dict[str, FuncInfo] = {"run": M["_run"]}

    def reach(fi: FuncInfo) -> list[FuncInfo]:
        return reachable_methods(prog, cls, fi)

    def own(name: str) -> FuncInfo | None:
        m = M.get(name)
        return m if m is not None and m.name not in ("_run", "__init__") else None

    def choose(role: str, cands: list[FuncInfo]) -> FuncInfo:
        hint = M.get(ROLE_HINTS[role])
        if hint is not None:
            return hint
        uniq = list({c.name: c for c in cands}.values())
        if len(uniq) != 1:
            raise AnalysisError(f"{cls.qual}: {len(uniq)} methods play the role of {ROLE_HINTS[role]} "
                                f"({[c.name for c in uniq]})")
        return uniq[0]

    from_run = [m for m in (own(n) for n in _self_refs(M["_run"].node)) if m is not None]
    resolvers = [m for m in M.values() if _uses_attr(m.node, "calculate_target_power")]
    roles["shift"] = choose("shift", [m for m in M.values() if m.name != "__init__" and _builds_system_bounds(m.node)
                                      and any(m in reach(r)[1:] for r in resolvers)])
    roles["su"] = choose("su", [m for m in from_run if any(
        _uses_attr(r.node, REQ_SENDER_ATTR, load_only=True) for r in reach(m))])
    su = roles["su"]
    callees = [m for m in (own(n) for n in _self_refs(su.node)) if m is not None and m is not su]
    calc_c = [m for m in callees if m is not roles["shift"]
              and any(_uses_attr(r.node, "calculate_target_power") for r in reach(m))]
    if ROLE_HINTS["calc"] not in M and (not calc_c or _uses_attr(su.node, "calculate_target_power")):
        roles["calc"] = su  # the computation lives in `su` itself
    else:
        roles["calc"] = choose("calc", calc_c)
    roles["reports"] = choose("reports", [m for m in from_run if m is not su and any(
        _uses_attr(r.node, "get_status") for r in reach(m))])
    roles["tracker"] = choose("tracker", [
        m for m in M.values() if m.name not in ("_run", "__init__")
        and any(isinstance(n, ast.AsyncFor) for n in ast.walk(m.node))
        and any(_direct_cache_write(r.node) for r in reach(m))])
    return roles


def opaque_for(roles: dict[str, FuncInfo], me: FuncInfo) -> dict[str, str]:
    """The role holders other than the analysed function (name -> role)."""
    return {fi.name: role for role, fi in roles.items() if role != "run" and fi is not me
            and not (role == "calc" and fi is roles["su"])}


# ------------------------------------------------------------------------------ control builders
def _direct_cache_write(node: ast.AST) -> bool:
    return any(isinstance(t, ast.Subscript) and isinstance(t.ctx, ast.Store)
               and ast.unparse(t.value) == f"self.{CACHE_ATTR}" for t in ast.walk(node))


def _writes_cache(prog: Program, cls: ClassInfo, stmt: ast.stmt, stop: Iterable[str]) -> bool:
    """The statement writes self._system_bounds[...] itself or through a private helper."""
    if _direct_cache_write(stmt):
        return True
    for n in ast.walk(stmt):
        if isinstance(n, ast.Call) and isinstance(n.func, ast.Attribute) and isinstance(n.func.value, ast.Name) \
                and n.func.value.id == "self" and n.func.attr not in set(stop):
            m = prog.resolve_method(cls, n.func.attr)
            if m is not None and m.cls is not None and any(
                    _direct_cache_write(fi.node) for fi in reachable_methods(prog, cls, m, stop)):
                return True
    return False


def _splice(source: str, node: Any, new: str) -> str:
    """`source` with the text of `node` replaced by `new`."""
    lines = source.splitlines(keepends=True)

    def offset(lineno: int, col: int) -> int:
        before = 0
        for x in lines[: lineno - 1]:
            before += len(x)
        return before + _col(lines[lineno - 1], col)

    start = offset(node.lineno, node.col_offset)
    end = offset(node.end_lineno, node.end_col_offset)
    return source[:start] + new + source[end:]


def _col(line: str, byte_off: int) -> int:
    return len(line.encode("utf-8")[:byte_off].decode("utf-8"))


def _seg(source: str, node: ast.AST) -> str:
    seg = ast.get_source_segment(source, node)
    if seg is None:
        raise AnalysisError("source segment not available")
    return seg


def _reads_buckets(fn: ast.AST, e: ast.AST) -> bool:
    """`e` is a read of self._component_buckets or a local assigned from one."""
    if "_component_buckets" in ast.unparse(e):
        return True
    if isinstance(e, ast.Name):
        for n in walk_no_nested(fn):
            if isinstance(n, ast.Assign) and any(isinstance(t, ast.Name) and t.id == e.id for t in n.targets) \
                    and "_component_buckets" in ast.unparse(n.value):
                return True
            if isinstance(n, ast.AnnAssign) and isinstance(n.target, ast.Name) and n.target.id == e.id \
                    and n.value is not None and "_component_buckets" in ast.unparse(n.value):
                return True
    return False


def structural_controls(prog: Program, actor: str, module: str,
                        fallback: list[tuple[str, str, str, str, str]]) -> list[tuple[str, str, str, str, str]]:
    """The four C11 controls located by structure in the tree under analysis.

    Each control is a (whole source -> patched source) replacement, so it applies to any shape of
    the anchors; where a site cannot be located the textual fallback control is used."""
    mod = prog.module(module)
    src = mod.source
    cls = prog.cls(actor)
    try:
        roles = resolve_roles(prog, cls)
    except AnalysisError:
        return list(fallback)
    stop = {fi.name for role, fi in roles.items() if role in ("shift", "calc", "su", "reports")}
    names = {role: fi.name for role, fi in roles.items()}
    built: dict[str, str] = {}

    def method(hint: str) -> FuncInfo | None:
        role = next((r for r, h in ROLE_HINTS.items() if h == hint), None)
        return roles.get(role) if role is not None else cls.methods.get(hint)

    # 1. the sum of both targets loses one operand
    calc = method("_calculate_target_power")
    if calc is not None:
        for fi in reachable_methods(prog, cls, calc, stop - {calc.name}):
            if fi.module is not mod:
                continue
            adds = [n for n in walk_no_nested(fi.node) if isinstance(n, ast.BinOp) and isinstance(n.op, ast.Add)]
            if adds:
                built["sum drops the regular term"] = _splice(src, adds[0], _seg(src, adds[0].left))
                break
            augs = [n for n in walk_no_nested(fi.node) if isinstance(n, ast.AugAssign) and isinstance(n.op, ast.Add)]
            if augs:
                built["sum drops the regular term"] = _splice(src, augs[0], "pass")
                break
    # 2. the shift has the wrong sign
    sh = method("_calculate_shifted_bounds")
    if sh is not None:
        subs = [n for n in walk_no_nested(sh.node) if isinstance(n, ast.BinOp) and isinstance(n.op, ast.Sub)]
        if subs:
            built["shift has the wrong sign"] = _splice(
                src, subs[0], f"{_seg(src, subs[0].left)} + {_seg(src, subs[0].right)}")
        else:
            negs = [n for n in walk_no_nested(sh.node) if isinstance(n, ast.UnaryOp) and isinstance(n.op, ast.USub)]
            if negs:
                built["shift has the wrong sign"] = _splice(src, negs[0], f"({_seg(src, negs[0].operand)})")
    # 3. bounds stored after the recomputation (swap the two statements of one suite)
    bt = method("_bounds_tracker")
    if bt is not None:
        for n in ast.walk(bt.node):
            for field in ("body", "orelse"):
                suite = getattr(n, field, None)
                if not (isinstance(suite, list) and suite and isinstance(suite[0], ast.stmt)):
                    continue
                st = [s for s in suite if not isinstance(s, (ast.For, ast.AsyncFor, ast.While, ast.If, ast.Try,
                                                          ast.With, ast.AsyncWith))
                      and _writes_cache(prog, cls, s, stop)]
                up = [s for s in suite if any(
                    isinstance(c, ast.Attribute) and c.attr == names["su"] for c in ast.walk(s))]
                if st and up and suite.index(st[0]) < suite.index(up[0]):
                    a, b = st[0], up[0]
                    lines = src.splitlines(keepends=True)
                    blk_a = lines[a.lineno - 1: a.end_lineno]
                    mid = lines[a.end_lineno: b.lineno - 1]  # type: ignore[misc]
                    blk_b = lines[b.lineno - 1: b.end_lineno]
                    built["bounds stored after recomputation"] = "".join(
                        lines[: a.lineno - 1] + blk_b + mid + blk_a + lines[b.end_lineno:])  # type: ignore[misc]
    # 4. regular reports are computed against the unshifted bounds
    sr = method("_send_reports")
    if sr is not None and sh is not None:
        for fi in reachable_methods(prog, cls, sr, stop - {sr.name}):
            if fi.module is not mod:
                continue
            calls = [n for n in walk_no_nested(fi.node) if isinstance(n, ast.Call)
                     and isinstance(n.func, ast.Attribute) and n.func.attr == names["shift"]]
            if calls:
                c = calls[0]
                first: ast.AST | None = c.args[0] if c.args else None
                for k in c.keywords:
                    if first is None and k.arg == sh.params[1]:
                        first = k.value
                if first is not None:
                    built["regular reports not shifted"] = _splice(src, c, _seg(src, first))
                    break
    # 5. the resolver skips the recomputation for an emptied bucket (`is None` test -> truthiness)
    mmod = prog.module(MATRYOSHKA.split(":")[0])
    rc = prog.cls(MATRYOSHKA).methods.get("calculate_target_power")
    sources = {module: src, mmod.name: mmod.source}
    if rc is not None:
        for n in walk_no_nested(rc.node):
            if isinstance(n, ast.If) and isinstance(n.test, ast.Compare) and len(n.test.ops) == 1 \
                    and isinstance(n.test.ops[0], ast.Is) and isinstance(n.test.comparators[0], ast.Constant) \
                    and n.test.comparators[0].value is None and len(n.body) == 1 and isinstance(n.body[0], ast.Return) \
                    and (n.body[0].value is None or (isinstance(n.body[0].value, ast.Constant)
                                                     and n.body[0].value.value is None)) \
                    and _reads_buckets(rc.node, n.test.left):
                built["resolver skips an emptied bucket"] = _splice(
                    mmod.source, n.test, f"not {_seg(mmod.source, n.test.left)}")
                break
    if rc is not None and "resolver skips an emptied bucket" not in built:
        for n in walk_no_nested(rc.node):
            if isinstance(n, ast.If) and isinstance(n.test, ast.Compare) and len(n.test.ops) == 1 \
                    and isinstance(n.test.ops[0], ast.NotIn) \
                    and ast.unparse(n.test.comparators[0]) == "self._component_buckets" \
                    and len(n.body) == 1 and isinstance(n.body[0], ast.Return) \
                    and (n.body[0].value is None or (isinstance(n.body[0].value, ast.Constant)
                                                     and n.body[0].value.value is None)):
                built["resolver skips an emptied bucket"] = _splice(
                    mmod.source, n.test, f"not self._component_buckets.get({_seg(mmod.source, n.test.left)})")
                break
    # 6. the reports after a recomputation in the event loop are dropped
    rn = method("_run")
    for fi in (reachable_methods(prog, cls, rn, stop) if rn is not None else []):
        if fi.module is not mod:
            continue
        for n in ast.walk(fi.node):
            for field in ("body", "orelse"):
                suite = getattr(n, field, None)
                if not (isinstance(suite, list) and suite and isinstance(suite[0], ast.stmt)):
                    continue
                for a, b in zip(suite, suite[1:]):
                    if isinstance(a, ast.Expr) and isinstance(b, ast.Expr) \
                            and f"self.{names['su']}(" in ast.unparse(a) and f"self.{names['reports']}(" in ast.unparse(b) \
                            and "reports dropped after a proposal" not in built:
                        built["reports dropped after a proposal"] = _splice(src, b, "pass")
    # 7. the report carries something else than the stored target
    gs = prog.cls(MATRYOSHKA).methods.get("get_status")
    if gs is not None:
        for n in walk_no_nested(gs.node):
            if isinstance(n, ast.Call) and ast.unparse(n.func).split(".")[-1] == "_Report":
                kw = next((k for k in n.keywords if k.arg == "target_power"), None)
                if kw is not None:
                    built["report target is not the stored target"] = _splice(mmod.source, kw.value, "None")
                    break
    # 8. the group computed first is given bounds shifted by the other group's stored target
    algo_calc = prog.resolve_method(prog.cls(ALGO), "calculate_target_power")
    if calc is not None and sh is not None and algo_calc is not None and len(algo_calc.params) >= 4:
        p_ids, _, p_bounds = algo_calc.params[1:4]
        for fi in reachable_methods(prog, cls, calc, stop - {calc.name}):
            if fi.module is not mod or "first group computed in shifted bounds" in built:
                continue
            for n in walk_no_nested(fi.node):
                if not (isinstance(n, ast.Call) and isinstance(n.func, ast.Attribute)
                        and n.func.attr == "calculate_target_power" and isinstance(n.func.value, ast.Attribute)
                        and n.func.value.attr in GROUP_ATTRS and ast.unparse(n.func.value.value) == "self"):
                    continue
                kws = {k.arg: k.value for k in n.keywords}
                b_arg = n.args[2] if len(n.args) > 2 else kws.get(p_bounds)
                i_arg = n.args[0] if n.args else kws.get(p_ids)
                if b_arg is None or i_arg is None or names["shift"] in ast.unparse(b_arg):
                    continue
                other = next(a for a in GROUP_ATTRS if a != n.func.value.attr)
                built["first group computed in shifted bounds"] = _splice(
                    src, b_arg, f"self.{names['shift']}({_seg(src, b_arg)}, "
                                f"self.{other}.get_target_power({_seg(src, i_arg)}))")
                break
    # 9. the stored target is reset where proposals expire (a writer of the store besides the recalculation)
    dp = prog.cls(MATRYOSHKA).methods.get("drop_old_proposals")
    if dp is not None and dp.node.body:
        last = dp.node.body[-1]
        built["stored target reset when proposals expire"] = _splice(
            mmod.source, last, f"{_seg(mmod.source, last)}\n{' ' * last.col_offset}self.{STORE_ATTR}.clear()")
    # 10. the power put into the request is adjusted after the sum was formed (pushed out of the exclusion zone)
    su = method("_send_updated_target_power")
    for fi in (reachable_methods(prog, cls, su, stop - {su.name}) if su is not None else []):
        if fi.module is not mod or "request power adjusted after the sum" in built:
            continue
        for n in walk_no_nested(fi.node):
            if isinstance(n, ast.Call) and ast.unparse(n.func).split(".")[-1] == "Request":
                kws = {k.arg: k.value for k in n.keywords}
                if "power" in kws and "component_ids" in kws:
                    v, i = _seg(src, kws["power"]), _seg(src, kws["component_ids"])
                    excl = f"self.{CACHE_ATTR}[{i}].exclusion_bounds"
                    built["request power adjusted after the sum"] = _splice(
                        src, kws["power"], f"({v} if {excl} is None else max({v}, {excl}.upper))")
                    break
    # 11. the report hides the stored target while the group's bucket holds no proposal
    if gs is not None and len(gs.params) > 1:
        for n in walk_no_nested(gs.node):
            if isinstance(n, ast.Call) and ast.unparse(n.func).split(".")[-1] == "_Report":
                kw = next((k for k in n.keywords if k.arg == "target_power"), None)
                if kw is not None:
                    built["report hides the stored target of an emptied bucket"] = _splice(
                        mmod.source, kw.value, f"({_seg(mmod.source, kw.value)} if self.{BUCKETS_ATTR}.get("
                                               f"{gs.params[1]}) else None)")
                    break
    # 12./13. a client class builds its report subscription without the operating-point flag / with a flag that
    #         does not come from where the flag of its proposals comes from
    built_module: dict[str, str] = {}
    try:
        proposal_cls, sub_classes = group_message_classes(prog)
        sites = construction_sites(prog, [proposal_cls, *sub_classes])
    except AnalysisError:
        sites = []
    with_props = {fi.cls.qual for fi, _c, mc in sites if fi.cls is not None and mc is proposal_cls}
    for fi, call, mc in sites:
        if mc is proposal_cls or fi.cls is None or fi.cls.qual not in with_props:
            continue
        kw = next((k for k in call.keywords if k.arg == FLAG_ATTR), None)
        if kw is None:
            continue
        import copy

        bare = copy.deepcopy(call)
        bare.keywords = [k for k in bare.keywords if k.arg != FLAG_ATTR]
        msrc = fi.module.source
        sources[fi.module.name] = msrc
        built["subscription built without the operating-point flag"] = _splice(msrc, call, ast.unparse(bare))
        built["subscription flag not from the source of the proposals' flag"] = _splice(msrc, kw.value, "False")
        built_module["subscription built without the operating-point flag"] = fi.module.name
        built_module["subscription flag not from the source of the proposals' flag"] = fi.module.name
        break
    # 14. the event loop files operating-point subscriptions in the regular table and vice versa
    for fi in (reachable_methods(prog, cls, rn, stop) if rn is not None else []):
        if fi.module is not mod or "subscription tables exchanged" in built:
            continue
        for ch in table_choices(fi.node):
            if ch.get("loose") or not ch["when_op"] or not ch["when_reg"]:
                continue
            a, b = ch["when_op"][0], ch["when_reg"][0]
            if a.attr == b.attr:
                continue
            t1, t2 = sorted((a, b), key=lambda x: (x.lineno, x.col_offset))
            text = _splice(src, t2, _seg(src, t2).replace(t2.attr, t1.attr))
            built["subscription tables exchanged"] = _splice(text, t1, _seg(src, t1).replace(t1.attr, t2.attr))
            break
    # 15. an arm of the event loop reports for a group that another arm bound (a local left over from an earlier pass)
    try:
        group_uses = arm_group_uses(prog, cls, roles)
    except AnalysisError:
        group_uses = []
    for use in sorted(group_uses, key=lambda x: (x["callee"] != names["reports"], getattr(x["call"], "lineno", 0))):
        fi, flow = use["fn"], use["flow"]
        if fi.module is not mod or use["bad"] or "reports sent for the group of another arm" in built:
            continue
        arg = next((a for p_, a in _sink_args(use["call"], roles["reports"] if use["callee"] == names["reports"]
                                              else roles["su"], {use["param"]})), None) \
            if use["callee"] in (names["reports"], names["su"]) else None
        if arg is None:
            continue
        locals_ = sorted({n for ns in flow.defs.values() for n in ns})
        left_over = next((n for n in locals_ if flow.stale(use["node"], n) is not None), None)
        if left_over is not None:
            built["reports sent for the group of another arm"] = _splice(src, arg, left_over)
    # 16. the name of the report channel loses the field that selects the subscription table
    try:
        import re

        for f in channel_key_findings(prog, cls, roles):
            for site_fi, site in f["sites"]:
                msrc = site_fi.module.source
                seg = ast.get_source_segment(msrc, site)
                if seg is None or "report channel name without the operating-point flag" in built:
                    continue
                cut = re.sub(r"\{\s*\w+\." + FLAG_ATTR + r"\b[^{}]*\}", "", seg)
                if cut != seg:
                    sources[site_fi.module.name] = msrc
                    built["report channel name without the operating-point flag"] = _splice(msrc, site, cut)
                    built_module["report channel name without the operating-point flag"] = site_fi.module.name
    except AnalysisError:
        pass
    out = []
    for name, module_, old, new, rule in fallback:
        module_ = built_module.get(name, module_)
        base = sources.get(module_, src)
        patched = built.get(name)
        if patched is not None and patched != base:
            try:
                ast.parse(patched)
            except SyntaxError:
                patched = None
        if patched is not None and patched != base:
            out.append((name, module_, base, patched, rule))
        else:
            out.append((name, module_, old, new, rule))
    return out


# ------------------------------------------------------------------------------ arm-local group (C11.ARM)
# Which component group an arm of the event loop recomputes / reports for.  Decided by reaching definitions over the
# CFG of the event loop (and of the private methods it calls): no spelling, no line, no arm order is assumed.
_SCOPES = (ast.FunctionDef, ast.AsyncFunctionDef, ast.ClassDef)


def _bound_inside(expr: ast.AST) -> set[str]:
    """Names bound by the expression itself (comprehension targets, lambda parameters): not locals of the function."""
    out: set[str] = set()
    for n in ast.walk(expr):
        if isinstance(n, ast.comprehension):
            out |= {x.id for x in ast.walk(n.target) if isinstance(x, ast.Name)}
        elif isinstance(n, ast.Lambda):
            a = n.args
            out |= {x.arg for x in a.posonlyargs + a.args + a.kwonlyargs}
            out |= {x.arg for x in (a.vararg, a.kwarg) if x is not None}
    return out


def loaded_names(expr: ast.AST) -> list[str]:
    """Local names an expression reads (not the ones it binds itself, not nested function bodies)."""
    inner = _bound_inside(expr)
    out: list[str] = []
    stack = [expr]
    while stack:
        cur = stack.pop()
        if isinstance(cur, _SCOPES) and cur is not expr:
            continue
        if isinstance(cur, ast.Name) and isinstance(cur.ctx, ast.Load) and cur.id not in inner and cur.id not in out:
            out.append(cur.id)
        if isinstance(cur, ast.AugAssign) and isinstance(cur.target, ast.Name) and cur.target.id not in out:
            out.append(cur.target.id)
        stack.extend(ast.iter_child_nodes(cur))
    return out


class ArmFlow:
    """Reaching definitions of one function for the group clause: per CFG node the local names it binds (assignment,
    loop target, `with ... as`, `except ... as`, `case` captures, walrus) and the names the bound value is made of."""

    def __init__(self, fi: FuncInfo) -> None:
        from ..engine.cfg import CFG, own_parts
        from ..engine.util import node_writes

        self.fi = fi
        self.cfg = CFG(fi.node, fi.file)
        self._own_parts = own_parts
        self.subject: dict[int, ast.AST] = {}  # id(match_case) -> the subject its captures are taken from
        for n in walk_no_nested(fi.node):
            if isinstance(n, ast.Match):
                for c in n.cases:
                    self.subject[id(c)] = n.subject
        self.defs: dict[int, set[str]] = {}
        for n in self.cfg.nodes:
            if n.ast is None:
                continue
            names = {w.id for w in node_writes(self.cfg, n.id) if isinstance(w, ast.Name)}
            if n.kind == "case":
                for p in ast.walk(n.ast.pattern):  # type: ignore[attr-defined]
                    if isinstance(p, (ast.MatchAs, ast.MatchStar)) and p.name:
                        names.add(p.name)
                    elif isinstance(p, ast.MatchMapping) and p.rest:
                        names.add(p.rest)
            if n.kind == "handler" and getattr(n.ast, "name", None):
                names.add(n.ast.name)  # type: ignore[attr-defined]
            if isinstance(n.ast, (ast.Import, ast.ImportFrom)) and n.kind not in ("test", "for", "with", "case"):
                names |= {(a.asname or a.name).split(".")[0] for a in n.ast.names}
            if names:
                self.defs[n.id] = names
        self.loops = [n.id for n in self.cfg.nodes if n.kind in ("for", "while")]
        self._members: dict[int, set[int]] = {}

    def defs_of(self, name: str) -> set[int]:
        return {nid for nid, names in self.defs.items() if name in names}

    def members(self, head: int) -> set[int]:
        """The nodes of the loop with this header (on a cycle through it, normal edges)."""
        from ..engine.util import normal_edge

        if head not in self._members:
            fwd = self.cfg.reachable([head], edge_ok=normal_edge, include_src=False)
            back = self.cfg.co_reachable([head], edge_ok=normal_edge)
            self._members[head] = (fwd & back) | ({head} if head in fwd else set())
        return self._members[head]

    def sources(self, nid: int) -> list[str]:
        """The local names the value(s) bound at this node are made of.  An element taken from an iterated
        collection (`for ids in self._tracked`, `for ids in groups`) names *every* member of the collection, not
        one remembered group: only the elements of a literal display are followed."""
        n = self.cfg.nodes[nid]
        if n.ast is None:
            return []
        if n.kind == "for":
            it = n.ast.iter  # type: ignore[attr-defined]
            if isinstance(it, (ast.List, ast.Tuple, ast.Set)):
                return loaded_names(it)
            return []
        parts = list(self._own_parts(n))
        if n.kind == "case" and id(n.ast) in self.subject:
            parts.append(self.subject[id(n.ast)])
        out: list[str] = []
        for p in parts:
            for name in loaded_names(p):
                if name not in out:
                    out.append(name)
        return out

    def reaching(self, nid: int, name: str) -> list[int]:
        """Definitions of `name` that can reach the node (no other definition in between)."""
        out: list[int] = []
        seen = {nid}
        stack = [nid]
        while stack:
            cur = stack.pop()
            for p, _lab in self.cfg.pred[cur]:
                if p in seen:
                    continue
                seen.add(p)
                if name in self.defs.get(p, ()):
                    out.append(p)
                    continue
                stack.append(p)
        return out

    def stale(self, nid: int, name: str) -> dict[str, Any] | None:
        """The value of `name` read at the node can come from an earlier iteration of an enclosing loop (or from
        nowhere): the name is bound somewhere inside the loop, but a path from the loop header to the node binds it
        nowhere.  A name the loop header itself binds, or that is bound only outside the loop, is not stale."""
        from ..engine.util import normal_edge

        defs = self.defs_of(name)
        for head in self.loops:
            inside = self.members(head)
            if nid not in inside or head in defs:
                continue
            here = sorted(d for d in defs if d in inside)
            if not here:
                continue
            wit = self.cfg.path(head, [nid], avoid=(defs - {nid}) | {head}, edge_ok=normal_edge, include_src=False)
            if wit is not None:
                return {"head": head, "path": wit, "defs": here,
                        "before": sorted(d for d in defs if d not in inside)}
        return None


def _sink_args(call: ast.Call, callee: FuncInfo, params: set[str]) -> list[tuple[str, ast.AST]]:
    """(parameter, argument expression) for the group-carrying parameters of the callee that the call supplies."""
    names = callee.params[1:] if callee.params and callee.params[0] in ("self", "cls") else callee.params
    bound: dict[str, ast.AST] = {}
    for p, a in zip(names, call.args):
        if isinstance(a, ast.Starred):
            break
        bound[p] = a
    for k in call.keywords:
        if k.arg is not None:
            bound[k.arg] = k.value
    return [(p, bound[p]) for p in names if p in params and p in bound]


def arm_group_uses(prog: Program, cls: ClassInfo, roles: dict[str, FuncInfo]) -> list[dict[str, Any]]:
    """Every call, in the event loop or a private method it runs, that names the component group to recompute or
    report for (first parameter of the recomputing / reporting / calculating role, or a parameter of a helper that
    is handed on to one), with the verdict of the reaching-definitions test for each local the group is made of:

      {"fn", "call", "callee", "param", "node", "bad": [{"name", "at", "via", "head", "path", "defs", "before"}]}"""
    from ..engine.util import method_call

    run_fi = roles["run"]
    stop = {fi.name for r, fi in roles.items() if r != "run"}
    funcs = [fi for fi in reachable_methods(prog, cls, run_fi, stop) if fi.cls is not None]
    sinks: dict[str, set[str]] = {}
    callee_of: dict[str, FuncInfo] = {}
    for role in ("su", "reports", "calc"):
        fi = roles[role]
        ps = fi.params[1:] if fi.params and fi.params[0] in ("self", "cls") else fi.params
        if not ps:
            raise AnalysisError(f"{fi.qual}: no parameter names the component group")
        sinks.setdefault(fi.name, set()).add(ps[0])
        callee_of[fi.name] = fi
    flows = {fi.name: ArmFlow(fi) for fi in funcs}
    for fi in funcs:
        callee_of.setdefault(fi.name, fi)
    uses: dict[tuple[str, int, str], dict[str, Any]] = {}
    changed = True
    rounds = 0
    while changed:
        changed = False
        rounds += 1
        if rounds > 12:
            raise AnalysisError(f"{run_fi.qual}: the flow of component groups through helpers does not settle")
        for fi in funcs:
            flow = flows[fi.name]
            cfg = flow.cfg
            own_params = set(fi.params) - {"self", "cls"}
            for node in cfg.nodes:
                if node.ast is None:
                    continue
                for part in flow._own_parts(node):
                    for call in [c for c in ast.walk(part) if isinstance(c, ast.Call)]:
                        target = next((m for m in sinks if method_call(call, "self", m)), None)
                        if target is None:
                            continue
                        for param, arg in _sink_args(call, callee_of[target], sinks[target]):
                            key = (fi.name, id(call), param)
                            bad: list[dict[str, Any]] = []
                            seen: set[tuple[int, str]] = set()
                            work: list[tuple[int, str, list[str]]] = [(node.id, nm, []) for nm in loaded_names(arg)]
                            while work:
                                at, name, via = work.pop(0)
                                if (at, name) in seen or name in ("self", "cls"):
                                    continue
                                seen.add((at, name))
                                defs = flow.defs_of(name)
                                if name in own_params:
                                    free = not defs or cfg.path(cfg.entry, [at], avoid=defs - {at}) is not None
                                    if free and fi is not run_fi and name not in sinks.setdefault(fi.name, set()):
                                        sinks[fi.name].add(name)  # the helper's callers choose the group
                                        changed = True
                                if not defs:
                                    continue  # a global / a parameter that is never re-bound
                                st = flow.stale(at, name)
                                if st is not None:
                                    bad.append({"name": name, "at": at, "via": via, **st})
                                    continue
                                for d in flow.reaching(at, name):
                                    for src in flow.sources(d):
                                        work.append((d, src, via + [name]))
                            uses[key] = {"fn": fi, "flow": flow, "call": call, "callee": target, "param": param,
                                         "node": node.id, "bad": bad}
    return list(uses.values())


# ------------------------------------------------------------------------------ report channel key (C11.CHAN)
# Two subscriptions that the event loop files apart (another table, another key) must get their report senders from
# different channels: the key handed to the channel registry has to contain, whole, every field of the subscription
# that decides where the sender is stored.
_INJECTIVE = {"str", "repr", "format", "sorted", "tuple", "list", "frozenset", "int", "ascii"}
REGISTRY_LOOKUP = "get_or_create"


def _assigned_values(fn: ast.AST, name: str) -> list[ast.AST]:
    out: list[ast.AST] = []
    for n in walk_no_nested(fn):
        if isinstance(n, ast.Assign) and any(isinstance(t, ast.Name) and t.id == name for t in n.targets):
            out.append(n.value)
        elif isinstance(n, (ast.AnnAssign, ast.NamedExpr)) and isinstance(n.target, ast.Name) \
                and n.target.id == name and n.value is not None:
            out.append(n.value)
    return out


class NameFields:
    """Which fields of a message appear *whole* in a string built from it: followed through f-strings (any
    conversion / `=` / format spec), `+`, `%`, `.format`, `.join`, str/repr/sorted/tuple..., locals, properties and
    helper methods / module functions (parameters bound to the arguments).  A field that only appears inside another
    computation (`len(x.ids)`, `x.priority % 2`, a subscript) is not whole: two different values can give one name."""

    def __init__(self, prog: Program, msg_cls: ClassInfo) -> None:
        self.prog = prog
        self.msg_cls = msg_cls
        self.fields = set(dataclass_fields(msg_cls))
        self.sites: list[tuple[FuncInfo, ast.AST]] = []  # the string-building expressions read (for the report)

    def of(self, fi: FuncInfo, e: ast.AST | None, objs: set[str], env: dict[str, set[str]], depth: int = 0) -> set[str]:
        if e is None or depth > 10:
            return set()
        rec = lambda x, env_=env: self.of(fi, x, objs, env_, depth + 1)  # noqa: E731
        if isinstance(e, ast.Attribute):
            if isinstance(e.value, ast.Name) and e.value.id in objs:
                if e.attr in self.fields:
                    return {e.attr}
                m = self.prog.resolve_method(self.msg_cls, e.attr)
                if m is not None and any(ast.unparse(d).endswith("property") for d in m.node.decorator_list):
                    return self._returns(m, {m.params[0]} if m.params else set(), {}, depth + 1)
            return set()
        if isinstance(e, ast.Name):
            if e.id in env:
                return set(env[e.id])
            out: set[str] = set()
            for v in _assigned_values(fi.node, e.id):
                out |= rec(v)
            return out
        if isinstance(e, ast.JoinedStr):
            if not any(s is e for _f, s in self.sites):
                self.sites.append((fi, e))
            return set().union(*[rec(v) for v in e.values]) if e.values else set()
        if isinstance(e, ast.FormattedValue):
            return rec(e.value)
        if isinstance(e, ast.BinOp) and isinstance(e.op, (ast.Add, ast.Mod)):
            return rec(e.left) | rec(e.right)
        if isinstance(e, (ast.Tuple, ast.List, ast.Set)):
            return set().union(*[rec(x) for x in e.elts]) if e.elts else set()
        if isinstance(e, ast.Starred):
            return rec(e.value)
        if isinstance(e, ast.IfExp):
            return rec(e.body) | rec(e.orelse) | rec(e.test)
        if isinstance(e, (ast.ListComp, ast.GeneratorExp, ast.SetComp)):
            env2 = dict(env)
            for g in e.generators:
                got = self.of(fi, g.iter, objs, env2, depth + 1)
                for t in ast.walk(g.target):
                    if isinstance(t, ast.Name):
                        env2[t.id] = got
            return self.of(fi, e.elt, objs, env2, depth + 1)
        if isinstance(e, ast.Await):
            return rec(e.value)
        if isinstance(e, ast.Call):
            args = list(e.args) + [k.value for k in e.keywords]
            f = e.func
            if isinstance(f, ast.Name) and f.id in _INJECTIVE:
                return set().union(*[rec(a) for a in args]) if args else set()
            if isinstance(f, ast.Attribute) and f.attr in ("format", "join", "format_map"):
                return rec(f.value) | (set().union(*[rec(a) for a in args]) if args else set())
            callee: FuncInfo | None = None
            new_objs: set[str] = set()
            if isinstance(f, ast.Attribute) and isinstance(f.value, ast.Name) and f.value.id in objs:
                callee = self.prog.resolve_method(self.msg_cls, f.attr)
                if callee is not None and callee.params and not _is_static(callee.node):
                    new_objs = {callee.params[0]}
            elif isinstance(f, ast.Attribute) and isinstance(f.value, ast.Name) and f.value.id == "self" \
                    and fi.cls is not None:
                callee = self.prog.resolve_method(fi.cls, f.attr)
            elif isinstance(f, (ast.Name, ast.Attribute)):
                got = self.prog.resolve_name(fi.module, ast.unparse(f))
                callee = got if isinstance(got, FuncInfo) else None
            if callee is None:
                return set()
            params = list(callee.params)
            if callee.cls is not None and params and not _is_static(callee.node):
                recv = params.pop(0)
                if isinstance(f, ast.Attribute) and isinstance(f.value, ast.Name) and f.value.id in objs:
                    new_objs = {recv}
            env2 = {}
            for p, a in zip(params, e.args):
                env2[p] = rec(a)
                if isinstance(a, ast.Name) and a.id in objs:
                    new_objs.add(p)
            for k in e.keywords:
                if k.arg is not None:
                    env2[k.arg] = rec(k.value)
                    if isinstance(k.value, ast.Name) and k.value.id in objs:
                        new_objs.add(k.arg)
            return self._returns(callee, new_objs, env2, depth + 1)
        return set()

    def _returns(self, fi: FuncInfo, objs: set[str], env: dict[str, set[str]], depth: int) -> set[str]:
        rets = [n for n in walk_no_nested(fi.node) if isinstance(n, ast.Return) and n.value is not None]
        if not rets:
            return set()
        for r in rets:
            if not any(s is r.value for _f, s in self.sites):
                self.sites.append((fi, r.value))
        got = [self.of(fi, r.value, objs, env, depth) for r in rets]
        out = got[0]
        for g in got[1:]:
            out = out & g  # every name the method can return must contain the field
        return out


def _msg_fields_read(fn: ast.AST, e: ast.AST, objs: set[str], fields: set[str], depth: int = 0) -> set[str]:
    """Fields of the message the expression reads, directly (`sub.priority`) or through locals bound to them."""
    out: set[str] = set()
    for n in ast.walk(e):
        if isinstance(n, ast.Attribute) and isinstance(n.value, ast.Name) and n.value.id in objs and n.attr in fields:
            out.add(n.attr)
        elif isinstance(n, ast.Name) and isinstance(n.ctx, ast.Load) and n.id not in objs and depth < 4:
            for v in _assigned_values(fn, n.id):
                out |= _msg_fields_read(fn, v, objs, fields, depth + 1)
    return out


def filing_fields(fn: ast.AST, objs: set[str], fields: set[str]) -> dict[str, list[ast.AST]]:
    """Which fields of the subscription decide where its report sender is stored: field -> the constructs that use
    it (a test that chooses between the subscription tables; a key of a table / of the per-group map in it)."""
    def has_table(nodes: Iterable[ast.AST]) -> bool:
        return any(isinstance(x, ast.Attribute) and x.attr in SUBS_ATTRS for n in nodes for x in ast.walk(n))

    aliases = {t.id for n in walk_no_nested(fn) if isinstance(n, (ast.Assign, ast.AnnAssign)) and n.value is not None
               and has_table([n.value])
               for t in (n.targets if isinstance(n, ast.Assign) else [n.target]) if isinstance(t, ast.Name)}

    def is_table(e: ast.AST) -> bool:
        while isinstance(e, ast.Subscript):
            e = e.value
        if isinstance(e, ast.Call) and isinstance(e.func, ast.Attribute) and e.func.attr in ("setdefault", "get"):
            return is_table(e.func.value)
        return (isinstance(e, ast.Attribute) and e.attr in SUBS_ATTRS) or (isinstance(e, ast.Name) and e.id in aliases) \
            or (isinstance(e, ast.IfExp) and has_table([e]))

    out: dict[str, list[ast.AST]] = {}

    def note(expr: ast.AST, where: ast.AST) -> None:
        for f in sorted(_msg_fields_read(fn, expr, objs, fields)):
            out.setdefault(f, []).append(where)

    for n in walk_no_nested(fn):
        if isinstance(n, (ast.If, ast.IfExp)):
            body = n.body if isinstance(n.body, list) else [n.body]
            orelse = n.orelse if isinstance(n.orelse, list) else [n.orelse]
            names_tables = {x.attr for b in (body, orelse) for s in b for x in ast.walk(s)
                            if isinstance(x, ast.Attribute) and x.attr in SUBS_ATTRS}
            in_true = {x.attr for s in body for x in ast.walk(s) if isinstance(x, ast.Attribute) and x.attr in SUBS_ATTRS}
            in_false = {x.attr for s in orelse for x in ast.walk(s) if isinstance(x, ast.Attribute) and x.attr in SUBS_ATTRS}
            if names_tables and in_true != in_false:
                note(n.test, n.test)  # the test decides which table
        elif isinstance(n, ast.Subscript) and is_table(n.value):
            note(n.slice, n)
        elif isinstance(n, ast.Call) and isinstance(n.func, ast.Attribute) and n.func.attr in ("setdefault", "get", "pop") \
                and is_table(n.func.value) and n.args:
            note(n.args[0], n)
        elif isinstance(n, ast.Assign) and isinstance(n.value, ast.Dict) \
                and any(isinstance(t, ast.Subscript) and is_table(t.value) for t in n.targets):
            for k in n.value.keys:
                if k is not None:
                    note(k, n)
        elif isinstance(n, ast.Compare) and any(isinstance(o, (ast.In, ast.NotIn)) for o in n.ops) \
                and any(is_table(c) for c in n.comparators):
            note(n.left, n)
    return out


def channel_key_findings(prog: Program, cls: ClassInfo, roles: dict[str, FuncInfo]) -> list[dict[str, Any]]:
    """For every look-up of a report channel in the registry made from the event loop or a private method it runs
    (`<registry>.get_or_create(T, key)`):
    {"fn", "call", "key", "routing": field -> constructs, "named": fields whole in the key, "sites": builders}.
    The routing fields are read from every such method that names the subscription tables; the local that denotes
    the subscription message is followed across the calls between them (argument <-> parameter)."""
    _proposal, sub_classes = group_message_classes(prog)
    stop = {fi.name for r, fi in roles.items() if r != "run"}
    funcs = [fi for fi in reachable_methods(prog, cls, roles["run"], stop) if fi.cls is not None]
    by_name = {fi.name: fi for fi in funcs}
    found: list[tuple[FuncInfo, ast.Call, ast.AST, ClassInfo]] = []
    objs: dict[str, set[str]] = {fi.name: set() for fi in funcs}
    for fi in funcs:
        for call in [n for n in walk_no_nested(fi.node) if isinstance(n, ast.Call) and isinstance(n.func, ast.Attribute)
                     and n.func.attr == REGISTRY_LOOKUP]:
            key = call.args[1] if len(call.args) > 1 else next(
                (k.value for k in call.keywords if k.arg in ("key", "name", "channel_name")), None)
            if key is None:
                raise AnalysisError(f"{fi.qual}: line {call.lineno}: the key of the channel-registry look-up is not "
                                    "recognised")
            for sc in sub_classes:
                member = set(dataclass_fields(sc)) | set(sc.methods)
                # the local(s) that denote the subscription message: what the key (through locals) is taken from
                exprs = [key]
                if isinstance(key, ast.Name):
                    exprs += _assigned_values(fi.node, key.id)
                mine = {n.value.id for e in exprs for n in ast.walk(e) if isinstance(n, ast.Attribute)
                        and isinstance(n.value, ast.Name) and n.attr in member and n.value.id != "self"}
                mine |= {a.id for e in exprs for c in ast.walk(e) if isinstance(c, ast.Call)
                         for a in c.args if isinstance(a, ast.Name) and any(
                             isinstance(x, ast.Attribute) and isinstance(x.value, ast.Name) and x.value.id == a.id
                             and x.attr in dataclass_fields(sc) for x in ast.walk(fi.node))}
                if mine:
                    objs[fi.name] |= mine
                    found.append((fi, call, key, sc))
                    break
            else:
                raise AnalysisError(f"{fi.qual}: line {call.lineno}: the key `{ast.unparse(key)}` of the report "
                                    "channel is not derived from the subscription message in a recognised way")
    # the message travels between the methods of the arm: argument <-> parameter, both ways
    changed = bool(found)
    while changed:
        changed = False
        for fi in funcs:
            for c in walk_no_nested(fi.node):
                if not (isinstance(c, ast.Call) and isinstance(c.func, ast.Attribute) and isinstance(c.func.value, ast.Name)
                        and c.func.value.id == "self" and c.func.attr in by_name):
                    continue
                callee = by_name[c.func.attr]
                params = callee.params[1:] if callee.params and callee.params[0] in ("self", "cls") else callee.params
                pairs = list(zip(params, c.args)) + [(k.arg, k.value) for k in c.keywords if k.arg is not None]
                for p_, a in pairs:
                    if not isinstance(a, ast.Name):
                        continue
                    if a.id in objs[fi.name] and p_ not in objs[callee.name]:
                        objs[callee.name].add(p_)
                        changed = True
                    if p_ in objs[callee.name] and a.id not in objs[fi.name]:
                        objs[fi.name].add(a.id)
                        changed = True
    out: list[dict[str, Any]] = []
    for fi, call, key, sc in found:
        fields = set(dataclass_fields(sc))
        routing: dict[str, list[tuple[FuncInfo, ast.AST]]] = {}
        for g in funcs:
            if not objs[g.name] or not any(isinstance(x, ast.Attribute) and x.attr in SUBS_ATTRS for x in ast.walk(g.node)):
                continue
            for f_, where in filing_fields(g.node, objs[g.name], fields).items():
                routing.setdefault(f_, []).extend((g, w) for w in where)
        nf = NameFields(prog, sc)
        named = nf.of(fi, key, objs[fi.name], {})
        out.append({"fn": fi, "call": call, "key": key, "cls": sc, "routing": routing, "named": named,
                    "sites": nf.sites})
    return out
